"""Static-analysis engine for the circuits verification checks (stdlib only)."""


class AnalysisError(Exception):
    """An anchor (entry point, class, role) is missing or uses unsupported syntax.

    Reported as ``ANALYSIS-ERROR`` with exit status 2: never a silent pass and
    never a VIOLATION.
    """
