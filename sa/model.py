"""Program model: modules, classes (static MRO), functions, handler registry.

Everything is computed from source text with ``ast``; nothing under the
analysed tree is imported or executed.
"""

import ast
import os

from . import AnalysisError


def src(node):
    """Normalised source text of an AST node."""
    try:
        return ast.unparse(node)
    except Exception:  # pragma: no cover
        return ast.dump(node)


def set_parents(tree):
    for parent in ast.walk(tree):
        for child in ast.iter_child_nodes(parent):
            if isinstance(child, (ast.expr_context, ast.operator, ast.unaryop, ast.boolop, ast.cmpop)):
                continue        # shared singletons: a parent link on them would tie unrelated subtrees together
            child._parent = parent
    tree._parent = None


def clone(x):
    """Deep copy of an AST node (or list of nodes) that does not follow the `_parent` link out of the copied subtree."""
    import copy
    if isinstance(x, list):
        return [clone(i) for i in x]
    par = getattr(x, '_parent', None)
    memo = {id(par): None} if par is not None else {}
    return copy.deepcopy(x, memo)


def parents(node):
    p = getattr(node, '_parent', None)
    while p is not None:
        yield p
        p = getattr(p, '_parent', None)


def enclosing(node, types):
    for p in parents(node):
        if isinstance(p, types):
            return p
    return None


def dotted(node):
    """'a.b.c' for Name/Attribute chains, else None."""
    parts = []
    while isinstance(node, ast.Attribute):
        parts.append(node.attr)
        node = node.value
    if isinstance(node, ast.Name):
        parts.append(node.id)
        return '.'.join(reversed(parts))
    if isinstance(node, ast.Call) and isinstance(node.func, ast.Name) and node.func.id == 'super':
        parts.append('super()')
        return '.'.join(reversed(parts))
    return None


def call_name(call):
    """Dotted name of the callee of a Call node ('self.fire', 'heappush', 'super().discard') or None."""
    return dotted(call.func)


def calls_in(node, include_nested_defs=False):
    """All Call nodes below *node* in source order (nested function bodies skipped by default)."""
    out = []

    def walk(n):
        for child in ast.iter_child_nodes(n):
            if not include_nested_defs and isinstance(child, (ast.FunctionDef, ast.AsyncFunctionDef, ast.Lambda, ast.ClassDef)):
                continue
            if isinstance(child, ast.Call):
                out.append(child)
            walk(child)

    if isinstance(node, ast.Call):
        out.append(node)
    walk(node)
    out.sort(key=lambda c: (c.lineno, c.col_offset))
    return out


def walk_no_defs(node):
    """ast.walk that does not descend into nested function/class definitions (the root itself is walked)."""
    stack = [node]
    first = True
    while stack:
        n = stack.pop()
        if not first and isinstance(n, (ast.FunctionDef, ast.AsyncFunctionDef, ast.Lambda, ast.ClassDef)):
            continue
        first = False
        yield n
        stack.extend(ast.iter_child_nodes(n))


class HandlerDecl:
    def __init__(self, names, channel, priority, override, node):
        self.names = names          # tuple of str (or expression source for non-constants)
        self.channel = channel      # ast node or None
        self.priority = priority    # ast node or None
        self.override = override
        self.node = node

    def __repr__(self):
        return f'handler{self.names}'


def parse_handler_call(call):
    """HandlerDecl for ``handler(...)`` Call node, else None."""
    if not isinstance(call, ast.Call):
        return None
    name = call_name(call)
    if name is None or name.split('.')[-1] != 'handler':
        return None
    names = []
    for a in call.args:
        if isinstance(a, ast.Constant):
            names.append(a.value)
        else:
            names.append('<' + src(a) + '>')
    kw = {k.arg: k.value for k in call.keywords if k.arg}
    override = False
    if 'override' in kw and isinstance(kw['override'], ast.Constant):
        override = bool(kw['override'].value)
    return HandlerDecl(tuple(names), kw.get('channel'), kw.get('priority'), override, call)


class FuncInfo:
    def __init__(self, module, node, cls=None, parent=None):
        self.module = module
        self.node = node
        self.cls = cls
        self.parent = parent
        self.name = node.name
        self.nested = {}
        self.handler = None
        for dec in node.decorator_list:
            h = parse_handler_call(dec)
            if h is not None:
                self.handler = h
        self.is_property = any(
            (isinstance(d, ast.Name) and d.id == 'property') or (isinstance(d, ast.Attribute) and d.attr in ('setter', 'getter'))
            for d in node.decorator_list
        )
        self._cfg = None

    @property
    def qualname(self):
        if self.parent is not None:
            return f'{self.parent.qualname}.{self.name}'
        if self.cls is not None:
            return f'{self.cls.name}.{self.name}'
        return self.name

    @property
    def ref(self):
        return f'{self.module.relpath}::{self.qualname}'

    @property
    def params(self):
        a = self.node.args
        return [x.arg for x in a.posonlyargs + a.args] + ([a.vararg.arg] if a.vararg else []) + [x.arg for x in a.kwonlyargs] + (
            [a.kwarg.arg] if a.kwarg else []
        )

    @property
    def is_generator(self):
        return any(isinstance(n, (ast.Yield, ast.YieldFrom)) for n in walk_no_defs(self.node))

    def cfg(self):
        if self._cfg is None:
            from .cfg import build_cfg

            self._cfg = build_cfg(self)
        return self._cfg

    def loc(self, node=None):
        n = node if node is not None else self.node
        return f'{self.module.relpath}:{getattr(n, "lineno", "?")}'

    def __repr__(self):
        return f'<Func {self.ref}>'


class ClassInfo:
    def __init__(self, module, node=None, name=None, base_exprs=None):
        self.module = module
        self.node = node
        self.name = name or node.name
        self.base_exprs = base_exprs if base_exprs is not None else list(node.bases)
        self.bases = []          # resolved ClassInfo
        self.unresolved_bases = []
        self.methods = {}
        self.class_attrs = {}
        self._mro = None

    @property
    def ref(self):
        return f'{self.module.relpath}::{self.name}'

    def mro(self):
        if self._mro is None:
            self._mro = _c3(self)
        return self._mro

    def lookup(self, name):
        """First FuncInfo named *name* along the MRO (or None)."""
        for c in self.mro():
            if name in c.methods:
                return c.methods[name]
        return None

    def lookup_attr(self, name):
        for c in self.mro():
            if name in c.class_attrs:
                return c.class_attrs[name]
        return None

    def is_subclass_of(self, other):
        if isinstance(other, str):
            return any(c.name == other for c in self.mro())
        return other in self.mro()

    def __repr__(self):
        return f'<Class {self.ref}>'


def _c3(cls):
    seqs = [list(b.mro()) for b in cls.bases] + [list(cls.bases)]
    res = [cls]
    seqs = [s for s in seqs if s]
    while seqs:
        for s in seqs:
            cand = s[0]
            if not any(cand in t[1:] for t in seqs):
                break
        else:  # inconsistent hierarchy: fall back to depth-first
            cand = seqs[0][0]
        res.append(cand)
        seqs = [[x for x in s if x is not cand] for s in seqs]
        seqs = [s for s in seqs if s]
    return res


class Module:
    def __init__(self, repo, path, relpath, modname):
        self.repo = repo
        self.path = path
        self.relpath = relpath
        self.modname = modname
        with open(path, encoding='utf-8') as f:
            self.source = f.read()
        try:
            self.tree = ast.parse(self.source, filename=path)
        except SyntaxError as e:
            raise AnalysisError(f'cannot parse {relpath}: {e}')
        set_parents(self.tree)
        self.lines = self.source.splitlines()
        self.imports = {}    # local name -> (module name, object name or None)
        self.functions = {}  # top-level functions
        self.classes = {}
        self.all_functions = []
        self._index()

    def _resolve_from(self, node):
        if node.level == 0:
            return node.module or ''
        pkg = self.modname.split('.')
        if not self.path.endswith('__init__.py'):
            pkg = pkg[:-1]
        if node.level > 1:
            pkg = pkg[: len(pkg) - (node.level - 1)]
        base = '.'.join(pkg)
        return f'{base}.{node.module}' if node.module else base

    def _index(self):
        for node in ast.walk(self.tree):
            if isinstance(node, ast.ImportFrom):
                mod = self._resolve_from(node)
                for a in node.names:
                    self.imports[a.asname or a.name] = (mod, a.name)
            elif isinstance(node, ast.Import):
                for a in node.names:
                    self.imports[a.asname or a.name.split('.')[0]] = (a.name if a.asname else a.name.split('.')[0], None)
        for node in self.tree.body:
            self._index_stmt(node)

    def _index_stmt(self, node):
        if isinstance(node, (ast.FunctionDef, ast.AsyncFunctionDef)):
            f = self._mkfunc(node, None, None)
            self.functions[f.name] = f
        elif isinstance(node, ast.ClassDef):
            c = ClassInfo(self, node)
            self.classes[c.name] = c
            for st in node.body:
                if isinstance(st, (ast.FunctionDef, ast.AsyncFunctionDef)):
                    f = self._mkfunc(st, c, None)
                    # property setters share the name: keep the first (getter) but index all
                    c.methods.setdefault(f.name, f)
                elif isinstance(st, ast.Assign):
                    for t in st.targets:
                        if isinstance(t, ast.Name):
                            c.class_attrs[t.id] = st.value
                            # `fire = fireEvent`: an alias of a method defined above
                            if isinstance(st.value, ast.Name) and st.value.id in c.methods:
                                c.methods.setdefault(t.id, c.methods[st.value.id])
                elif isinstance(st, ast.AnnAssign) and isinstance(st.target, ast.Name) and st.value is not None:
                    c.class_attrs[st.target.id] = st.value
        elif isinstance(node, ast.Assign) and len(node.targets) == 1 and isinstance(node.targets[0], ast.Name):
            # Component = HandlerMetaClass('Component', (BaseComponent,), {})
            v = node.value
            if (
                isinstance(v, ast.Call)
                and len(v.args) == 3
                and isinstance(v.args[0], ast.Constant)
                and isinstance(v.args[1], ast.Tuple)
                and isinstance(v.args[2], ast.Dict)
            ):
                c = ClassInfo(self, node=None, name=node.targets[0].id, base_exprs=list(v.args[1].elts))
                c.synthetic = True
                self.classes[c.name] = c
        elif isinstance(node, (ast.Try, ast.If)):
            for st in ast.iter_child_nodes(node):
                if isinstance(st, ast.stmt):
                    self._index_stmt(st)

    def _mkfunc(self, node, cls, parent):
        f = FuncInfo(self, node, cls, parent)
        self.all_functions.append(f)
        for n in walk_no_defs(node):
            if n is not node:
                continue
        self._nested(f, node)
        return f

    def _nested(self, f, node):
        for child in ast.iter_child_nodes(node):
            if isinstance(child, (ast.FunctionDef, ast.AsyncFunctionDef)):
                g = FuncInfo(self, child, f.cls, f)
                self.all_functions.append(g)
                f.nested[g.name] = g
                self._nested(g, child)
            elif isinstance(child, (ast.ClassDef, ast.Lambda)):
                continue
            else:
                self._nested(f, child)


class Repo:
    def __init__(self, root, package='circuits'):
        self.root = os.path.abspath(root)
        self.package = package
        self.modules = {}
        self.by_relpath = {}
        pkgdir = os.path.join(self.root, package)
        if not os.path.isdir(pkgdir):
            raise AnalysisError(f'package directory {pkgdir} not found')
        for dirpath, dirnames, filenames in os.walk(pkgdir):
            dirnames[:] = sorted(d for d in dirnames if d != '__pycache__')
            for fn in sorted(filenames):
                if not fn.endswith('.py'):
                    continue
                path = os.path.join(dirpath, fn)
                rel = os.path.relpath(path, self.root)
                modname = rel[:-3].replace(os.sep, '.')
                if modname.endswith('.__init__'):
                    modname = modname[: -len('.__init__')]
                m = Module(self, path, rel, modname)
                self.modules[modname] = m
                self.by_relpath[rel] = m
        self._resolve_bases()
        self.inlined = []
        from . import inline as _inline
        _inline.apply(self)
        _inline.normalise_aliases(self)   # restricted to final attributes
        # (general alias normalisation, sa/normalize.py, is deliberately NOT applied globally: `x = self.attr` may be a snapshot of shared state —
        #  C03.a, C08.g depend on the difference; rules resolve aliases where they match access paths: pat.expand_alias)

    # -- lookup -----------------------------------------------------------
    def module(self, relpath):
        m = self.by_relpath.get(relpath)
        if m is None:
            raise AnalysisError(f'module {relpath} not found')
        return m

    def cls(self, relpath, name):
        m = self.module(relpath)
        c = m.classes.get(name)
        if c is None:
            raise AnalysisError(f'class {name} not found in {relpath}')
        return c

    def func(self, relpath, qualname):
        """FuncInfo for 'Class.method', 'function' or 'Class.method.nested'."""
        m = self.module(relpath)
        parts = qualname.split('.')
        f = None
        if parts[0] in m.classes:
            c = m.classes[parts[0]]
            if len(parts) < 2 or parts[1] not in c.methods:
                raise AnalysisError(f'function {qualname} not found in {relpath}')
            f = c.methods[parts[1]]
            rest = parts[2:]
        elif parts[0] in m.functions:
            f = m.functions[parts[0]]
            rest = parts[1:]
        else:
            raise AnalysisError(f'function {qualname} not found in {relpath}')
        for p in rest:
            if p not in f.nested:
                raise AnalysisError(f'nested function {qualname} not found in {relpath}')
            f = f.nested[p]
        return f

    def try_func(self, relpath, qualname):
        try:
            return self.func(relpath, qualname)
        except AnalysisError:
            return None

    def all_classes(self):
        for m in self.modules.values():
            yield from m.classes.values()

    def all_functions(self, include_absorbed=False):
        """Every function of the package. Helpers that did not exist on the reference tree and whose every call was inlined into
        the callers (sa/inline.py) are skipped unless asked for: the callers show their code."""
        for m in self.modules.values():
            for f in m.all_functions:
                if include_absorbed or not getattr(f, 'absorbed', False):
                    yield f

    def subclasses(self, cls):
        return [c for c in self.all_classes() if c is not cls and cls in c.mro()]

    def resolve_name(self, module, name, _depth=0):
        """Resolve a (possibly imported) simple name to a ClassInfo / FuncInfo, else None."""
        if _depth > 6:
            return None
        if name in module.classes:
            return module.classes[name]
        if name in module.functions:
            return module.functions[name]
        if name in module.imports:
            mod, obj = module.imports[name]
            if obj is None:
                return None
            target = self.modules.get(mod)
            if target is None:
                # "from circuits.core import Event" style via a package __init__
                return None
            if obj in target.classes or obj in target.functions or obj in target.imports:
                return self.resolve_name(target, obj, _depth + 1)
            sub = self.modules.get(f'{mod}.{obj}')
            if sub is not None:
                return sub
        return None

    def _resolve_bases(self):
        for c in list(self.all_classes()):
            for b in c.base_exprs:
                target = None
                if isinstance(b, ast.Name):
                    target = self.resolve_name(c.module, b.id)
                elif isinstance(b, ast.Attribute):
                    # module.Class
                    head = dotted(b.value)
                    if head and head in c.module.imports:
                        mod, obj = c.module.imports[head]
                        m = self.modules.get(mod if obj is None else f'{mod}.{obj}')
                        if m is not None:
                            target = m.classes.get(b.attr)
                if isinstance(target, ClassInfo):
                    c.bases.append(target)
                else:
                    c.unresolved_bases.append(src(b))

    # -- handlers -----------------------------------------------------------
    def handlers_of(self, event_name, classes=None):
        """FuncInfos declared with @handler(event_name, ...) (optionally restricted to classes)."""
        out = []
        for f in self.all_functions():
            if f.handler and event_name in f.handler.names:
                if classes is None or f.cls in classes:
                    out.append(f)
        return out


def func_of_node(module, node):
    """Innermost FuncInfo whose body contains *node*."""
    fn = enclosing(node, (ast.FunctionDef, ast.AsyncFunctionDef))
    if fn is None:
        return None
    for f in module.all_functions:
        if f.node is fn:
            return f
    return None
