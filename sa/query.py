"""Path queries over CFGs: reachability with avoided nodes/edges, must-pass-through,
edge domination, reaching definitions, path reconstruction."""

import ast
from collections import deque

from .model import src, walk_no_defs


def default_edge_ok(e, exc_classes=(), weak=False):
    """Normal edges always; exceptional edges only when strong (or *weak* requested)
    and, if *exc_classes* is given, only for those classes ('*' = every strong one)."""
    if e.kind != 'x':
        return True
    if e.weak and not weak:
        return False
    if exc_classes == '*' or exc_classes is None:
        return True
    return e.exc in exc_classes


def search(starts, *, stop=None, avoid_node=None, avoid_edge=None, exc='*', weak=False, edge_ok=None):
    """BFS from *starts* (nodes).  Returns (visited set, parent map).

    avoid_node(n): do not enter n (start nodes are always entered).
    avoid_edge(e): do not follow e.
    stop(n): n is recorded as visited but not expanded.
    """
    starts = list(starts)
    cfg = next((getattr(s, 'cfg', None) for s in starts if getattr(s, 'cfg', None) is not None), None)
    if cfg is not None and cfg.flags:
        return _search_flags(cfg, starts, stop=stop, avoid_node=avoid_node, avoid_edge=avoid_edge, exc=exc, weak=weak, edge_ok=edge_ok)
    seen = set()
    parent = {}
    q = deque()
    for s in starts:
        if s not in seen:
            seen.add(s)
            q.append(s)
    while q:
        n = q.popleft()
        if stop is not None and stop(n) and n not in starts:
            continue
        for e in n.succ:
            if edge_ok is not None:
                if not edge_ok(e):
                    continue
            elif not default_edge_ok(e, exc, weak):
                continue
            if avoid_edge is not None and avoid_edge(e):
                continue
            d = e.dst
            if d in seen:
                continue
            if avoid_node is not None and avoid_node(d):
                continue
            seen.add(d)
            parent[d] = e
            q.append(d)
    return seen, parent


def _plain_reach(cfg, avoid_edge):
    seen = {cfg.entry}
    q = deque([cfg.entry])
    while q:
        n = q.popleft()
        for e in n.succ:
            if avoid_edge(e) or e.dst in seen:
                continue
            seen.add(e.dst)
            q.append(e.dst)
    return seen


def _decided_at(cfg, node):
    """What is known about the flags of *cfg* when control is at *node*: a flag is True (False) there when every way from the entry to the node leaves one of the
    flag's tests by its true (false) edge."""
    cache = getattr(cfg, '_decided_cache', None)
    if cache is None:
        cache = cfg._decided_cache = {}
        for nm, ts in cfg.flags.items():
            if nm in cfg.flag_in_loop:
                continue            # (a node may be reached from an earlier iteration: nothing is inferred, the walk itself keeps the tests consistent)
            tset = set(ts)
            cache[nm] = (_plain_reach(cfg, lambda e: e.src in tset and e.kind == 'T'), _plain_reach(cfg, lambda e: e.src in tset and e.kind == 'F'))
    out = set()
    for nm, (without_T, without_F) in cache.items():
        if node not in without_T and node in without_F:
            out.add((nm, True))
        elif node not in without_F and node in without_T:
            out.add((nm, False))
    return frozenset(out)


def _search_flags(cfg, starts, *, stop, avoid_node, avoid_edge, exc, weak, edge_ok):
    """search() over (node, decided flags) states: a test of a flag whose value is already decided on this way is left only by the matching edge.  Returns the
    node-level view (visited nodes; for each node the edge by which it was first reached)."""
    seen_states = set()
    seen = set()
    parent = {}
    q = deque()
    binders = {cfg.flag_bind[nm]: nm for nm in cfg.flag_in_loop if nm in cfg.flags and nm in cfg.flag_bind}
    for s in starts:
        st = (s, _decided_at(cfg, s))
        if st not in seen_states:
            seen_states.add(st)
            seen.add(s)
            q.append(st)
    while q:
        n, dec = q.popleft()
        if stop is not None and stop(n) and n not in starts:
            continue
        for e in n.succ:
            if edge_ok is not None:
                if not edge_ok(e):
                    continue
            elif not default_edge_ok(e, exc, weak):
                continue
            if avoid_edge is not None and avoid_edge(e):
                continue
            dec2 = dec
            if n.flag is not None and e.kind in ('T', 'F'):
                val = e.kind == 'T'
                if (n.flag, not val) in dec:
                    continue
                dec2 = dec | {(n.flag, val)}
            d = e.dst
            if avoid_node is not None and avoid_node(d):
                continue
            if binders and d in binders:
                # the flag is bound anew (a loop iteration): what was decided about it is void
                dec2 = frozenset(x for x in dec2 if x[0] != binders[d])
            st = (d, dec2)
            if st in seen_states:
                continue
            seen_states.add(st)
            if d not in seen:
                seen.add(d)
                parent[d] = e
            q.append(st)
    return seen, parent


def path_to(parent, node):
    """Edge list from a start to *node* using the BFS parent map."""
    out = []
    while node in parent:
        e = parent[node]
        out.append(e)
        node = e.src
    out.reverse()
    return out


def describe_path(edges, start=None):
    """Readable line list for a path."""
    out = []
    if start is not None:
        out.append(f'L{start.lineno}: {start.text}')
    for e in edges:
        tag = ''
        if e.kind in ('T', 'F'):
            tag = f' [{e.kind}]'
        elif e.kind == 'x':
            tag = f' [raises {e.exc}{" (weak)" if e.weak else ""}]'
        if tag and out:
            out[-1] += tag
        d = e.dst
        if d.kind in ('exit', 'raise'):
            out.append('<return>' if d.kind == 'exit' else '<exception leaves the function>')
        elif d.kind != 'join':
            out.append(f'L{d.lineno}: {d.text}')
    return out


def escapes(cfg, starts, is_target, *, exits=('exit',), exc='*', weak=False, avoid_edge=None, extra_exit=None, edge_ok=None):
    """Must-pass-through: is there a path from *starts* to an exit that avoids every target node?

    Returns None when every path passes a target, else the counterexample as an edge list.
    *starts* themselves are not tested against is_target.
    exits: subset of ('exit', 'raise'); extra_exit(n) marks further nodes as exits
    (e.g. the head of the enclosing loop).
    """
    starts = list(starts)
    seen, parent = search(starts, avoid_node=is_target, avoid_edge=avoid_edge, exc=exc, weak=weak,
                          stop=extra_exit, edge_ok=edge_ok)
    ends = []
    if 'exit' in exits and cfg.exit in seen:
        ends.append(cfg.exit)
    if 'raise' in exits and cfg.raise_exit in seen:
        ends.append(cfg.raise_exit)
    if extra_exit is not None:
        ends.extend(n for n in seen if n not in starts and extra_exit(n))
    if not ends:
        return None
    ends.sort(key=lambda n: len(path_to(parent, n)))
    return path_to(parent, ends[0])


def reachable_without(cfg, target, *, avoid_edge=None, avoid_node=None, start=None, exc='*', weak=False):
    """Edge list of a path from entry (or *start*) to *target* avoiding the given edges/nodes, or None."""
    starts = [start or cfg.entry]
    seen, parent = search(starts, avoid_edge=avoid_edge, avoid_node=avoid_node, exc=exc, weak=weak)
    if target in seen:
        return path_to(parent, target)
    if not weak and exc:
        # A target that lies in an `except` block entered only by implicit exceptions (a KeyError of a lookup, whatever an unknown call raises) is not
        # reachable over strong edges at all: "no path avoiding the guard" would then hold vacuously.  Such a target is judged over weak edges.
        seen0, _ = search(starts, exc=exc, weak=False)
        if target not in seen0:
            seen1, parent1 = search(starts, avoid_edge=avoid_edge, avoid_node=avoid_node, exc=exc, weak=True)
            if target in seen1:
                return path_to(parent1, target)
    return None


def reaches(a, b, **kw):
    seen, _ = search([a], **kw)
    return b in seen


# ---------------------------------------------------------------------------
# definitions / uses


def target_names(t):
    """Keys written by an assignment target: 'x', 'self.attr', ... (tuples expanded)."""
    if isinstance(t, (ast.Tuple, ast.List)):
        out = []
        for e in t.elts:
            out.extend(target_names(e))
        return out
    if isinstance(t, ast.Starred):
        return target_names(t.value)
    if isinstance(t, (ast.Name, ast.Attribute)):
        return [src(t)]
    if isinstance(t, ast.Subscript):
        return [src(t)]
    return []


def node_defs(n):
    """Keys (re)defined by CFG node *n*."""
    a = n.ast
    if a is None:
        return []
    if n.kind == 'stmt':
        if isinstance(a, ast.Assign):
            out = []
            for t in a.targets:
                out.extend(target_names(t))
            return out
        if isinstance(a, (ast.AugAssign, ast.AnnAssign)):
            return target_names(a.target)
        if isinstance(a, (ast.FunctionDef, ast.AsyncFunctionDef, ast.ClassDef)):
            return [a.name]
        if isinstance(a, (ast.Import, ast.ImportFrom)):
            return [(x.asname or x.name).split('.')[0] for x in a.names]
        out = []
        for w in walk_no_defs(a):
            if isinstance(w, ast.NamedExpr):
                out.extend(target_names(w.target))
        return out
    if n.kind == 'for':
        return target_names(a.target)
    if n.kind == 'with':
        return target_names(a.optional_vars) if a.optional_vars is not None else []
    if n.kind == 'except':
        return [a.name] if a.name else []
    return []


def reaching_defs(cfg, at, key, *, exc='*', weak=True):
    """Nodes defining *key* whose definition may reach node *at* (entry node stands for a parameter
    or an undefined/free name)."""
    defs = [n for n in cfg.nodes if key in node_defs(n)]
    out = []
    defset = set(defs)
    for d in defs + [cfg.entry]:
        # forward search from d not passing through other defs
        seen, _ = search([d], avoid_node=lambda n, d=d: n in defset and n is not d and n is not at, exc=exc, weak=weak)
        if at in seen and (at is not d or _self_loop(d, defset, exc, weak)):
            out.append(d)
    return out


def _self_loop(d, defset, exc, weak):
    for e in d.succ:
        seen, _ = search([e.dst], avoid_node=lambda n: n in defset and n is not d, exc=exc, weak=weak)
        if d in seen:
            return True
    return False


def names_used(node):
    """Set of dotted names / bare names loaded in an AST node."""
    out = set()
    for w in walk_no_defs(node) if not isinstance(node, (ast.Lambda,)) else ast.walk(node):
        if isinstance(w, ast.Name):
            out.add(w.id)
        elif isinstance(w, ast.Attribute):
            s = src(w)
            out.add(s)
    return out


def uses(node, key):
    """Does AST *node* mention *key* ('x' or 'self.attr')?"""
    for w in ast.walk(node):
        if isinstance(w, (ast.Name, ast.Attribute)) and src(w) == key:
            return True
    return False
