"""Helper inlining: a rule anchored in a function of today's tree keeps seeing the code that a refactoring moved into a new helper.

The functions that exist on the tree the rules were written for are the anchors (`known_functions.json`, regenerated with
`tools_known.py` whenever /repo itself changes).  A call `self.h(...)` (method of the same class / a base class in the
package) or `h(...)` (function of the same module) whose callee is *not* in that table is a helper introduced later; its body
is substituted for the call in a copy of the caller's AST, so that AST walks and the CFG of the caller both see it:

    self.h(a)            ->  <bindings>; <body, `return X` ends the inlined part>
    v = self.h(a)        ->  <bindings>; <body, `return X` becomes `v = X`>
    return self.h(a)     ->  <bindings>; <body, returns stay returns>; return None

`return` inside an `if` of the helper is handled by moving the statements that follow the `if` into the branches (early
returns / guard clauses are the common case); a `return` inside a loop, try or with statement of the helper, generators,
*args/**kwargs and recursion are not inlined (the call stays a call).  Helper locals that clash with names of the caller are
renamed.  Bounded: two levels.
"""

import ast
import copy
import json
import os

from .model import FuncInfo, clone, set_parents, src, walk_no_defs

HERE = os.path.dirname(os.path.abspath(__file__))
MAX_DEPTH = 3
MAX_STMTS = 80


class _NoInline(Exception):
    pass


def load_known():
    p = os.path.join(HERE, 'known_functions.json')
    if not os.path.exists(p):
        return None
    return set(json.load(open(p))['functions'])


def _has_return(node):
    return any(isinstance(n, ast.Return) for n in walk_no_defs(node)) if not isinstance(node, ast.Return) else True


def _strip_doc(body):
    if body and isinstance(body[0], ast.Expr) and isinstance(body[0].value, ast.Constant) and isinstance(body[0].value.value, str):
        return body[1:]
    return body


def _tx(stmts, mode, target, at):
    """Rewrite the returns of a helper body. mode: 'expr' | 'assign'. Raises _NoInline for unsupported shapes."""
    out = []
    for i, s in enumerate(stmts):
        if isinstance(s, ast.Return):
            if mode == 'assign':
                v = s.value if s.value is not None else ast.Constant(value=None)
                a = ast.Assign(targets=[clone(target)], value=v)
                out.append(ast.copy_location(a, s))
            elif s.value is not None and any(isinstance(w, (ast.Call, ast.Yield, ast.YieldFrom, ast.Await)) for w in ast.walk(s.value)):
                out.append(ast.copy_location(ast.Expr(value=s.value), s))
            return out, True
        if _has_return(s):
            if isinstance(s, ast.If):
                tail = stmts[i + 1:]
                b, _ = _tx(list(s.body) + clone(tail), mode, target, at)
                o, _ = _tx(list(s.orelse) + clone(tail), mode, target, at)
                n = ast.If(test=s.test, body=b or [ast.copy_location(ast.Pass(), s)], orelse=o)
                out.append(ast.copy_location(n, s))
                return out, False
            raise _NoInline('return inside a loop, try or with statement')
        out.append(s)
    return out, False


def _ret_to_break(stmts, mode, target):
    """General shape: the body runs inside a synthetic once-only loop and `return X` becomes `T = X; break`.
    A return inside a loop of the helper itself would need a two-level break: not inlined."""
    out = []
    for s in stmts:
        if isinstance(s, ast.Return):
            if mode == 'assign':
                v = s.value if s.value is not None else ast.Constant(value=None)
                out.append(ast.copy_location(ast.Assign(targets=[clone(target)], value=v), s))
            elif s.value is not None and any(isinstance(w, (ast.Call, ast.Yield, ast.YieldFrom, ast.Await)) for w in ast.walk(s.value)):
                out.append(ast.copy_location(ast.Expr(value=s.value), s))
            out.append(ast.copy_location(ast.Break(), s))
            continue
        if isinstance(s, (ast.For, ast.While, ast.AsyncFor)):
            if _has_return(s):
                raise _NoInline('return inside a loop of the helper')
            out.append(s)
            continue
        if isinstance(s, (ast.FunctionDef, ast.AsyncFunctionDef, ast.ClassDef)):
            out.append(s)
            continue
        for field in ('body', 'orelse', 'finalbody'):
            v = getattr(s, field, None)
            if isinstance(v, list) and v and isinstance(v[0], ast.stmt):
                setattr(s, field, _ret_to_break(v, mode, target))
        if isinstance(s, ast.Try):
            for h in s.handlers:
                h.body = _ret_to_break(h.body, mode, target)
        out.append(s)
    return out


def _once(stmts, at):
    w = ast.While(test=ast.Constant(value=True), body=stmts + [ast.copy_location(ast.Break(), at)], orelse=[])
    w._synthetic_once = True
    return ast.copy_location(w, at)


def _ends_in_return(stmts):
    """Every path through *stmts* ends with a return (conservative)."""
    if not stmts:
        return False
    s = stmts[-1]
    if isinstance(s, (ast.Return, ast.Raise)):
        return True
    if isinstance(s, ast.If):
        return _ends_in_return(s.body) and _ends_in_return(s.orelse)
    if isinstance(s, ast.Try) and not s.finalbody:
        return (_ends_in_return(s.body) or _ends_in_return(s.orelse)) and all(_ends_in_return(h.body) for h in s.handlers)
    return False


class _Renamer(ast.NodeTransformer):
    def __init__(self, mapping):
        self.m = mapping

    def visit_Name(self, n):
        if n.id in self.m:
            return ast.copy_location(ast.Name(id=self.m[n.id], ctx=n.ctx), n)
        return n

    def visit_FunctionDef(self, n):      # nested defs of the helper: leave their own scope alone, rename free uses only
        self.generic_visit(n)
        return n


def _locals_of(fnode):
    names = set()
    a = fnode.args
    for x in a.posonlyargs + a.args + a.kwonlyargs:
        names.add(x.arg)
    for n in walk_no_defs(fnode):
        if isinstance(n, ast.Name) and isinstance(n.ctx, (ast.Store, ast.Del)):
            names.add(n.id)
        elif isinstance(n, ast.ExceptHandler) and n.name:
            names.add(n.name)
    return names


def _bind(callee, call, is_method):
    """[(param, arg expr)] for the call, or _NoInline."""
    a = callee.node.args
    if a.vararg or a.kwarg or a.kwonlyargs and any(d is None for d in a.kw_defaults):
        raise _NoInline('*args/**kwargs')
    params = [x.arg for x in a.posonlyargs + a.args]
    if is_method:
        params = params[1:]
    if any(isinstance(x, ast.Starred) for x in call.args) or any(k.arg is None for k in call.keywords):
        raise _NoInline('star arguments')
    if len(call.args) > len(params):
        raise _NoInline('too many arguments')
    bound = dict(zip(params, call.args))
    for k in call.keywords:
        if k.arg in bound or k.arg not in params + [x.arg for x in a.kwonlyargs]:
            raise _NoInline('keyword mismatch')
        bound[k.arg] = k.value
    defaults = dict(zip(params[len(params) - len(a.defaults):], a.defaults)) if a.defaults else {}
    for x, d in zip(a.kwonlyargs, a.kw_defaults):
        if d is not None:
            defaults[x.arg] = d
    out = []
    for p in params + [x.arg for x in a.kwonlyargs]:
        if p in bound:
            out.append((p, bound[p]))
        elif p in defaults:
            out.append((p, clone(defaults[p])))
        else:
            raise _NoInline(f'missing argument {p}')
    return out


def _resolve(repo, caller, call, known):
    """FuncInfo of a helper this call may be replaced by, else None."""
    f = call.func
    callee = None
    is_method = False
    if isinstance(f, ast.Attribute) and isinstance(f.value, ast.Name) and f.value.id == 'self' and caller.cls is not None:
        callee = caller.cls.lookup(f.attr)
        is_method = True
        if callee is not None and callee.node.args.args and callee.node.args.args[0].arg != 'self' and not any(
                isinstance(d, ast.Name) and d.id == 'staticmethod' for d in callee.node.decorator_list):
            return None, False
    elif isinstance(f, ast.Name):
        callee = caller.module.functions.get(f.id)
    if callee is None or callee is caller or callee.parent is not None:
        return None, False
    if callee.ref in known:
        return None, False
    static = [d for d in callee.node.decorator_list if isinstance(d, ast.Name) and d.id == 'staticmethod']
    if callee.handler is not None or callee.is_property or callee.is_generator or (callee.node.decorator_list and len(static) != len(callee.node.decorator_list)):
        return None, False
    if static:
        is_method = False       # `self.h(x)` with a @staticmethod: no instance is bound
    if isinstance(callee.node, ast.AsyncFunctionDef):
        return None, False
    if sum(1 for _ in ast.walk(callee.node) if isinstance(_, ast.stmt)) > MAX_STMTS:
        return None, False
    return callee, is_method


def _expand(repo, caller, stmt, known, caller_names, stack, stats):
    """Replacement statement list for *stmt* if it is an inlinable call form, else None."""
    if isinstance(stmt, ast.Expr) and isinstance(stmt.value, ast.Call):
        call, mode, target = stmt.value, 'expr', None
    elif isinstance(stmt, ast.Assign) and len(stmt.targets) == 1 and isinstance(stmt.value, ast.Call):
        call, mode, target = stmt.value, 'assign', stmt.targets[0]
    elif isinstance(stmt, ast.Return) and isinstance(stmt.value, ast.Call):
        call, mode, target = stmt.value, 'return', None
    else:
        return None
    callee, is_method = _resolve(repo, caller, call, known)
    if callee is None or callee.ref in stack or len(stack) >= MAX_DEPTH:
        return None
    try:
        binds = _bind(callee, call, is_method)
        body = clone(_strip_doc(list(callee.orig_node.body if hasattr(callee, 'orig_node') else callee.node.body)))
        # rename helper locals that clash with caller names (unless the parameter is bound to the caller's variable of the same name)
        loc_ = _locals_of(callee.node)
        same = {p for p, a in binds if isinstance(a, ast.Name) and a.id == p}
        mapping = {n: f'{n}__{callee.name.strip("_")}' for n in loc_ if n in caller_names and n not in same and n != 'self'}
        if mapping:
            rn = _Renamer(mapping)
            body = [rn.visit(b) for b in body]
        pre = []
        from .normalize import _Subst, _path, _stores
        rebinds = _stores(callee.node)
        subst = {}
        for p, a in binds:
            if p in same:
                continue
            if _path(a) and rebinds.get(p, 0) <= 2 and not isinstance(a, ast.Constant):
                # the parameter is never re-bound in the helper and the argument is an access path: the helper's code is shown in
                # terms of the caller's expression (`fds.append(fd)` with fds=self._read reads `self._read.append(fd)`)
                subst[mapping.get(p, p)] = a
                continue
            asg = ast.Assign(targets=[ast.Name(id=mapping.get(p, p), ctx=ast.Store())], value=a)
            pre.append(ast.copy_location(asg, stmt))
        if subst:
            tr = _Subst(subst, set())
            body = [tr.visit(b) for b in body]
        if mode == 'return':
            new = body
            if not _ends_in_return(new):
                new = new + [ast.copy_location(ast.Return(value=ast.Constant(value=None)), stmt)]
        else:
            try:
                new, done = _tx(clone(body), mode, target, stmt)
            except _NoInline:
                new = [_once(_ret_to_break(body, mode, target), stmt)]
            if mode == 'assign' and not _ends_in_return(body):
                # falling off the end returns None: only reached on paths without a return; put it first and let the returns overwrite it
                pre.append(ast.copy_location(ast.Assign(targets=[clone(target)], value=ast.Constant(value=None)), stmt))
        out = pre + (new or [ast.copy_location(ast.Pass(), stmt)])
        for n in out:
            ast.fix_missing_locations(n)
        stats.append((caller.ref, callee.ref))
        # nested helpers
        out = _walk_list(repo, caller, out, known, caller_names | set(mapping.values()) | loc_, stack + [callee.ref], stats)
        return out
    except _NoInline:
        return None


def _pred_expr(stmts):
    """The value of a helper that consists of `if c: return a` steps and a final `return b`, as one expression; None if it has another shape."""
    stmts = _strip_doc(list(stmts))
    if not stmts:
        return None
    s = stmts[0]
    if isinstance(s, ast.Return) and s.value is not None and len(stmts) == 1:
        return s.value
    if isinstance(s, ast.Assign) and len(s.targets) == 1 and isinstance(s.targets[0], ast.Name) and len(stmts) > 1:
        # a local that names a part of the argument (`code = exc.args[0]`), bound once: stands for that expression in the rest
        from .normalize import _Subst, _path
        name = s.targets[0].id
        stored = sum(1 for st in stmts for w in ast.walk(st) if isinstance(w, ast.Name) and w.id == name and isinstance(w.ctx, (ast.Store, ast.Del)))
        if stored != 1 or not _path(s.value):
            return None
        rest = _pred_expr(stmts[1:])
        if rest is None:
            return None
        return _Subst({name: s.value}, set()).visit(clone([ast.Expr(value=rest)])[0]).value
    if isinstance(s, ast.If) and len(s.body) == 1 and isinstance(s.body[0], ast.Return) and s.body[0].value is not None:
        rest = _pred_expr(s.orelse if s.orelse else stmts[1:])
        if rest is None or (s.orelse and len(stmts) > 1):
            return None
        a = s.body[0].value
        if isinstance(a, ast.Constant) and a.value is True:
            return ast.BoolOp(op=ast.Or(), values=[s.test, rest])
        if isinstance(a, ast.Constant) and a.value is False:
            return ast.BoolOp(op=ast.And(), values=[ast.UnaryOp(op=ast.Not(), operand=s.test), rest])
        return ast.IfExp(test=s.test, body=a, orelse=rest)
    return None


class _PredInliner(ast.NodeTransformer):
    """Replaces calls of unknown helpers whose value is a single expression (see _pred_expr) inside a condition."""

    def __init__(self, repo, caller, known, stats, depth=0):
        self.repo, self.caller, self.known, self.stats, self.depth = repo, caller, known, stats, depth

    def visit_Call(self, c):
        self.generic_visit(c)
        callee, is_method = _resolve(self.repo, self.caller, c, self.known)
        if callee is None or self.depth >= MAX_DEPTH:
            return c
        try:
            binds = _bind(callee, c, is_method)
        except _NoInline:
            return c
        e = _pred_expr(clone(list(callee.node.body)))
        if e is None:
            return c
        from .normalize import _Subst
        # every parameter is replaced by its argument expression (a condition has no place for bindings): only if it is not re-bound in the helper
        if any(isinstance(w, ast.Name) and isinstance(w.ctx, ast.Store) for w in ast.walk(e)):
            return c
        e = _Subst({p: a for p, a in binds}, set()).visit(ast.Expression(body=e)).body
        self.stats.append((self.caller.ref, callee.ref))
        return ast.copy_location(e, c)

    def visit_FunctionDef(self, n):
        return n
    visit_AsyncFunctionDef = visit_Lambda = visit_ClassDef = visit_FunctionDef


_HOIST_OK = (ast.Call, ast.Attribute, ast.Subscript, ast.Tuple, ast.List, ast.BinOp, ast.Compare, ast.keyword, ast.UnaryOp, ast.FormattedValue, ast.JoinedStr,
             ast.Starred)


def _postorder(e, parent_chain, out):
    for ch in ast.iter_child_nodes(e):
        if isinstance(ch, (ast.Lambda, ast.ListComp, ast.SetComp, ast.DictComp, ast.GeneratorExp)):
            continue
        _postorder(ch, parent_chain + [e], out)
    if isinstance(e, ast.Call):
        out.append((e, parent_chain))


def _hoist(repo, caller, s, known, caller_names):
    """`self.fire(stream(res, self._next_data(res)))` -> `hv = self._next_data(res); self.fire(stream(res, hv))` when the helper call is the first
    call to complete in the statement (nothing with an effect is evaluated before it) and it is evaluated unconditionally."""
    if isinstance(s, (ast.Expr, ast.Assign, ast.Return, ast.AugAssign)) and s.value is not None:
        root = s.value
    else:
        return None
    calls = []
    _postorder(root, [], calls)
    multi = isinstance(s, ast.Assign) and len(s.targets) > 1       # `a = b[k] = self.h(x)`: the call is bound to a temporary first
    for i, (c, chain) in enumerate(calls):
        if c is root and not multi:
            continue
        callee, _m = _resolve(repo, caller, c, known)
        if callee is None:
            continue
        inside = {id(w) for w in ast.walk(c)}
        if any(id(prev) not in inside for prev, _ch in calls[:i]):
            return None
        if not all(isinstance(a, _HOIST_OK) for a in chain):
            return None
        if _pred_expr(clone(list(callee.node.body))) is not None and not _has_stmt_effects(callee.node):
            pass
        name = f'hv__{callee.name.strip("_")}'
        k = 0
        while name in caller_names:
            k += 1
            name = f'hv__{callee.name.strip("_")}{k}'
        caller_names.add(name)
        asg = ast.copy_location(ast.Assign(targets=[ast.Name(id=name, ctx=ast.Store())], value=c), s)

        class R(ast.NodeTransformer):
            def visit_Call(self, n):
                if n is c:
                    return ast.copy_location(ast.Name(id=name, ctx=ast.Load()), n)
                self.generic_visit(n)
                return n
        s.value = R().visit(s.value)
        ast.fix_missing_locations(asg)
        ast.fix_missing_locations(s)
        return [asg, s]
    return None


def _lift_try_returns(body):
    """`try: …; return E  except X: …`  ->  `try: …; r = E  except X: …  else: return r` (the return itself raises nothing): the value leaves the
    guarded part, so that the caller's branches are not shown inside the helper's try."""
    out = []
    for s in body:
        if isinstance(s, ast.Try) and not s.orelse and not s.finalbody and s.body and isinstance(s.body[-1], ast.Return) and s.body[-1].value is not None \
                and not isinstance(s.body[-1].value, ast.Constant) and not any(_has_return(x) for x in s.body[:-1]):
            r = s.body[-1]
            s = clone([s])[0]
            name = '_r%d' % r.lineno
            s.body[-1] = ast.copy_location(ast.Assign(targets=[ast.Name(id=name, ctx=ast.Store())], value=clone([ast.Expr(value=r.value)])[0].value), r)
            s.orelse = [ast.copy_location(ast.Return(value=ast.Name(id=name, ctx=ast.Load())), r)]
            ast.fix_missing_locations(s)
        out.append(s)
    return out


def _has_stmt_effects(fnode):
    return False


def _bool_returns_only(body):
    """All returns of the helper are `return True` / `return False`, none inside the body of a try, a with or a loop (handlers and else/orelse parts are fine)."""
    def walk(stmts, guarded):
        for s in stmts:
            if isinstance(s, ast.Return):
                # (`return <test>` outside a try body: the caller branches on the test in its place)
                if guarded or s.value is None or (isinstance(s.value, ast.Constant) and not isinstance(s.value.value, bool)):
                    return False
            elif isinstance(s, (ast.For, ast.While, ast.AsyncFor, ast.With, ast.AsyncWith)):
                if _has_return(s):
                    return False
            elif isinstance(s, ast.Try):
                if not walk(s.body, True):
                    return False
                for h in s.handlers:
                    if not walk(h.body, guarded):
                        return False
                if not walk(s.orelse, guarded) or not walk(s.finalbody, True):
                    return False
            elif isinstance(s, ast.If):
                if not walk(s.body, guarded) or not walk(s.orelse, guarded):
                    return False
            elif isinstance(s, (ast.FunctionDef, ast.AsyncFunctionDef, ast.ClassDef)):
                continue
        return True
    return walk(body, False)


def _has_jump(stmts):
    """break / continue that would bind to an enclosing loop of the caller"""
    def walk(n):
        for ch in ast.iter_child_nodes(n):
            if isinstance(ch, (ast.Break, ast.Continue)):
                return True
            if isinstance(ch, (ast.For, ast.While, ast.AsyncFor, ast.FunctionDef, ast.AsyncFunctionDef, ast.ClassDef, ast.Lambda)):
                continue
            if walk(ch):
                return True
        return False
    return any(isinstance(s, (ast.Break, ast.Continue)) or (not isinstance(s, (ast.For, ast.While, ast.AsyncFor, ast.FunctionDef, ast.AsyncFunctionDef, ast.ClassDef)) and walk(s))
               for s in stmts)


def _thread_if(repo, caller, s, known, caller_names, stack, stats):
    """`if self.h(x): A else: B` where h only returns True / False after doing some work (a try/except probe): the body of h is shown in place of
    the test, `return True` continuing with A and `return False` with B."""
    if not isinstance(s, ast.If):
        return None
    test, neg = s.test, False
    if isinstance(test, ast.BoolOp) and isinstance(test.op, ast.And) and len(s.orelse) <= 3 and not getattr(s, '_split_and', False):
        # `if a and self.probe(x): A else: B`  ->  `if a: (if self.probe(x): A else: B) else: B`
        last = test.values[-1]
        inner_t = last.operand if isinstance(last, ast.UnaryOp) and isinstance(last.op, ast.Not) else last
        if isinstance(inner_t, ast.Call) and _resolve(repo, caller, inner_t, known)[0] is not None:
            head = test.values[0] if len(test.values) == 2 else ast.BoolOp(op=ast.And(), values=list(test.values[:-1]))
            inner = ast.copy_location(ast.If(test=last, body=s.body, orelse=clone(s.orelse)), s)
            inner._split_and = True
            r = _thread_if(repo, caller, inner, known, caller_names, stack, stats)
            if r is None:
                return None
            outer = ast.copy_location(ast.If(test=head, body=r, orelse=clone(s.orelse)), s)
            ast.fix_missing_locations(outer)
            return [outer]
    if isinstance(test, ast.UnaryOp) and isinstance(test.op, ast.Not):
        test, neg = test.operand, True
    if not isinstance(test, ast.Call):
        return None
    callee, is_method = _resolve(repo, caller, test, known)
    if callee is None or callee.ref in stack or len(stack) >= MAX_DEPTH:
        return None
    body0 = _strip_doc(list(callee.orig_node.body if hasattr(callee, 'orig_node') else callee.node.body))
    if _pred_expr(clone(body0)) is not None:
        return None
    body0 = _lift_try_returns(body0)
    if not _bool_returns_only(body0) or not _ends_in_return(body0):
        return None
    A, B = (s.orelse, s.body) if neg else (s.body, s.orelse)
    if _has_jump(A) or _has_jump(B):
        return None
    try:
        binds = _bind(callee, test, is_method)
    except _NoInline:
        return None
    from .normalize import _Subst, _path, _stores
    body = clone(body0)
    loc_ = _locals_of(callee.node)
    same = {p for p, a in binds if isinstance(a, ast.Name) and a.id == p}
    mapping = {n: f'{n}__{callee.name.strip("_")}' for n in loc_ if n in caller_names and n not in same and n != 'self'}
    if mapping:
        rn = _Renamer(mapping)
        body = [rn.visit(b) for b in body]
    rebinds = _stores(callee.node)
    pre, subst = [], {}
    for p, a in binds:
        if p in same:
            continue
        if _path(a) and rebinds.get(p, 0) <= 2 and not isinstance(a, ast.Constant):
            subst[mapping.get(p, p)] = a
            continue
        pre.append(ast.copy_location(ast.Assign(targets=[ast.Name(id=mapping.get(p, p), ctx=ast.Store())], value=a), s))
    if subst:
        tr = _Subst(subst, set())
        body = [tr.visit(b) for b in body]

    def repl(stmts):
        out = []
        for st in stmts:
            if isinstance(st, ast.Return):
                if isinstance(st.value, ast.Constant):
                    out.extend(clone(A if st.value.value else B))
                    out.append(ast.copy_location(ast.Break(), st))
                else:
                    brk = ast.copy_location(ast.Break(), st)
                    out.append(ast.copy_location(ast.If(test=st.value, body=clone(A) + [brk], orelse=clone(B) + [clone([brk])[0]]), st))
                continue
            for field in ('body', 'orelse', 'finalbody'):
                v = getattr(st, field, None)
                if isinstance(v, list) and v and isinstance(v[0], ast.stmt) and not isinstance(st, (ast.FunctionDef, ast.AsyncFunctionDef, ast.ClassDef, ast.For, ast.While)):
                    setattr(st, field, repl(v))
            if isinstance(st, ast.Try):
                for h in st.handlers:
                    h.body = repl(h.body)
            out.append(st)
        return out
    new = pre + [_once(repl(body), s)]
    for n in new:
        ast.fix_missing_locations(n)
    stats.append((caller.ref, callee.ref))
    return _walk_list(repo, caller, new, known, caller_names | set(mapping.values()) | loc_, stack + [callee.ref], stats)


def _walk_list(repo, caller, stmts, known, caller_names, stack, stats):
    out = []
    stmts = list(stmts)
    i = 0
    while i < len(stmts):
        if len(stack) <= MAX_DEPTH:
            h = _hoist(repo, caller, stmts[i], known, caller_names)
            if h is not None:
                stmts[i:i + 1] = h
                continue
        i += 1
    for s in stmts:
        if isinstance(s, (ast.If, ast.While)) and len(stack) <= MAX_DEPTH:
            s.test = _PredInliner(repo, caller, known, stats).visit(s.test)
        elif isinstance(s, (ast.Assign, ast.Expr, ast.Return, ast.AugAssign)) and len(stack) <= MAX_DEPTH:
            # the filters of comprehensions are conditions too: `{k: v for k, v in items if _accepts(k)}`
            for w in ast.walk(s):
                if isinstance(w, ast.comprehension) and w.ifs:
                    w.ifs = [_PredInliner(repo, caller, known, stats).visit(t) for t in w.ifs]
        rep = _expand(repo, caller, s, known, caller_names, stack, stats)
        if rep is None:
            rep = _thread_if(repo, caller, s, known, caller_names, stack, stats)
        if rep is not None:
            out.extend(rep)
            continue
        for field in ('body', 'orelse', 'finalbody'):
            v = getattr(s, field, None)
            if isinstance(v, list) and v and isinstance(v[0], ast.stmt) and not isinstance(s, (ast.FunctionDef, ast.AsyncFunctionDef, ast.ClassDef)):
                setattr(s, field, _walk_list(repo, caller, v, known, caller_names, stack, stats))
        if isinstance(s, ast.Try):
            for h in s.handlers:
                h.body = _walk_list(repo, caller, h.body, known, caller_names, stack, stats)
        out.append(s)
    return out


def apply(repo):
    """Inline helpers that are not in the known-functions table into their callers (in place, on copies of the callers' ASTs)."""
    known = load_known()
    repo.inlined = []
    if known is None:
        return
    unknown = [f for f in repo.all_functions(include_absorbed=True) if f.parent is None and f.ref not in known]
    if not unknown:
        return
    for m in repo.modules.values():
        for f in list(m.all_functions):
            if f.parent is not None:
                continue
            # cheap pre-test: does the function call anything unknown by name?
            names = {u.name for u in unknown}
            if not any(isinstance(c, ast.Call) and ((isinstance(c.func, ast.Attribute) and c.func.attr in names) or (isinstance(c.func, ast.Name) and c.func.id in names))
                       for c in ast.walk(f.node)):
                continue
            node = clone(f.node)
            stats = []
            caller_names = {n.id for n in ast.walk(node) if isinstance(n, ast.Name)} | {a.arg for a in ast.walk(node) if isinstance(a, ast.arg)}
            node.body = _walk_list(repo, f, node.body, known, caller_names, [f.ref], stats)
            if not stats:
                continue
            replace_node(m, f, node)
            repo.inlined.extend(stats)
    # a helper all of whose call sites were inlined is "absorbed": rules that sweep all functions skip it
    inlined_callees = {c for _f, c in repo.inlined}
    for u in unknown:
        if u.ref not in inlined_callees:
            continue
        remaining = 0
        for f in repo.all_functions(include_absorbed=True):
            if f is u:
                continue
            for c in ast.walk(f.node):
                if isinstance(c, ast.Call) and ((isinstance(c.func, ast.Attribute) and c.func.attr == u.name) or (isinstance(c.func, ast.Name) and c.func.id == u.name)):
                    remaining += 1
        u.absorbed = remaining == 0


def replace_node(m, f, node):
    """Make *node* (a rewritten copy) the AST of function *f*; nested functions are re-indexed on it."""
    ast.fix_missing_locations(node)
    set_parents(node)
    node._parent = getattr(f.node, '_parent', None)
    if not hasattr(f, 'orig_node'):
        f.orig_node = f.node
    f.node = node
    f._cfg = None
    for g in list(f.nested.values()):
        _drop(m, g)
    f.nested = {}
    m._nested(f, node)


def final_attributes(repo):
    """Attribute names that are assigned (anywhere in the package) only inside `__init__`/`init` methods: the object they name never changes."""
    inside, outside = set(), set()
    for m in repo.modules.values():
        for f in m.all_functions:
            is_init = f.name in ('__init__', 'init') and f.parent is None
            for w in ast.walk(f.node):
                if isinstance(w, ast.Attribute) and isinstance(w.ctx, (ast.Store, ast.Del)):
                    (inside if is_init else outside).add(w.attr)
                elif isinstance(w, ast.Call) and isinstance(w.func, ast.Name) and w.func.id in ('setattr', 'delattr') and len(w.args) >= 2:
                    if isinstance(w.args[1], ast.Constant):
                        outside.add(w.args[1].value)
        for w in ast.walk(m.tree):          # class-level / module-level stores
            if isinstance(w, ast.ClassDef):
                for st in w.body:
                    if isinstance(st, ast.Assign):
                        for t in st.targets:
                            if isinstance(t, ast.Name):
                                pass
    return inside - outside


def _stable_for(f):
    """Callback for normalize.predicates case (3): no name of the expression is re-bound on a path from the binding of v to a use of v."""
    def stable(assign, v, names):
        from . import query as Q
        try:
            g = f.cfg()
        except Exception:
            return False
        bind = [n for n in g.nodes if n.ast is assign]
        if len(bind) != 1:
            return False
        b = bind[0]
        uses = [n for n in g.nodes if n is not b and n.ast is not None and v in Q.names_used(n.ast if n.kind not in ('with', 'for') else
                                                                                        (n.ast.context_expr if n.kind == 'with' else n.ast.iter))]
        if not uses:
            return False
        for x in names:
            for d in g.nodes:
                if d is b or d.ast is None or x not in Q.node_defs(d):
                    continue
                for u in uses:
                    if Q.reachable_without(g, u, start=d, avoid_node=lambda n: n is b, weak=True) is not None or d is u:
                        return False
        # attributes of the instance the test reads (`sock in self._clients`): nothing between the binding and a use may touch them — no store to the attribute, no
        # method called on it, no call of a method of the instance (which might do either)
        attrs = {src(w) for w in ast.walk(assign.value) if isinstance(w, ast.Attribute) and isinstance(w.value, ast.Name) and w.value.id == 'self'}
        if attrs:
            def touches(n):
                if n.ast is None or n is b:
                    return False
                a_ = n.ast if n.kind not in ('with', 'for') else (n.ast.context_expr if n.kind == 'with' else n.ast.iter)
                for w in ast.walk(a_):
                    if isinstance(w, ast.Attribute) and src(w) in attrs and isinstance(w.ctx, (ast.Store, ast.Del)):
                        return True
                    if isinstance(w, (ast.Subscript,)) and src(w.value) in attrs and isinstance(w.ctx, (ast.Store, ast.Del)):
                        return True
                    if isinstance(w, ast.Call) and isinstance(w.func, ast.Attribute):
                        recv = src(w.func.value)
                        if recv in attrs and w.func.attr not in ('get', 'index', 'count', 'copy', 'keys', 'values', 'items'):
                            return True
                        if recv == 'self':
                            return True
                return False
            movers = [n for n in g.nodes if touches(n)]
            for mv in movers:
                for u in uses:
                    if mv is u:
                        continue
                    # a mover between the binding and the use
                    if Q.reaches(b, mv, weak=True) and Q.reachable_without(g, u, start=mv, avoid_node=lambda n: n is b, weak=True) is not None:
                        return False
        return True
    return stable


def normalise_aliases(repo):
    """`fifo = self._queue … fifo.popleft()` is shown as `self._queue.popleft()` when `_queue` is a final attribute (see final_attributes)."""
    from . import normalize
    n = 0
    fin = final_attributes(repo)
    repo.final_attrs = fin
    for m in repo.modules.values():
        for f in list(m.all_functions):
            if f.parent is not None:
                continue
            new = normalize.apply(f.node, fin)
            if new is not None:
                f = replace_node(m, f, new) or f
                n += 1
            new = normalize.apply_predicates(f.node, _stable_for(f))
            if new is not None:
                replace_node(m, f, new)
                n += 1
            new = normalize.apply_drops(f.node)
            if new is not None:
                f = replace_node(m, f, new) or f
                n += 1
            new = normalize.apply_unroll(f.node)
            if new is not None:
                replace_node(m, f, new)
                n += 1
    repo.alias_normalised = n


def _drop(m, g):
    for h in list(g.nested.values()):
        _drop(m, h)
    if g in m.all_functions:
        m.all_functions.remove(g)
