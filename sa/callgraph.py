"""Name-based call graph over the package (conservative: a call `x.m()` may reach every package
function named m; `self.m()` is resolved through the MRO plus overrides in subclasses)."""

import ast

from .model import call_name, src, walk_no_defs


class CallGraph:
    def __init__(self, repo):
        self.repo = repo
        self.by_name = {}
        for f in repo.all_functions():
            self.by_name.setdefault(f.name, []).append(f)
        self.classes_by_name = {}
        for c in repo.all_classes():
            self.classes_by_name.setdefault(c.name, []).append(c)
        self._callees = {}

    def callees(self, func):
        """[(FuncInfo, call ast)] possibly called by *func* (nested function bodies are separate functions
        but are linked from the enclosing function, since defining a closure usually means it will run)."""
        if func.ref in self._callees:
            return self._callees[func.ref]
        out = []
        for n in walk_no_defs(func.node):
            if isinstance(n, ast.Call):
                out.extend((t, n) for t in self.resolve(func, n))
                # getattr(x, 'resume') — dynamic method lookup by constant name
                if call_name(n) == 'getattr' and len(n.args) >= 2 and isinstance(n.args[1], ast.Constant) \
                        and isinstance(n.args[1].value, str):
                    out.extend((t, n) for t in self.by_name.get(n.args[1].value, []) if t.cls is not None)
        for g in func.nested.values():
            out.append((g, g.node))
        self._callees[func.ref] = out
        return out

    def resolve(self, func, call):
        f = call.func
        if isinstance(f, ast.Name):
            name = f.id
            if name in func.nested:
                return [func.nested[name]]
            p = func.parent
            while p is not None:
                if name in p.nested:
                    return [p.nested[name]]
                p = p.parent
            r = self.repo.resolve_name(func.module, name)
            if r is not None:
                if hasattr(r, 'methods'):
                    init = r.lookup('__init__')
                    return [init] if init is not None else []
                if hasattr(r, 'node') and hasattr(r, 'params'):
                    return [r]
            if name in self.classes_by_name:
                out = []
                for c in self.classes_by_name[name]:
                    init = c.lookup('__init__')
                    if init is not None:
                        out.append(init)
                return out
            return []
        if isinstance(f, ast.Attribute):
            name = f.attr
            recv = src(f.value)
            if recv == 'self' and func.cls is not None:
                out = []
                m = func.cls.lookup(name)
                if m is not None:
                    out.append(m)
                for sub in self.repo.subclasses(func.cls):
                    if name in sub.methods and sub.methods[name] not in out:
                        out.append(sub.methods[name])
                if out:
                    return out
            if recv == 'super()' and func.cls is not None:
                for c in func.cls.mro()[1:]:
                    if name in c.methods:
                        return [c.methods[name]]
                return []
            return [t for t in self.by_name.get(name, []) if t.cls is not None]
        return []

    def reach(self, start, is_target, max_depth=12):
        """Shortest call chain [(func, call ast), ...] from *start* to a function with is_target(func), or None."""
        seen = {start.ref}
        frontier = [(start, [])]
        depth = 0
        while frontier and depth < max_depth:
            nxt = []
            for f, chain in frontier:
                for t, call in self.callees(f):
                    if t.ref in seen:
                        continue
                    seen.add(t.ref)
                    ch = chain + [(f, call, t)]
                    if is_target(t):
                        return ch
                    nxt.append((t, ch))
            frontier = nxt
            depth += 1
        return None
