"""Statement-level control-flow graphs with typed exception edges.

Nodes
  entry / exit (normal return) / raise (exception leaves the function)
  stmt   a simple statement (Assign, Expr, Return, Raise, Delete, nested def ...)
  test   one atom of a branch condition (and/or/not are split); edges 'T' / 'F'
  iter   evaluation of a for-loop iterable
  for    fetch of the next item + target binding; 'T' = item, 'F' = exhausted
  with   entering one with-item
  except entry of an except clause
  join   structural no-op (loop heads, after-with of suppress, finally entries)

Edges carry kind 'n' (normal), 'T', 'F' or 'x' (exceptional).  Exceptional
edges record the exception class name and whether they are *weak*: weak edges
come from "some call we know nothing about may raise anything" and are ignored
by queries unless a rule asks for them (they are the classic source of
infeasible paths); strong edges come from explicit ``raise`` statements and
from the raises oracle below.
"""

import ast
import builtins

from . import AnalysisError
from .model import call_name, src, walk_no_defs


class Node:
    __slots__ = ('ast', 'cfg', 'ctx', 'flag', 'id', 'kind', 'lineno', 'pred', 'succ')

    def __init__(self, id, kind, node, ctx):
        self.id = id
        self.flag = None        # name of the single-assignment boolean local this test node reads (see CFG.mark_flags)
        self.cfg = None
        self.kind = kind
        self.ast = node
        self.lineno = getattr(node, 'lineno', 0) if node is not None else 0
        self.ctx = ctx
        self.succ = []
        self.pred = []

    @property
    def text(self):
        if self.ast is None:
            return f'<{self.kind}>'
        if self.kind == 'for':
            return f'for {src(self.ast.target)} in ...'
        if self.kind == 'except':
            return 'except ' + (src(self.ast.type) if self.ast.type is not None else '') + (f' as {self.ast.name}' if self.ast.name else '')
        if self.kind == 'with':
            return 'with ' + src(self.ast.context_expr)
        if isinstance(self.ast, (ast.FunctionDef, ast.ClassDef)):
            return f'def {self.ast.name}'
        s = src(self.ast)
        return s if len(s) < 160 else s[:157] + '...'

    def __repr__(self):
        return f'<{self.id}:{self.kind}@{self.lineno} {self.text[:50]}>'

    def has_yield(self):
        return self.ast is not None and self.kind in ('stmt', 'test', 'iter') and any(
            isinstance(n, (ast.Yield, ast.YieldFrom)) for n in walk_no_defs(self.ast)
        )


class Edge:
    __slots__ = ('dst', 'exc', 'kind', 'src', 'weak')

    def __init__(self, s, d, kind, exc=None, weak=False):
        self.src = s
        self.dst = d
        self.kind = kind
        self.exc = exc
        self.weak = weak

    def __repr__(self):
        extra = f':{self.exc}{"?" if self.weak else ""}' if self.kind == 'x' else ''
        return f'{self.src.id}-{self.kind}{extra}->{self.dst.id}'


# ---------------------------------------------------------------------------
# exception classes

_EXTRA_BASES = {
    # names used in the analysed code that are not builtins
    'SSLError': 'OSError',
    'gaierror': 'OSError',
    'herror': 'OSError',
    'timeout': 'OSError',
    'socket_error': 'OSError',
    'SocketError': 'OSError',
    'JSONDecodeError': 'ValueError',
    'error': 'OSError',
}


def _builtin_exc(name):
    obj = getattr(builtins, name, None)
    if isinstance(obj, type) and issubclass(obj, BaseException):
        return obj
    return None


class ExcOracle:
    """Answers 'may a handler for H catch an exception of class E' from names."""

    def __init__(self, repo=None, module=None):
        self.repo = repo
        self.module = module

    def lineage(self, name):
        """List of names from *name* up to a builtin (best effort)."""
        out = [name]
        seen = set()
        cur = name
        while cur not in seen:
            seen.add(cur)
            if _builtin_exc(cur) is not None and not self._shadowed(cur):
                break
            nxt = None
            c = self._repo_class(cur)
            if c is not None:
                for b in c.base_exprs:
                    nxt = src(b).split('.')[-1]
                    break
            elif cur in _EXTRA_BASES:
                nxt = _EXTRA_BASES[cur]
            if nxt is None:
                break
            out.append(nxt)
            cur = nxt
        return out

    def _shadowed(self, name):
        return self.module is not None and name in self.module.classes

    def _repo_class(self, name):
        if self.module is not None:
            if name in self.module.classes:
                return self.module.classes[name]
            if self.repo is not None:
                r = self.repo.resolve_name(self.module, name)
                if r is not None and hasattr(r, 'base_exprs'):
                    return r
        return None

    def match(self, exc, handler_names):
        """'yes' | 'maybe' | 'no' — does a clause for *handler_names* (None = bare) catch *exc*?"""
        if handler_names is None or 'BaseException' in handler_names:
            return 'yes'
        if exc == '?':
            return 'maybe'
        line = self.lineage(exc)
        best = 'no'
        for h in handler_names:
            if h in line:
                return 'yes'
            top = line[-1]
            tb, hb = _builtin_exc(top), _builtin_exc(h)
            if tb is not None and hb is not None and not self._shadowed(h):
                if issubclass(tb, hb):
                    return 'yes'
                if issubclass(hb, tb):
                    best = 'maybe'
            elif tb is None:
                # unknown lineage: user exceptions normally derive from Exception
                if h == 'Exception':
                    return 'yes'
                best = 'maybe'
            elif hb is None:
                hl = self.lineage(h)
                hb2 = _builtin_exc(hl[-1])
                if hb2 is not None and issubclass(hb2, tb):
                    best = 'maybe'
        return best


# ---------------------------------------------------------------------------
# raises oracle: which exceptions does evaluating this statement raise?

OSERROR_CALLS = {
    'send', 'sendto', 'sendall', 'recv', 'recvfrom', 'accept', 'connect', 'connect_ex', 'getpeername', 'getsockname',
    'shutdown', 'bind', 'listen', 'do_handshake', 'fd_read', 'fd_write', 'select', 'poll', 'pipe', 'socketpair',
    'unlink', 'listdir', 'stat', 'open', 'control',
}
# 'read'/'write'/'close' are OS calls only on os / socket like receivers
OSERROR_QUALIFIED = {'os.read', 'os.write', 'os.close', 'select.select'}
VALUEERROR_CALLS = {'int', 'float'}
PURE_CALLS = {
    'len', 'isinstance', 'issubclass', 'bool', 'str', 'bytes', 'bytearray', 'list', 'tuple', 'dict', 'set', 'frozenset',
    'hasattr', 'min', 'max', 'sum', 'any', 'all', 'sorted', 'repr', 'hex', 'range', 'enumerate', 'callable', 'type',
    'id', 'time', 'current_thread', 'get_ident', 'deque', 'defaultdict', 'chain', 'attrgetter', 'iter', 'zip', 'map',
    'filter', 'reversed', 'abs', 'ord', 'chr', 'format', 'super', 'print', 'vars', 'dir', 'object', 'RLock', 'Lock',
    '_exc_info', 'exc_info', 'format_exc', 'uuid', 'uuid4', 'getpid', 'current_process', 'isfunction', 'ismethod',
    'suppress',
}
PURE_METHODS = {
    'append', 'appendleft', 'extend', 'add', 'clear', 'copy', 'get', 'items', 'keys', 'values', 'startswith',
    'endswith', 'strip', 'lstrip', 'rstrip', 'lower', 'upper', 'join', 'find', 'rfind', 'format', 'setdefault',
    'update', 'discard', 'split', 'rsplit', 'splitlines', 'replace', 'count', 'insert', 'sort', 'reverse', 'title',
    'isdigit', 'partition', 'rpartition', 'set', 'is_set', 'isSet', 'wait', 'acquire', 'release', 'fileno', 'timetuple',
    'hexdigest', 'digest', 'union', 'difference', 'intersection', 'encode_errors', 'tobytes', 'total_seconds',
    'suppress',
}
LOOKUP_METHODS = {'remove': ('ValueError', 'KeyError'), 'pop': ('IndexError', 'KeyError'), 'popleft': ('IndexError',), 'index': ('ValueError',)}


def getattr_is_total(call):
    return len(call.args) >= 3


def statement_raises(node):
    """List of (exception class name | '?', weak) the evaluation of *node* may raise.

    Explicit ``raise`` statements are handled by the builder.
    """
    out = []

    def add(exc, weak):
        if (exc, weak) not in out:
            out.append((exc, weak))

    for n in walk_no_defs(node):
        if isinstance(n, ast.Call):
            name = call_name(n)
            last = name.split('.')[-1] if name else None
            if name is None:
                add('?', True)
            elif name in OSERROR_QUALIFIED or (last in OSERROR_CALLS and not (name.startswith('self.') and name.count('.') == 1)):
                add('OSError', False)
                if last in ('select', 'poll'):
                    add('ValueError', True)
                    add('TypeError', True)
            elif last in ('read', 'write', 'close') and ('sock' in name or name.startswith('os.') or '_fd' in name):
                add('OSError', False)
            elif last in ('register', 'unregister', 'modify') and 'poller' in name:
                add('OSError', False)
                add('KeyError', False)
                add('ValueError', False)
            elif name in VALUEERROR_CALLS:
                add('ValueError', False)
                add('TypeError', True)
            elif name == 'next':
                add('StopIteration', False)
                add('?', True)
            elif last in ('send', 'throw') and not name.startswith('self.'):
                add('StopIteration', False)
                add('?', True)
            elif last in ('decode',):
                add('UnicodeDecodeError', False)
            elif last in ('encode',):
                add('UnicodeEncodeError', True)
            elif name in ('json.loads', 'loads'):
                add('ValueError', False)
            elif name == 'getattr':
                if not getattr_is_total(n):
                    add('AttributeError', True)
            elif name == 'delattr':
                add('AttributeError', False)
            elif '.' not in name and name in PURE_CALLS:
                pass
            elif '.' in name and last in PURE_METHODS:
                pass
            elif '.' in name and last in LOOKUP_METHODS:
                for e in LOOKUP_METHODS[last]:
                    add(e, True)
            else:
                add('?', True)
        elif isinstance(n, ast.Subscript) and isinstance(n.ctx, (ast.Load, ast.Del)):
            add('KeyError', True)
            add('IndexError', True)
        elif isinstance(n, (ast.Yield, ast.YieldFrom)):
            add('?', True)  # throw() into the generator
    if isinstance(node, ast.Assign) and any(isinstance(t, (ast.Tuple, ast.List)) for t in node.targets):
        v = node.value
        if not isinstance(v, (ast.Tuple, ast.List)):
            add('ValueError', False if (isinstance(v, ast.Call) and (call_name(v) or '').split('.')[-1] in ('split', 'rsplit')) else True)
    return out


# ---------------------------------------------------------------------------


class _Frame:
    def __init__(self, type, **kw):
        self.type = type
        self.__dict__.update(kw)


class CFG:
    def __init__(self, func):
        self.func = func
        self.nodes = []
        self.edges = []
        self.entry = None
        self.exit = None
        self.raise_exit = None
        self.by_ast = {}   # id(ast stmt/expr) -> [Node]
        self.flags = {}    # flag name -> its test nodes
        self.flag_defs = {}   # flag name -> the expression it was bound to
        self.flag_bind = {}   # flag name -> the node that binds it
        self.flag_in_loop = set()

    def mark_flags(self):
        """A local that is bound exactly once (outside loops) and tested bare in two or more places is a *flag*: `stopping = self.running … if stopping: … if stopping:`.
        All its tests come out the same way on one run; the path queries use this (sa/query.search) so that "took the true branch of the first test and the false
        branch of the second" is not a path."""
        fn = self.func.node
        params = {a.arg for a in fn.args.posonlyargs + fn.args.args + fn.args.kwonlyargs} | ({fn.args.vararg.arg} if fn.args.vararg else set()) | \
            ({fn.args.kwarg.arg} if fn.args.kwarg else set())
        stores = {}
        for w in walk_no_defs(fn):
            if isinstance(w, ast.Name) and isinstance(w.ctx, (ast.Store, ast.Del)):
                stores[w.id] = stores.get(w.id, 0) + 1
        bound_once = set()
        defs = {}
        for n in self.nodes:
            if n.kind == 'stmt' and isinstance(n.ast, ast.Assign) and len(n.ast.targets) == 1 and isinstance(n.ast.targets[0], ast.Name):
                nm = n.ast.targets[0].id
                if stores.get(nm) == 1 and nm not in params:
                    bound_once.add(nm)
                    defs[nm] = n.ast.value
                    self.flag_bind[nm] = n
                    if any(k == 'loop' for k, _a in n.ctx):
                        # (bound anew in every iteration: what was decided is forgotten at the binding, see query._search_flags)
                        self.flag_in_loop.add(nm)
        tests = {}
        for n in self.nodes:
            n.cfg = self
            if n.kind == 'test' and isinstance(n.ast, ast.Name) and n.ast.id in bound_once:
                tests.setdefault(n.ast.id, []).append(n)
        for nm, ts in tests.items():
            if len(ts) >= 2:
                self.flags[nm] = ts
                self.flag_defs[nm] = defs[nm]
                for t in ts:
                    t.flag = nm

    def new(self, kind, node, ctx):
        n = Node(len(self.nodes), kind, node, ctx)
        self.nodes.append(n)
        if node is not None:
            self.by_ast.setdefault(id(node), []).append(n)
        return n

    def add_edge(self, s, d, kind, exc=None, weak=False):
        for e in s.succ:
            if e.dst is d and e.kind == kind and e.exc == exc and e.weak == weak:
                return e
        e = Edge(s, d, kind, exc, weak)
        s.succ.append(e)
        d.pred.append(e)
        self.edges.append(e)
        return e

    def nodes_of(self, astnode):
        """CFG nodes created for this AST statement/expression (several when in a cloned finally)."""
        return self.by_ast.get(id(astnode), [])

    def node_for(self, astnode):
        """The CFG node(s) whose ast contains *astnode* (statement-level lookup)."""
        cur = astnode
        while cur is not None:
            ns = self.by_ast.get(id(cur))
            if ns:
                return ns
            cur = getattr(cur, '_parent', None)
        return []

    def stmt_nodes(self):
        return [n for n in self.nodes if n.kind in ('stmt', 'test', 'iter', 'for', 'with', 'except')]


class _Builder:
    def __init__(self, func):
        self.func = func
        self.g = CFG(func)
        self.frames = []
        self.ctx = ()
        self.oracle = ExcOracle(getattr(func.module, 'repo', None), func.module)

    # -- helpers
    def new(self, kind, node):
        return self.g.new(kind, node, self.ctx)

    def connect(self, dang, node):
        for (n, kind) in dang:
            self.g.add_edge(n, node, kind)

    def connect_x(self, dang, node, exc, weak):
        for (n, _kind) in dang:
            self.g.add_edge(n, node, 'x', exc, weak)

    def build(self):
        g = self.g
        g.entry = self.new('entry', None)
        g.exit = self.new('exit', None)
        g.raise_exit = self.new('raise', None)
        out = self.seq(self.func.node.body, [(g.entry, 'n')])
        self.connect(out, g.exit)
        g.mark_flags()
        return g

    # -- statements
    def seq(self, stmts, dang):
        for s in stmts:
            if isinstance(s, ast.Expr) and isinstance(s.value, ast.Constant) and isinstance(s.value.value, str):
                continue  # docstrings / string comments do nothing
            dang = self.stmt(s, dang)
        return dang

    def implicit_raises(self, node, astnode):
        for exc, weak in statement_raises(astnode):
            self.unwind([(node, 'n')], 'raise', exc, weak, len(self.frames))

    def stmt(self, s, dang):
        if isinstance(s, ast.If):
            t, f = self.cond(s.test, dang)
            return self.seq(s.body, t) + self.seq(s.orelse, f)
        if isinstance(s, ast.While):
            head = self.new('join', s)
            self.connect(dang, head)
            fr = _Frame('loop', head=head, breaks=[])
            t, f = self.cond(s.test, [(head, 'n')])
            self.frames.append(fr)
            saved = self.ctx
            if not getattr(s, '_synthetic_once', False):      # the once-only wrapper of an inlined helper (sa/inline.py) is not a loop
                self.ctx = self.ctx + (('loop', s),)
            body = self.seq(s.body, t)
            self.ctx = saved
            self.frames.pop()
            self.connect(body, head)
            return self.seq(s.orelse, f) + fr.breaks
        if isinstance(s, (ast.For, ast.AsyncFor)):
            it = self.new('iter', s.iter)
            self.connect(dang, it)
            self.implicit_raises(it, s.iter)
            head = self.new('for', s)
            self.connect([(it, 'n')], head)
            fr = _Frame('loop', head=head, breaks=[])
            self.frames.append(fr)
            saved = self.ctx
            self.ctx = self.ctx + (('loop', s),)
            body = self.seq(s.body, [(head, 'T')])
            self.ctx = saved
            self.frames.pop()
            self.connect(body, head)
            return self.seq(s.orelse, [(head, 'F')]) + fr.breaks
        if isinstance(s, (ast.With, ast.AsyncWith)):
            return self.with_(s, dang)
        if isinstance(s, ast.Try):
            return self.try_(s, dang)
        if hasattr(ast, 'TryStar') and isinstance(s, ast.TryStar):
            raise AnalysisError(f'{self.func.ref}: except* is not supported')
        if hasattr(ast, 'Match') and isinstance(s, ast.Match):
            raise AnalysisError(f'{self.func.ref}: match statement is not supported')
        # simple statements (incl. nested defs)
        n = self.new('stmt', s)
        self.connect(dang, n)
        if isinstance(s, (ast.FunctionDef, ast.AsyncFunctionDef, ast.ClassDef)):
            return [(n, 'n')]
        if isinstance(s, ast.Return):
            if s.value is not None:
                self.implicit_raises(n, s.value)
            self.unwind([(n, 'n')], 'return', None, False, len(self.frames))
            return []
        if isinstance(s, ast.Raise):
            for exc in self.raise_classes(s):
                self.unwind([(n, 'n')], 'raise', exc, False, len(self.frames))
            return []
        if isinstance(s, ast.Break):
            self.unwind([(n, 'n')], 'break', None, False, len(self.frames))
            return []
        if isinstance(s, ast.Continue):
            self.unwind([(n, 'n')], 'continue', None, False, len(self.frames))
            return []
        self.implicit_raises(n, s)
        return [(n, 'n')]

    def raise_classes(self, s):
        if s.exc is None:
            # re-raise: the classes of the enclosing except clause
            for kind, a in reversed(self.ctx):
                if kind == 'except':
                    names = _handler_names(a)
                    return list(names) if names else ['?']
            return ['?']
        e = s.exc
        if isinstance(e, ast.Call):
            e = e.func
        if isinstance(e, ast.Name):
            # raising a caught exception object: 'except X as e: ... raise e'
            for kind, a in reversed(self.ctx):
                if kind == 'except' and a.name == e.id:
                    names = _handler_names(a)
                    return list(names) if names else ['?']
            if e.id[:1].isupper() or _builtin_exc(e.id) is not None:
                return [e.id]
            return ['?']
        if isinstance(e, ast.Attribute) and e.attr[:1].isupper():
            return [e.attr]
        return ['?']

    def cond(self, e, dang):
        if isinstance(e, ast.BoolOp):
            if isinstance(e.op, ast.And):
                t, f = self.cond(e.values[0], dang)
                for v in e.values[1:]:
                    t, f2 = self.cond(v, t)
                    f = f + f2
                return t, f
            t, f = self.cond(e.values[0], dang)
            for v in e.values[1:]:
                t2, f = self.cond(v, f)
                t = t + t2
            return t, f
        if isinstance(e, ast.UnaryOp) and isinstance(e.op, ast.Not):
            t, f = self.cond(e.operand, dang)
            return f, t
        n = self.new('test', e)
        self.connect(dang, n)
        self.implicit_raises(n, e)
        if isinstance(e, ast.Constant):
            return ([(n, 'T')], []) if e.value else ([], [(n, 'F')])
        return [(n, 'T')], [(n, 'F')]

    def with_(self, s, dang):
        saved_ctx = self.ctx
        pushed = 0
        after = None
        for item in s.items:
            n = self.new('with', item)
            self.connect(dang, n)
            self.implicit_raises(n, item.context_expr)
            dang = [(n, 'n')]
            cname = call_name(item.context_expr) if isinstance(item.context_expr, ast.Call) else None
            if cname and cname.split('.')[-1] == 'suppress':
                names = tuple(src(a).split('.')[-1] for a in item.context_expr.args)
                if after is None:
                    after = self.g.new('join', s, saved_ctx)
                self.frames.append(_Frame('except', handlers=[(names, after)], node=s))
                pushed += 1
            self.ctx = self.ctx + (('with', item),)
        body = self.seq(s.body, dang)
        for _ in range(pushed):
            self.frames.pop()
        self.ctx = saved_ctx
        if after is not None:
            self.connect(body, after)
            return [(after, 'n')]
        return body

    def try_(self, s, dang):
        saved_ctx = self.ctx
        fin = None
        if s.finalbody:
            fin = _Frame('finally', body=s.finalbody, copies={}, node=s, ctx=saved_ctx)
            self.frames.append(fin)
        hframe = None
        if s.handlers:
            handlers = []
            for h in s.handlers:
                hn = self.g.new('except', h, saved_ctx + (('except', h),))
                handlers.append((_handler_names(h), hn))
            hframe = _Frame('except', handlers=handlers, node=s)
            self.frames.append(hframe)
        self.ctx = saved_ctx + (('try', s),)
        body = self.seq(s.body, dang)
        self.ctx = saved_ctx
        if hframe is not None:
            self.frames.pop()
        out = self.seq(s.orelse, body)
        if hframe is not None:
            for (_names, hn) in hframe.handlers:
                self.ctx = saved_ctx + (('except', hn.ast),)
                out = out + self.seq(hn.ast.body, [(hn, 'n')])
                self.ctx = saved_ctx
        if fin is not None:
            self.frames.pop()
            self.ctx = saved_ctx + (('finally', s),)
            out = self.seq(s.finalbody, out)
            self.ctx = saved_ctx
        return out

    # -- jumps
    def unwind(self, dang, kind, exc, weak, level):
        i = level
        while i > 0:
            i -= 1
            fr = self.frames[i]
            if fr.type == 'loop' and kind in ('break', 'continue'):
                if kind == 'break':
                    fr.breaks.extend(dang)
                else:
                    self.connect(dang, fr.head)
                return
            if fr.type == 'except' and kind == 'raise':
                for (names, hn) in fr.handlers:
                    m = self.oracle.match(exc, names)
                    if m != 'no':
                        self.connect_x(dang, hn, exc, weak or m == 'maybe' and exc == '?')
                    if m == 'yes':
                        return
            elif fr.type == 'finally':
                key = (kind, exc, weak)
                if key not in fr.copies:
                    saved_frames, saved_ctx = self.frames, self.ctx
                    self.frames = self.frames[:i]
                    self.ctx = fr.ctx + (('finally', fr.node),)
                    entry = self.new('join', fr.node)
                    fr.copies[key] = entry
                    out = self.seq(fr.body, [(entry, 'n')])
                    self.unwind(out, kind, exc, weak, i)
                    self.frames, self.ctx = saved_frames, saved_ctx
                if kind == 'raise':
                    self.connect_x(dang, fr.copies[key], exc, weak)
                else:
                    self.connect(dang, fr.copies[key])
                return
        if kind == 'return':
            self.connect(dang, self.g.exit)
        elif kind == 'raise':
            self.connect_x(dang, self.g.raise_exit, exc, weak)
        else:
            raise AnalysisError(f'{self.func.ref}: {kind} outside loop')


def _handler_names(h):
    """Tuple of class names of an except clause (None for a bare except)."""
    t = h.type
    if t is None:
        return None
    if isinstance(t, ast.Tuple):
        return tuple(src(e).split('.')[-1] for e in t.elts)
    return (src(t).split('.')[-1],)


def handler_names(h):
    return _handler_names(h)


def build_cfg(func):
    return _Builder(func).build()
