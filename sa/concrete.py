"""Finite-domain evaluation of small integer classification code (no code of /repo is executed: this interprets the CFG of a
function over a handful of abstract inputs chosen by the rule).

    env = run(func, {'data': Sized(126), 'mask': False}, stop=lambda n: …)

Supported: assignments to names from integer/boolean expressions (constants, names, + - * // % | & ^ >> <<, comparisons, and/or/not,
conditional expressions, len() of a Sized value), branch tests over them; byte strings as tuples of ints (indexing, slicing, concatenation, len,
append/extend on a local, int.from_bytes) and `for` loops over range(...) or such a tuple.  Anything else assigned makes the target UNKNOWN; a
test whose value is UNKNOWN ends the run (the environment reached so far is returned).  Loops are followed at most *fuel* steps.
"""

import ast

from .model import src


class _Unknown:
    def __repr__(self):
        return 'UNKNOWN'


UNKNOWN = _Unknown()


class Sized:
    """A value of which only the length matters."""

    def __init__(self, n):
        self.n = n


def ev(e, env):
    if isinstance(e, (ast.Compare, ast.BoolOp)) and ('$' + src(e)) in env:
        return env['$' + src(e)]            # an answer the rule supplies for a whole test (`$fd in self._read`)
    if isinstance(e, ast.Constant):
        if isinstance(e.value, bytes):
            return tuple(e.value)            # a byte string is the tuple of its byte values
        return e.value if isinstance(e.value, (int, bool)) or e.value is None else UNKNOWN
    if isinstance(e, (ast.Attribute, ast.Subscript)) and ('$' + src(e)) in env:
        return env['$' + src(e)]            # an answer the rule supplies for a place it names (`$e.args[0]`)
    if isinstance(e, (ast.Tuple, ast.List, ast.Set)):
        vals = tuple(ev(x, env) for x in e.elts)
        return UNKNOWN if any(v is UNKNOWN for v in vals) else vals
    if isinstance(e, ast.Name):
        return env.get(e.id, UNKNOWN)
    if isinstance(e, ast.UnaryOp):
        v = ev(e.operand, env)
        if v is UNKNOWN:
            return UNKNOWN
        if isinstance(e.op, ast.Not):
            return not v
        if isinstance(e.op, ast.USub):
            return -v
        return UNKNOWN
    if isinstance(e, ast.Subscript):
        v = ev(e.value, env)
        if isinstance(v, tuple):
            if isinstance(e.slice, ast.Slice):
                lo = ev(e.slice.lower, env) if e.slice.lower is not None else None
                hi = ev(e.slice.upper, env) if e.slice.upper is not None else None
                if lo is UNKNOWN or hi is UNKNOWN or e.slice.step is not None:
                    return UNKNOWN
                return v[lo:hi]
            i = ev(e.slice, env)
            if isinstance(i, int) and not isinstance(i, bool) and -len(v) <= i < len(v):
                return v[i]
        return UNKNOWN
    if isinstance(e, ast.BinOp) and isinstance(e.op, ast.Add):
        a, b = ev(e.left, env), ev(e.right, env)
        if isinstance(a, tuple) and isinstance(b, tuple):
            return a + b
    if isinstance(e, ast.BinOp):
        a, b = ev(e.left, env), ev(e.right, env)
        if a is UNKNOWN or b is UNKNOWN or not isinstance(a, int) or not isinstance(b, int):
            return UNKNOWN
        ops = {ast.Add: lambda: a + b, ast.Sub: lambda: a - b, ast.Mult: lambda: a * b, ast.BitOr: lambda: a | b, ast.BitAnd: lambda: a & b,
               ast.BitXor: lambda: a ^ b, ast.RShift: lambda: a >> b, ast.LShift: lambda: a << b, ast.FloorDiv: lambda: a // b if b else UNKNOWN,
               ast.Mod: lambda: a % b if b else UNKNOWN}
        f = ops.get(type(e.op))
        return f() if f else UNKNOWN
    if isinstance(e, ast.Compare):
        left = ev(e.left, env)
        res = True
        for op, c in zip(e.ops, e.comparators):
            right = ev(c, env)
            if left is UNKNOWN or right is UNKNOWN:
                return UNKNOWN
            if isinstance(op, (ast.In, ast.NotIn)):
                if not isinstance(right, tuple):
                    return UNKNOWN
                res = res and ((left in right) == isinstance(op, ast.In))
                left = right
                continue
            try:
                r = {ast.Lt: lambda: left < right, ast.LtE: lambda: left <= right, ast.Gt: lambda: left > right, ast.GtE: lambda: left >= right,
                     ast.Eq: lambda: left == right, ast.NotEq: lambda: left != right, ast.Is: lambda: left is right, ast.IsNot: lambda: left is not right}[type(op)]()
            except (KeyError, TypeError):
                return UNKNOWN
            res = res and r
            left = right
        return res
    if isinstance(e, ast.BoolOp):
        vals = [ev(v, env) for v in e.values]
        if isinstance(e.op, ast.And):
            if any(v is not UNKNOWN and not v for v in vals):
                return False
            return UNKNOWN if any(v is UNKNOWN for v in vals) else vals[-1]
        if any(v is not UNKNOWN and v for v in vals):
            return True
        return UNKNOWN if any(v is UNKNOWN for v in vals) else vals[-1]
    if isinstance(e, ast.IfExp):
        t = ev(e.test, env)
        if t is UNKNOWN:
            return UNKNOWN
        return ev(e.body if t else e.orelse, env)
    if isinstance(e, ast.Call) and ('$' + src(e)) in env:
        return env['$' + src(e)]            # an answer the rule supplies for a call it cannot evaluate (`$isinstance(data, str)`)
    if isinstance(e, ast.Call) and isinstance(e.func, ast.Name) and e.func.id == 'len' and len(e.args) == 1:
        v = ev(e.args[0], env)
        return v.n if isinstance(v, Sized) else len(v) if isinstance(v, tuple) else UNKNOWN
    if isinstance(e, ast.Call) and isinstance(e.func, ast.Name) and e.func.id in ('bytearray', 'bytes', 'list', 'tuple') and not e.keywords and len(e.args) <= 1:
        if not e.args:
            return ()
        v = ev(e.args[0], env)
        return v if isinstance(v, tuple) else UNKNOWN
    if isinstance(e, ast.Call) and src(e.func) == 'int.from_bytes' and len(e.args) >= 1:
        v = ev(e.args[0], env)
        order = e.args[1] if len(e.args) > 1 else next((k.value for k in e.keywords if k.arg == 'byteorder'), None)
        if isinstance(v, tuple) and all(isinstance(x, int) for x in v) and isinstance(order, ast.Constant) and order.value in ('big', 'little'):
            return int.from_bytes(bytes(v), order.value)
        return UNKNOWN
    if isinstance(e, ast.Call) and isinstance(e.func, ast.Name) and e.func.id == 'range' and 1 <= len(e.args) <= 3 and not e.keywords:
        vs = [ev(a, env) for a in e.args]
        if all(isinstance(x, int) and not isinstance(x, bool) for x in vs) and (len(vs) < 3 or vs[2] != 0):
            r = range(*vs)
            return tuple(r) if len(r) <= 64 else UNKNOWN
        return UNKNOWN
    if isinstance(e, ast.Call) and isinstance(e.func, ast.Name) and e.func.id in ('bool', 'int') and len(e.args) == 1:
        v = ev(e.args[0], env)
        return UNKNOWN if v is UNKNOWN else (bool(v) if e.func.id == 'bool' else int(v))
    return UNKNOWN


def run(func, env, stop=None, fuel=400, start=None):
    """Interpret *func*'s CFG from its entry (or *start*) under *env*; returns (env, node where it stopped)."""
    env = dict(env)
    g = func.cfg()
    node = start or g.entry
    while node is not None and fuel > 0:
        fuel -= 1
        if stop is not None and node is not (start or g.entry) and stop(node, env):
            return env, node
        nxt = None
        if node.kind == 'test':
            v = ev(node.ast, env)
            if v is UNKNOWN:
                return env, node
            for e in node.succ:
                if e.kind == ('T' if v else 'F'):
                    nxt = e.dst
        elif node.kind in ('exit', 'raise'):
            return env, node
        else:
            a = node.ast
            if node.kind == 'stmt' and isinstance(a, ast.Assign) and len(a.targets) == 1 and isinstance(a.targets[0], ast.Name):
                env[a.targets[0].id] = ev(a.value, env)
            elif node.kind == 'stmt' and isinstance(a, ast.AugAssign) and isinstance(a.target, ast.Name):
                env[a.target.id] = ev(ast.BinOp(left=ast.Name(id=a.target.id, ctx=ast.Load()), op=a.op, right=a.value), env)
            elif node.kind == 'stmt' and isinstance(a, ast.Assign):
                for t in a.targets:
                    for w in ast.walk(t):
                        if isinstance(w, ast.Name) and isinstance(w.ctx, ast.Store):
                            env[w.id] = UNKNOWN
            elif node.kind == 'iter':
                for e in node.succ:
                    env.pop('@for%d' % e.dst.id, None)      # a loop entered anew starts from the beginning (it may have been left by `break`)
            elif node.kind == 'for':
                # a loop over a sequence the valuation knows (range(n), a byte string) is run; loops over other data are beyond this evaluator
                key = '@for%d' % node.id
                if key not in env:
                    seq = ev(a.iter, env)
                    if not isinstance(seq, tuple) or not isinstance(a.target, ast.Name):
                        return env, node
                    env[key] = seq
                seq = env[key]
                if seq:
                    env[a.target.id] = seq[0]
                    env[key] = seq[1:]
                    kind = 'T'
                else:
                    del env[key]
                    kind = 'F'
                node = next((e.dst for e in node.succ if e.kind == kind), None)
                continue
            elif node.kind == 'stmt' and isinstance(a, ast.Expr) and isinstance(a.value, ast.Call) and isinstance(a.value.func, ast.Attribute) \
                    and isinstance(a.value.func.value, ast.Name) and a.value.func.attr in ('append', 'extend') and len(a.value.args) == 1:
                nm = a.value.func.value.id
                cur, v = env.get(nm, UNKNOWN), ev(a.value.args[0], env)
                if isinstance(cur, tuple) and a.value.func.attr == 'append' and v is not UNKNOWN:
                    env[nm] = cur + (v,)
                elif isinstance(cur, tuple) and a.value.func.attr == 'extend' and isinstance(v, tuple):
                    env[nm] = cur + v
                elif nm in env:
                    env[nm] = UNKNOWN
            elif node.kind == 'stmt' and isinstance(a, (ast.Return, ast.Raise)):
                return env, node
            for e in node.succ:
                if e.kind == 'n':
                    nxt = e.dst
        node = nxt
    return env, node


def _transfer(node, env):
    """The valuation after *node* (a non-test node)."""
    a = node.ast
    if node.kind == 'stmt' and isinstance(a, ast.Assign) and all(isinstance(t, ast.Name) for t in a.targets):
        v = ev(a.value, env)
        env = dict(env)
        for t in a.targets:
            env[t.id] = v
    elif node.kind == 'stmt' and isinstance(a, ast.AugAssign) and isinstance(a.target, ast.Name):
        env = dict(env)
        env[a.target.id] = ev(ast.BinOp(left=ast.Name(id=a.target.id, ctx=ast.Load()), op=a.op, right=a.value), env)
    elif node.kind in ('stmt', 'for', 'with') and a is not None:
        names = [w.id for t in (getattr(a, 'targets', None) or [getattr(a, 'target', None)]) if t is not None for w in ast.walk(t)
                 if isinstance(w, ast.Name) and isinstance(w.ctx, ast.Store)]
        if names:
            env = dict(env)
            for nme in names:
                env[nme] = UNKNOWN
    return env


def _freeze(env):
    return tuple(sorted((k, repr(v)) for k, v in env.items() if not k.startswith('$')))


def escapes(cfg, start, env, is_target, *, exits=('exit',), avoid_edge=None, exc='*', weak=False, limit=20000, goal=None):
    """query.escapes over (node, valuation) states: a path from *start* to an exit that passes no target node and takes no branch the valuation rules out.
    Tests the valuation cannot decide are followed both ways (a bare flag name is then taken as decided on either branch).  With *goal*, a node satisfying it ends a path like an exit does.
    None, or the edge list."""
    from collections import deque
    from .query import default_edge_ok
    env = dict(env)
    s0 = (start, _freeze(env))
    envs = {s0: env}
    parent = {}
    seen = {s0}
    q = deque([s0])
    while q and len(seen) < limit:
        st = q.popleft()
        node, _k = st
        env = envs[st]
        if node.kind in ('exit', 'raise') or (goal is not None and node is not start and goal(node)):
            if node.kind in exits or (goal is not None and goal(node)):
                out = []
                while st in parent:
                    st, e = parent[st]
                    out.append(e)
                out.reverse()
                return out
            continue
        v = ev(node.ast, env) if node.kind == 'test' else None
        env2 = env if node.kind == 'test' else _transfer(node, env)
        for e in node.succ:
            if not default_edge_ok(e, exc, weak):
                continue
            if avoid_edge is not None and avoid_edge(e):
                continue
            env3 = env2
            if node.kind == 'test' and e.kind in ('T', 'F'):
                if v is not UNKNOWN and bool(v) != (e.kind == 'T'):
                    continue
                t, pol = node.ast, e.kind == 'T'
                if isinstance(t, ast.UnaryOp) and isinstance(t.op, ast.Not):
                    t, pol = t.operand, not pol
                if v is UNKNOWN and isinstance(t, ast.Name):
                    env3 = dict(env2)
                    env3[t.id] = pol
            d = e.dst
            if d is not start and is_target(d):
                continue
            nst = (d, _freeze(env3))
            if nst in seen:
                continue
            seen.add(nst)
            envs[nst] = env3
            parent[nst] = (st, e)
            q.append(nst)
    return None


def envs_at(cfg, start, env, goal, *, exc=(), weak=False, limit=20000):
    """The valuations with which a node satisfying *goal* is reached from *start* (paths are followed as in escapes(); a path ends at the goal)."""
    from collections import deque
    from .query import default_edge_ok
    env = dict(env)
    s0 = (start, _freeze(env))
    envs = {s0: env}
    seen = {s0}
    q = deque([s0])
    out = []
    while q and len(seen) < limit:
        st = q.popleft()
        node, _k = st
        env = envs[st]
        if node is not start and goal(node):
            out.append((node, env))
            continue
        if node.kind in ('exit', 'raise'):
            continue
        v = ev(node.ast, env) if node.kind == 'test' else None
        env2 = env if node.kind == 'test' else _transfer(node, env)
        for e in node.succ:
            if not default_edge_ok(e, exc, weak):
                continue
            if node.kind == 'test' and e.kind in ('T', 'F') and v is not UNKNOWN and bool(v) != (e.kind == 'T'):
                continue
            nst = (e.dst, _freeze(env2))
            if nst in seen:
                continue
            seen.add(nst)
            envs[nst] = env2
            q.append(nst)
    return out
