"""Obligations, findings, known-findings matching, evidence files, exit codes."""

import hashlib
import json
import os
import re
import time

VERIF = os.path.dirname(os.path.dirname(os.path.abspath(__file__)))


def _slug(s):
    return re.sub(r'[^A-Za-z0-9_.-]+', '_', s)[:120]


class Obligation:
    __slots__ = ('construct', 'detail', 'discr', 'loc', 'nontrivial', 'ok', 'path', 'rule', 'text')

    def __init__(self, rule, construct, text, ok, loc='', detail='', path=None, discr='', nontrivial=True):
        self.rule = rule
        self.construct = construct
        self.text = text
        self.ok = ok
        self.loc = loc
        self.detail = detail
        self.path = path or []
        self.discr = discr
        self.nontrivial = nontrivial

    @property
    def key(self):
        k = f'{self.rule}|{self.construct}'
        if self.discr:
            k += f'|{self.discr}'
        return k

    def as_dict(self):
        d = {'rule': self.rule, 'construct': self.construct, 'obligation': self.text, 'at': self.loc,
             'result': 'discharged' if self.ok else 'VIOLATED'}
        if self.discr:
            d['case'] = self.discr
        if self.detail:
            d['detail'] = self.detail
        if self.path:
            d['path'] = self.path
        return d


class Check:
    """Collects the obligations of one property run."""

    def __init__(self, prop, tier='quick', root='/repo', seed=0):
        self.prop = prop
        self.tier = tier
        self.root = root
        self.seed = seed
        self.obligations = []
        self.infos = []
        self.stats = {'functions_analysed': set(), 'cfg_nodes': 0, 'queries': 0}
        self.t0 = time.time()
        self.rules_text = {}
        self.selftest = None
        self.not_decided = []
        self.assumptions = []

    # -- recording
    def rule(self, rid, text):
        self.rules_text[rid] = text

    def touch(self, func):
        """Record that *func* was analysed (and count its CFG once)."""
        if func is None:
            return
        if func.ref not in self.stats['functions_analysed']:
            self.stats['functions_analysed'].add(func.ref)
            try:
                self.stats['cfg_nodes'] += len(func.cfg().nodes)
            except Exception:
                pass

    def ob(self, rule, construct, text, ok, loc='', detail='', path=None, discr='', nontrivial=True):
        rid = rule if rule.startswith(self.prop) else f'{self.prop}.{rule}'
        o = Obligation(rid, construct, text, bool(ok), loc, detail, path, discr, nontrivial)
        self.obligations.append(o)
        return o.ok

    def adopt(self, rule, other_prop, repo, select, prefix=''):
        """Re-state obligations decided by the rule module of another property under *rule* of this one (shared mechanism).
        The other module is run on the same program model; nothing is copied from an earlier run."""
        import importlib
        mod = importlib.import_module(f'rules.{other_prop.lower()}')
        sub = Check(other_prop, self.tier, self.root)
        mod.run(repo, sub)
        n = 0
        for o in sub.obligations:
            if select(o):
                n += 1
                self.ob(rule, o.construct, f'{prefix}{o.text} [decided by {o.rule}]', o.ok, o.loc, o.detail, o.path, discr=f'{o.rule}:{o.discr}')
        self.stats['functions_analysed'] |= sub.stats['functions_analysed']
        return n

    def info(self, text):
        self.infos.append(text)

    # -- finishing
    def finish(self, write=True, quiet=False):
        known = load_known()
        open_keys = {k['key']: k for k in known if k.get('status') == 'open' and k.get('property') == self.prop}
        violations = []
        known_hits = []
        for o in self.obligations:
            if o.ok:
                continue
            if o.key in open_keys:
                known_hits.append((o, open_keys[o.key]))
            else:
                violations.append(o)
        # de-duplicate violations by key (one replay per construct)
        seen = {}
        for o in violations:
            seen.setdefault(o.key, o)
        violations = list(seen.values())
        lines = []
        reported = set()
        for o, k in known_hits:
            if o.key in reported:
                continue
            reported.add(o.key)
            lines.append(f'KNOWN-FINDING: property={self.prop} {o.key} — {k.get("what", o.text)}')
        replay_dir = os.path.join(VERIF, 'replays')
        for o in violations:
            os.makedirs(replay_dir, exist_ok=True)
            rp = os.path.join(replay_dir, f'{self.prop}-{_slug(o.key)}.json')
            with open(rp, 'w') as f:
                json.dump({
                    'property': self.prop, 'key': o.key, 'rule': o.rule, 'rule_text': self.rules_text.get(o.rule, ''),
                    'construct': o.construct, 'at': o.loc, 'obligation': o.text, 'detail': o.detail, 'path': o.path,
                    'root': self.root,
                    'reevaluate': f'./check {self.prop} --tier quick --root {self.root} --only {o.rule}',
                }, f, indent=1)
            lines.append(f'VIOLATION property={self.prop} replay={rp}')
            lines.append(f'  rule {o.rule}: {self.rules_text.get(o.rule, "")}')
            lines.append(f'  at {o.loc}  construct {o.construct}' + (f'  case {o.discr}' if o.discr else ''))
            lines.append(f'  obligation: {o.text}')
            if o.detail:
                lines.append(f'  detail: {o.detail}')
            for p in o.path[:40]:
                lines.append(f'    | {p}')
        if write:
            self.write_evidence(len(violations), known_hits)
        if not quiet:
            n = len(self.obligations)
            d = sum(1 for o in self.obligations if o.ok)
            print(f'{self.prop} [{self.tier}] root={self.root}: {n} obligations, {d} discharged, '
                  f'{len(known_hits)} known finding(s), {len(violations)} violation(s); '
                  f'{len(self.stats["functions_analysed"])} functions, {self.stats["cfg_nodes"]} CFG nodes, '
                  f'{time.time() - self.t0:.2f}s')
            for ln in lines:
                print(ln)
        return 1 if violations else 0

    def write_evidence(self, nviol, known_hits):
        obs = self.obligations
        nontrivial = {o.key for o in obs if o.nontrivial}
        samples = [o.as_dict() for o in obs if not o.ok][:10]
        byrule = {}
        for o in obs:
            byrule.setdefault(o.rule, []).append(o)
        for r in sorted(byrule):
            for o in byrule[r][:2]:
                if len(samples) < 40:
                    d = o.as_dict()
                    if d not in samples:
                        samples.append(d)
        ev = {
            'property_id': self.prop,
            'tier': self.tier,
            'seed': int(self.seed),
            'level': 'other',
            'coverage': {
                'explanation': (
                    'Static discharge of structural obligations that are necessary conditions of the property: '
                    'every rule is evaluated on the AST/CFG of the current working tree (' + self.root + '); '
                    'no code of the analysed package is imported or executed. Each obligation is a '
                    '(rule, construct[, case]) triple; "discharged" means the rule holds on every path / site it '
                    'quantifies over. The behavioural statement itself is not proven; see not_decided.'
                ),
                'obligations': len(obs),
                'discharged': sum(1 for o in obs if o.ok),
                'evaluations': len(obs),
                'distinct_nontrivial': len(nontrivial),
                'rule': 'one evaluation per (rule, construct, case); non-trivial = its evaluation ran at least one CFG '
                        'path query, data-flow query or table comparison (pure existence checks of anchors are trivial); '
                        'distinct = distinct finding keys',
                'rules': self.rules_text,
                'per_rule': {r: {'obligations': len(v), 'discharged': sum(1 for o in v if o.ok)} for r, v in sorted(byrule.items())},
                'samples': samples,
                'functions_analysed': sorted(self.stats['functions_analysed']),
                'cfg_nodes': self.stats['cfg_nodes'],
                'known_findings_present': sorted({o.key for o, _ in known_hits}),
                'not_decided': self.not_decided,
                'info': self.infos[:50],
                'exhaustive': False,
                'checker_cmd': f'./check {self.prop} --tier {self.tier}',
                'trusted_base': [
                    'python ast module parses what CPython compiles',
                    'CFG construction and the raises oracle in /verif/sa/cfg.py',
                    'idiom tables in the rule modules',
                ],
            },
            'assumptions': [
                'no reflection rebinding anchored attributes (setattr/getattr with computed names)',
                'user handlers are out of scope: the rules establish the framework side',
                'exception edges: explicit raise + raises oracle; "unknown call may raise anything" edges are '
                'only used where a rule says so',
            ] + self.assumptions,
            'wall_s': round(time.time() - self.t0, 3),
            'violations': nviol,
        }
        if self.selftest is not None:
            ev['coverage']['selftest'] = self.selftest
        os.makedirs(os.path.join(VERIF, 'evidence'), exist_ok=True)
        path = os.path.join(VERIF, 'evidence', f'{self.prop}.json')
        tmp = path + '.tmp'
        with open(tmp, 'w') as f:
            json.dump(ev, f, indent=1, sort_keys=False)
        os.replace(tmp, path)


def load_known():
    p = os.path.join(VERIF, 'known_findings.json')
    if not os.path.exists(p):
        return []
    with open(p) as f:
        data = json.load(f)
    return data.get('findings', [])


def digest(text):
    return hashlib.sha1(text.encode()).hexdigest()[:12]
