"""Alias normalisation: `r = event.value; r.errors = True` is analysed as `event.value.errors = True`.

A local that is bound exactly once in a function, by a plain copy of an access path (`self.a.b`, `x.attr`, `self.t[k]` with
a name key), is replaced by that path wherever it is read or used as the base of a store.  The binding itself stays.  Not
done when the local is a parameter, a loop/with/except target, global/nonlocal, or when a name occurring in the path is
itself re-bound anywhere in the function (the path could then denote something else at the use).
This is an analysis normalisation of spelling, not a program transformation: rules match access paths, and a clean-up
commit that introduces or removes such a local must not change what they see.
"""

import ast
import copy

from .model import clone, walk_no_defs


def _path(e):
    """Access path expression? (Name | path.attr | path[name-or-constant])"""
    if isinstance(e, ast.Name):
        return True
    if isinstance(e, ast.Attribute):
        return _path(e.value)
    if isinstance(e, ast.Subscript):
        return _path(e.value) and isinstance(e.slice, (ast.Name, ast.Constant))
    return False


def _stores(fnode):
    """name -> number of bindings in the function body (nested defs excluded)"""
    n = {}

    def add(name):
        n[name] = n.get(name, 0) + 1
    a = fnode.args
    for x in a.posonlyargs + a.args + a.kwonlyargs + ([a.vararg] if a.vararg else []) + ([a.kwarg] if a.kwarg else []):
        add(x.arg)
        add(x.arg)      # parameters never qualify
    for w in walk_no_defs(fnode):
        if isinstance(w, ast.Name) and isinstance(w.ctx, (ast.Store, ast.Del)):
            add(w.id)
        elif isinstance(w, ast.ExceptHandler) and w.name:
            add(w.name)
            add(w.name)
        elif isinstance(w, (ast.Global, ast.Nonlocal)):
            for x in w.names:
                add(x)
                add(x)
        elif isinstance(w, (ast.FunctionDef, ast.AsyncFunctionDef, ast.ClassDef)) and w is not fnode:
            add(w.name)
            add(w.name)
        elif isinstance(w, (ast.Import, ast.ImportFrom)):
            for x in w.names:
                add((x.asname or x.name).split('.')[0])
    return n


class _Subst(ast.NodeTransformer):
    def __init__(self, mapping, skip):
        self.m = mapping
        self.skip = skip      # ids of the binding Name nodes themselves

    def visit_Name(self, n):
        if n.id in self.m and id(n) not in self.skip and isinstance(n.ctx, ast.Load):
            return ast.copy_location(clone(self.m[n.id]), n)
        return n

    def visit_FunctionDef(self, n):
        return n            # closures keep their own view

    visit_AsyncFunctionDef = visit_FunctionDef
    visit_Lambda = visit_FunctionDef
    visit_ClassDef = visit_FunctionDef


def aliases(fnode, final_attrs=None, only=None):
    """{local: path expression} for the aliases of *fnode* that qualify.
    With *final_attrs* (a set of attribute names that are only ever assigned in `__init__` methods) only `x = self.<final>` qualifies:
    such an attribute denotes the same object for the whole life of the instance, so the local and the path are interchangeable."""
    counts = _stores(fnode)
    loop_targets = set()
    for w in walk_no_defs(fnode):
        if isinstance(w, (ast.For, ast.AsyncFor, ast.comprehension)):
            loop_targets |= {x.id for x in ast.walk(w.target) if isinstance(x, ast.Name)}
        if isinstance(w, (ast.With, ast.AsyncWith)):
            for it in w.items:
                if it.optional_vars is not None:
                    loop_targets |= {x.id for x in ast.walk(it.optional_vars) if isinstance(x, ast.Name)}
        if isinstance(w, ast.NamedExpr):
            loop_targets.add(w.target.id)
    out = {}
    bind = {}
    for w in walk_no_defs(fnode):
        if isinstance(w, ast.Assign) and len(w.targets) == 1 and isinstance(w.targets[0], ast.Name) and _path(w.value) and not isinstance(w.value, ast.Name):
            v = w.targets[0].id
            if counts.get(v) != 1 or v in loop_targets or (only is not None and v not in only):
                continue
            if final_attrs is not None:
                params_ = {x.arg for x in fnode.args.posonlyargs + fnode.args.args + fnode.args.kwonlyargs}
                if not (isinstance(w.value, ast.Attribute) and isinstance(w.value.value, ast.Name) and w.value.attr in final_attrs
                        and (w.value.value.id == 'self' or (w.value.value.id in params_ and counts.get(w.value.value.id, 0) <= 2))):
                    continue        # `x = self.<final attribute>` or `x = <parameter>.<final attribute>` only
            inner = {x.id for x in ast.walk(w.value) if isinstance(x, ast.Name)}
            # every name in the path must itself be stable: `self`, or bound at most once (parameters count twice above: allow them explicitly)
            params = {x.arg for x in fnode.args.posonlyargs + fnode.args.args + fnode.args.kwonlyargs}
            rebound = {x for x in inner if x not in params and x != 'self' and counts.get(x, 0) > 1 or x in loop_targets}
            # a parameter that is re-assigned in the body is not stable either
            for x in inner & params:
                if counts.get(x, 0) > 2:
                    rebound.add(x)
            if rebound or v in inner:
                continue
            out[v] = w.value
            bind[v] = id(w.targets[0])
    return out, bind


def apply(fnode, final_attrs=None, only=None):
    """Return a normalised deep copy of *fnode*, or None when nothing changes."""
    m, _ = aliases(fnode, final_attrs, only)
    if not m:
        return None
    new = clone(fnode)
    m2, bind = aliases(new, final_attrs, only)
    # resolve chains (alias of an alias) a few levels
    for _ in range(3):
        changed = False
        for k, v in list(m2.items()):
            names = {x.id for x in ast.walk(v) if isinstance(x, ast.Name)}
            if names & set(m2) - {k}:
                m2[k] = _Subst({a: b for a, b in m2.items() if a != k}, set()).visit(clone(v))
                changed = True
        if not changed:
            break
    tr = _Subst(m2, set(bind.values()))
    new.body = [tr.visit(s) for s in new.body]
    ast.fix_missing_locations(new)
    return new


_PURE_METHODS = {'get', 'startswith', 'endswith', 'rstrip', 'lstrip', 'strip', 'lower', 'upper', 'count', 'find', 'isdigit', 'isalpha', 'isalnum', 'isspace'}


def _pure_test(e):
    if isinstance(e, (ast.Name, ast.Constant)):
        return True
    if isinstance(e, ast.Attribute):
        return _pure_test(e.value)
    if isinstance(e, ast.Compare):
        return _pure_test(e.left) and all(_pure_test(c) for c in e.comparators)
    if isinstance(e, ast.BoolOp):
        return all(_pure_test(v) for v in e.values)
    if isinstance(e, ast.UnaryOp) and isinstance(e.op, ast.Not):
        return _pure_test(e.operand)
    if isinstance(e, (ast.Tuple, ast.List, ast.Set)):
        return all(_pure_test(v) for v in e.elts)
    if isinstance(e, ast.Dict):
        return not e.keys
    if isinstance(e, ast.Call) and isinstance(e.func, ast.Name) and e.func.id in ('len', 'isinstance', 'bool', 'hasattr', 'callable', 'getattr') and not e.keywords:
        return all(_pure_test(a) for a in e.args)
    if isinstance(e, ast.Call) and isinstance(e.func, ast.Attribute) and e.func.attr in _PURE_METHODS and not e.keywords:
        return _pure_test(e.func.value) and all(_pure_test(a) for a in e.args)
    if isinstance(e, ast.BinOp):
        return _pure_test(e.left) and _pure_test(e.right)
    if isinstance(e, ast.Subscript):
        return _pure_test(e.value) and (isinstance(e.slice, (ast.Name, ast.Constant)) or
                                        (isinstance(e.slice, ast.Slice) and all(x is None or _pure_test(x) for x in (e.slice.lower, e.slice.upper, e.slice.step))))
    return False


def _names_only_test(e):
    if isinstance(e, (ast.Name, ast.Constant)):
        return True
    if isinstance(e, ast.Attribute) and isinstance(e.value, ast.Name) and e.value.id != 'self' and e.attr.isupper():
        return True                 # a constant of a module (`select.POLLIN`)
    if isinstance(e, ast.BinOp) and isinstance(e.op, (ast.BitAnd, ast.BitOr, ast.BitXor)):
        return _names_only_test(e.left) and _names_only_test(e.right)
    if isinstance(e, ast.Compare):
        # (membership in a container of the instance, `sock in self._clients`: the caller's stability test looks at what happens to the container in between.
        #  A bare `self.attr` is not accepted: `x = self.attr` may be a deliberate snapshot of shared state)
        def operand(c, op):
            if isinstance(op, (ast.In, ast.NotIn)) and isinstance(c, ast.Attribute) and isinstance(c.value, ast.Name) and c.value.id == 'self':
                return True
            return _names_only_test(c)
        return _names_only_test(e.left) and all(operand(c, op) for c, op in zip(e.comparators, e.ops))
    if isinstance(e, ast.BoolOp):
        return all(_names_only_test(v) for v in e.values)
    if isinstance(e, ast.UnaryOp) and isinstance(e.op, ast.Not):
        return _names_only_test(e.operand)
    return False


def predicates(fnode, stable=None):
    """{local: expression} for locals that merely name a test:
    (1) `v = isinstance(x, T)` with x a parameter that is never re-bound or a local bound once (the answer cannot change);
    (2) `v = <side-effect free test>` whose only read is the test of the `if` statement that immediately follows the binding.
    (3) `v = <comparison / boolean combination of local names and constants>` when *stable(assign, v, names)* says that none of the names can be
        re-bound between the binding of v and a use of v (decided on the CFG by the caller).
    Reading `if v:` as `if <expression>:` is then exact."""
    counts = _stores(fnode)
    params = {x.arg for x in fnode.args.posonlyargs + fnode.args.args + fnode.args.kwonlyargs}
    reads = {}
    for w in walk_no_defs(fnode):
        if isinstance(w, ast.Name) and isinstance(w.ctx, ast.Load):
            reads.setdefault(w.id, []).append(w)
    out, bind = {}, {}
    for body_owner in walk_no_defs(fnode):
        for fld in ('body', 'orelse', 'finalbody'):
            body = getattr(body_owner, fld, None)
            if not isinstance(body, list):
                continue
            for i, w in enumerate(body):
                if not (isinstance(w, ast.Assign) and len(w.targets) == 1 and isinstance(w.targets[0], ast.Name)):
                    continue
                v = w.targets[0].id
                if counts.get(v) != 1 or v in params or not _pure_test(w.value) or isinstance(w.value, (ast.Name, ast.Constant)):
                    continue
                val = w.value
                if isinstance(val, ast.Call) and isinstance(val.func, ast.Name) and val.func.id == 'isinstance' and len(val.args) == 2 and isinstance(val.args[0], ast.Name):
                    x = val.args[0].id
                    stable = (x in params and counts.get(x, 0) <= 2) or (x not in params and counts.get(x, 0) == 1)
                    if stable and all(isinstance(n_, (ast.Name, ast.Attribute, ast.Tuple, ast.Load)) for n_ in ast.walk(val.args[1])):
                        out[v] = val
                        bind[v] = id(w.targets[0])
                        continue
                nxt = body[i + 1] if i + 1 < len(body) else None
                rd = reads.get(v, [])
                if isinstance(nxt, ast.If) and len(rd) == 1 and any(x is rd[0] for x in ast.walk(nxt.test)):
                    out[v] = val
                    bind[v] = id(w.targets[0])
                    continue
                if stable is not None and _names_only_test(val) and not isinstance(val, (ast.Name, ast.Constant)):
                    names = {x.id for x in ast.walk(val) if isinstance(x, ast.Name)}
                    if v not in names and stable(w, v, names):
                        out[v] = val
                        bind[v] = id(w.targets[0])
    return out, bind


def apply_predicates(fnode, stable=None):
    m, _ = predicates(fnode, stable)
    if not m:
        nested = [w for w in ast.walk(fnode) if isinstance(w, (ast.FunctionDef, ast.AsyncFunctionDef)) and w is not fnode]
        if not any(predicates(w, None)[0] for w in nested):
            return None
        new = clone(fnode)
        _nested_predicates(new)
        ast.fix_missing_locations(new)
        return new
    new = clone(fnode)
    m2, bind = predicates(new, None)
    # case (3) was decided on the original: carry the decision over by position
    if stable is not None:
        orig = [w for w in walk_no_defs(fnode) if isinstance(w, ast.Assign)]
        cp = [w for w in walk_no_defs(new) if isinstance(w, ast.Assign)]
        for a_, b_ in zip(orig, cp):
            if len(a_.targets) == 1 and isinstance(a_.targets[0], ast.Name) and a_.targets[0].id in m and a_.targets[0].id not in m2 and m[a_.targets[0].id] is a_.value:
                m2[b_.targets[0].id] = b_.value
                bind[b_.targets[0].id] = id(b_.targets[0])
    tr = _Subst(m2, set(bind.values()))
    new.body = [tr.visit(s) for s in new.body]
    _nested_predicates(new)
    ast.fix_missing_locations(new)
    return new


def _nested_predicates(fnode):
    """Cases (1) and (2) inside the functions nested in *fnode* (in place; *fnode* is already a private copy)."""
    class V(ast.NodeTransformer):
        def visit_FunctionDef(self, n):
            if n is fnode:
                self.generic_visit(n)
                return n
            m, bind = predicates(n, None)
            if m:
                tr = _Subst(m, set(bind.values()))
                n.body = [tr.visit(s) for s in n.body]
            _nested_predicates(n)
            return n
        visit_AsyncFunctionDef = visit_FunctionDef
    V().visit(fnode)


class _Drops(ast.NodeTransformer):
    """`X.pop(k, None)` as a statement  ->  `if k in X: del X[k]`;  `X.pop(k)` as a statement  ->  `del X[k]`  (X an access path, k a path or constant)."""
    n = 0

    def visit_Expr(self, st):
        c = st.value
        if isinstance(c, ast.Call) and isinstance(c.func, ast.Attribute) and c.func.attr == 'pop' and not c.keywords and len(c.args) in (1, 2) \
                and _path(c.func.value) and not isinstance(c.func.value, ast.Name) and (_path(c.args[0]) or isinstance(c.args[0], ast.Constant)) \
                and not (isinstance(c.args[0], ast.Constant) and isinstance(c.args[0].value, int)):
            if len(c.args) == 2 and not (isinstance(c.args[1], ast.Constant) and c.args[1].value is None):
                return st
            target = ast.Subscript(value=clone(c.func.value), slice=clone(c.args[0]), ctx=ast.Del())
            d = ast.copy_location(ast.Delete(targets=[target]), st)
            self.n += 1
            if len(c.args) == 1:
                return d
            test = ast.Compare(left=clone(c.args[0]), ops=[ast.In()], comparators=[clone(c.func.value)])
            return ast.copy_location(ast.If(test=test, body=[d], orelse=[]), st)
        return st

    def visit_FunctionDef(self, n):
        return n

    visit_AsyncFunctionDef = visit_FunctionDef
    visit_Lambda = visit_FunctionDef
    visit_ClassDef = visit_FunctionDef


def apply_drops(fnode):
    if not any(isinstance(w, ast.Expr) and isinstance(w.value, ast.Call) and isinstance(w.value.func, ast.Attribute) and w.value.func.attr == 'pop'
               for w in walk_no_defs(fnode)):
        return None
    new = clone(fnode)
    tr = _Drops()
    new.body = [tr.visit(s) for s in new.body]
    if not tr.n:
        return None
    ast.fix_missing_locations(new)
    return new


# ---------------------------------------------------------------------------
# loops over a literal tuple of places: `for lst in (self._read, self._write): if fd in lst: lst.remove(fd)` is the loop body once per place


class _Unroll(ast.NodeTransformer):
    def __init__(self):
        self.n = 0

    def visit_FunctionDef(self, n):
        return n

    visit_AsyncFunctionDef = visit_FunctionDef
    visit_Lambda = visit_FunctionDef
    visit_ClassDef = visit_FunctionDef

    def visit_For(self, node):
        self.generic_visit(node)
        it = node.iter
        if not (isinstance(node.target, ast.Name) and isinstance(it, (ast.Tuple, ast.List)) and 2 <= len(it.elts) <= 4 and not node.orelse):
            return node
        if not all(_path(e) and not isinstance(e, ast.Name) for e in it.elts):
            return node
        var = node.target.id
        for st in node.body:
            for w in ast.walk(st):
                if isinstance(w, ast.Name) and w.id == var and isinstance(w.ctx, (ast.Store, ast.Del)):
                    return node
                if isinstance(w, (ast.FunctionDef, ast.AsyncFunctionDef, ast.Lambda, ast.ClassDef)):
                    return node        # (a closure would capture the variable, not the place)
        if _loop_jumps(node.body):
            return node
        out = []
        for e in it.elts:
            tr = _Subst({var: e}, set())
            out.extend(tr.visit(s) for s in clone(node.body))
        self.n += 1
        return out


def _loop_jumps(stmts):
    """break / continue bound to the loop whose body *stmts* is"""
    for s in stmts:
        if isinstance(s, (ast.Break, ast.Continue)):
            return True
        if isinstance(s, (ast.For, ast.While, ast.AsyncFor, ast.FunctionDef, ast.AsyncFunctionDef, ast.ClassDef)):
            if isinstance(s, (ast.For, ast.While, ast.AsyncFor)) and _loop_jumps(s.orelse):
                return True
            continue
        for field in ('body', 'orelse', 'finalbody'):
            if _loop_jumps(getattr(s, field, None) or []):
                return True
        if isinstance(s, ast.Try) and any(_loop_jumps(h.body) for h in s.handlers):
            return True
        if isinstance(s, ast.Match) and any(_loop_jumps(c.body) for c in s.cases):
            return True
    return False


def apply_unroll(fnode):
    if not any(isinstance(w, ast.For) and isinstance(w.iter, (ast.Tuple, ast.List)) for w in walk_no_defs(fnode)):
        return None
    new = clone(fnode)
    tr = _Unroll()
    body = []
    for s in new.body:
        r = tr.visit(s)
        body.extend(r if isinstance(r, list) else [r])
    new.body = body
    if not tr.n:
        return None
    ast.fix_missing_locations(new)
    return new
