"""AST pattern helpers shared by the rule modules."""

import ast

from . import AnalysisError
from .model import call_name, calls_in, dotted, src, walk_no_defs
from . import query as Q


def is_const(node, value):
    return isinstance(node, ast.Constant) and node.value == value and type(node.value) is type(value)


def attr_store(stmt):
    """[(receiver_src, attr, value_ast)] for attribute stores in an Assign/AugAssign statement."""
    out = []
    if isinstance(stmt, ast.Assign):
        targets = []
        for t in stmt.targets:
            targets.extend(t.elts if isinstance(t, (ast.Tuple, ast.List)) else [t])
        for t in targets:
            if isinstance(t, ast.Attribute):
                out.append((src(t.value), t.attr, stmt.value))
    elif isinstance(stmt, (ast.AugAssign, ast.AnnAssign)) and isinstance(stmt.target, ast.Attribute):
        out.append((src(stmt.target.value), stmt.target.attr, stmt.value))
    return out


def stores_attr(stmt, attr, value=None):
    """Receivers R such that stmt does ``R.attr = <value>`` (value: python constant to require, or None)."""
    out = []
    for recv, a, v in attr_store(stmt):
        if a == attr and (value is None or is_const(v, value)):
            out.append(recv)
    return out


def method_calls(node, method):
    """Call nodes ``<recv>.method(...)`` below node → [(receiver_src, call)]."""
    out = []
    for c in calls_in(node):
        if isinstance(c.func, ast.Attribute) and c.func.attr == method:
            out.append((src(c.func.value), c))
    return out


def fire_calls(node, func=None):
    """[(call, receiver_src, event_ast)] for ``X.fire(E, ...)`` / ``X.fireEvent(E, ...)`` below node.
    With *func*, an event that was built into a local first (`e = X.child('complete', …); self.fire(e)`) is looked through."""
    out = []
    for c in calls_in(node):
        if isinstance(c.func, ast.Attribute) and c.func.attr in ('fire', 'fireEvent') and c.args:
            e = c.args[0]
            if func is not None and isinstance(e, ast.Name):
                vs = deref(func, e)
                if len(vs) == 1:
                    e = vs[0]
            out.append((c, src(c.func.value), e))
    return out


def event_ctor_name(e):
    """'write' for write(...); 'child:failure' for X.child('failure', ...); else None."""
    if isinstance(e, ast.Call):
        n = call_name(e)
        if n is None:
            return None
        last = n.split('.')[-1]
        if last == 'child' and e.args and isinstance(e.args[0], ast.Constant):
            return f'child:{e.args[0].value}'
        return last
    return None


def fires(node, name, func=None):
    """Calls below node firing an event constructed as name(...) (or child:<name>)."""
    return [c for (c, _r, e) in fire_calls(node, func) if event_ctor_name(e) == name]


def cfg_nodes_where(func, pred, kinds=('stmt', 'test', 'iter', 'for', 'with')):
    g = func.cfg()
    return [n for n in g.nodes if n.kind in kinds and n.ast is not None and pred(n)]


def node_calls(n):
    """Calls evaluated by a CFG node (for 'for' nodes nothing; for 'with' the context expr)."""
    if n.ast is None or n.kind in ('for', 'except', 'join'):
        return []
    a = n.ast.context_expr if n.kind == 'with' else n.ast
    if isinstance(a, (ast.FunctionDef, ast.AsyncFunctionDef, ast.ClassDef)):
        return []
    return calls_in(a)


def nodes_calling(func, pred):
    """CFG nodes containing a Call c with pred(call_name, call) true."""
    out = []
    for n in func.cfg().nodes:
        for c in node_calls(n):
            if pred(call_name(c), c):
                out.append(n)
                break
    return out


def require(x, what):
    if not x:
        raise AnalysisError(what)
    return x


def in_ctx(n, kind):
    return [a for (k, a) in n.ctx if k == kind]


def with_exprs(n):
    """Source of the context expressions of the with-statements enclosing CFG node n."""
    return [src(a.context_expr) for (k, a) in n.ctx if k == 'with']


# -- comparisons normalised -------------------------------------------------

_NEG = {ast.Lt: ast.GtE, ast.LtE: ast.Gt, ast.Gt: ast.LtE, ast.GtE: ast.Lt, ast.Eq: ast.NotEq, ast.NotEq: ast.Eq,
        ast.Is: ast.IsNot, ast.IsNot: ast.Is, ast.In: ast.NotIn, ast.NotIn: ast.In}
_FLIP = {ast.Lt: ast.Gt, ast.LtE: ast.GtE, ast.Gt: ast.Lt, ast.GtE: ast.LtE, ast.Eq: ast.Eq, ast.NotEq: ast.NotEq,
         ast.Is: ast.Is, ast.IsNot: ast.IsNot}
_SYM = {ast.Lt: '<', ast.LtE: '<=', ast.Gt: '>', ast.GtE: '>=', ast.Eq: '==', ast.NotEq: '!=', ast.Is: 'is',
        ast.IsNot: 'is not', ast.In: 'in', ast.NotIn: 'not in'}


def compare_fact(test_ast, polarity):
    """(left_src, op_symbol, right_src) asserted when *test_ast* evaluates to *polarity* ('T'/'F').

    Single comparisons only; None otherwise.
    """
    e = test_ast
    if not (isinstance(e, ast.Compare) and len(e.ops) == 1):
        return None
    op = type(e.ops[0])
    if polarity == 'F':
        op = _NEG.get(op)
        if op is None:
            return None
    sym = _SYM[op]
    l_, r_ = e.left, e.comparators[0]
    # canonical orientation: a constant operand goes to the right (`200 > x` is read as `x < 200`)
    flip = {'<': '>', '<=': '>=', '>': '<', '>=': '<=', '==': '==', '!=': '!=', 'is': 'is', 'is not': 'is not'}
    if isinstance(l_, ast.Constant) and not isinstance(r_, ast.Constant) and sym in flip:
        return (src(r_), flip[sym], src(l_))
    return (src(l_), sym, src(r_))


def fact_matches(fact, left, ops, right):
    """Does fact (l, op, r) state ``left <op> right`` for some op in *ops* (also in flipped form)?"""
    if fact is None:
        return False
    l, op, r = fact
    if l == left and r == right and op in ops:
        return True
    flipped = {'<': '>', '<=': '>=', '>': '<', '>=': '<=', '==': '==', '!=': '!=', 'is': 'is', 'is not': 'is not'}
    if op in flipped and l == right and r == left and flipped[op] in ops:
        return True
    return False


def truth_fact(test_ast, polarity):
    """('truthy'|'falsy', src) for a bare-expression test."""
    return ('truthy' if polarity == 'T' else 'falsy', src(test_ast))


def guarded_by(cfg, target, edge_pred, *, start=None, exc='*', weak=False):
    """None if every path entry→target uses an edge with edge_pred true; else a counterexample path."""
    return Q.reachable_without(cfg, target, avoid_edge=edge_pred, start=start, exc=exc, weak=weak)


def test_edge(pred):
    """Edge predicate: edge leaves a test node and pred(test_ast, 'T'/'F') holds."""
    def f(e):
        if not (e.src.kind == 'test' and e.kind in ('T', 'F')):
            return False
        if pred(e.src.ast, e.kind):
            return True
        # a flag (`drained = not self._buffer … if drained: … if drained:`): its edges assert what the test it was bound to asserted when it was evaluated
        if e.src.flag is not None and e.src.cfg is not None:
            return _holds(pred, e.src.cfg.flag_defs.get(e.src.flag), e.kind)
        return False
    return f


def _holds(pred, t, pol, depth=0):
    """Does the outcome *pol* of test *t* put control on an edge of the kind *pred* describes?  A true conjunction (false disjunction) makes all its parts true
    (false): one matching part is enough.  A true disjunction (false conjunction) makes one of its parts true (false), we do not know which: every part must match."""
    if t is None or depth > 4:
        return False
    if isinstance(t, ast.Call) and isinstance(t.func, ast.Name) and t.func.id == 'bool' and len(t.args) == 1 and not t.keywords:
        return _holds(pred, t.args[0], pol, depth + 1)
    if isinstance(t, ast.UnaryOp) and isinstance(t.op, ast.Not):
        return _holds(pred, t.operand, 'F' if pol == 'T' else 'T', depth + 1)
    if isinstance(t, ast.BoolOp):
        all_parts = (isinstance(t.op, ast.And) and pol == 'T') or (isinstance(t.op, ast.Or) and pol == 'F')
        rs = [_holds(pred, v, pol, depth + 1) for v in t.values]
        return any(rs) if all_parts else all(rs)
    return bool(pred(t, pol))


def _atoms(t, pol, depth=0):
    """The test atoms (expression, polarity) that are known when test *t* came out *pol*: a conjunction that is true (a disjunction that is false) gives all
    its parts; `not` flips; `bool(x)` is x."""
    if t is None or depth > 4:
        return
    if isinstance(t, ast.Call) and isinstance(t.func, ast.Name) and t.func.id == 'bool' and len(t.args) == 1 and not t.keywords:
        yield from _atoms(t.args[0], pol, depth + 1)
        return
    if isinstance(t, ast.UnaryOp) and isinstance(t.op, ast.Not):
        yield from _atoms(t.operand, 'F' if pol == 'T' else 'T', depth + 1)
        return
    if isinstance(t, ast.BoolOp):
        if (isinstance(t.op, ast.And) and pol == 'T') or (isinstance(t.op, ast.Or) and pol == 'F'):
            for v in t.values:
                yield from _atoms(v, pol, depth + 1)
        return
    yield t, pol


def path_lines(path, start=None):
    return Q.describe_path(path, start)


def local_feeds(func, var):
    """Expressions whose value is put into local *var*: assignments, .update/.add/.append/.extend
    arguments, augmented assignments, loop targets (the iterable)."""
    out = []
    for n in walk_no_defs(func.node):
        if isinstance(n, ast.Assign):
            for t in n.targets:
                if isinstance(t, ast.Name) and t.id == var:
                    out.append(n.value)
        elif isinstance(n, ast.AugAssign) and isinstance(n.target, ast.Name) and n.target.id == var:
            out.append(n.value)
        elif isinstance(n, ast.For) and isinstance(n.target, ast.Name) and n.target.id == var:
            out.append(n.iter)
        elif isinstance(n, ast.Call) and isinstance(n.func, ast.Attribute) and isinstance(n.func.value, ast.Name) \
                and n.func.value.id == var and n.func.attr in ('update', 'add', 'append', 'extend', 'appendleft', 'insert'):
            out.extend(n.args)
    return out


def flows_from(func, var, depth=4):
    """Transitive closure of local_feeds: all expressions that may end up in *var*."""
    seen_vars = set()
    exprs = []
    work = [var]
    while work and depth >= 0:
        nxt = []
        for v in work:
            if v in seen_vars:
                continue
            seen_vars.add(v)
            for e in local_feeds(func, v):
                exprs.append(e)
                for w in ast.walk(e):
                    if isinstance(w, ast.Name) and w.id not in seen_vars:
                        nxt.append(w.id)
        work = nxt
        depth -= 1
    return exprs


def deref(func, expr, depth=2):
    """If *expr* is a local that is only ever bound by plain assignments, the expressions assigned to it (transitively); else [expr].
    `task = (a, b, c); self.registerTask(task)` is read as `self.registerTask((a, b, c))`."""
    if not isinstance(expr, ast.Name) or depth <= 0:
        return [expr]
    feeds = []
    for n in walk_no_defs(func.node):
        if isinstance(n, ast.Assign) and len(n.targets) == 1 and isinstance(n.targets[0], ast.Name) and n.targets[0].id == expr.id:
            feeds.append(n.value)
        elif isinstance(n, (ast.AugAssign, ast.For, ast.NamedExpr, ast.With)) and any(isinstance(w, ast.Name) and w.id == expr.id and isinstance(w.ctx, ast.Store) for w in ast.walk(n)):
            if not isinstance(n, (ast.For, ast.With)) or any(isinstance(w, ast.Name) and w.id == expr.id for w in ast.walk(getattr(n, 'target', None) or n.items[0].optional_vars or ast.Pass())):
                return [expr]
    if not feeds or expr.id in func.params:
        return [expr]
    out = []
    for f_ in feeds:
        out.extend(deref(func, f_, depth - 1))
    return out


# -- regions ------------------------------------------------------------------


def region(cfg, kind, astnode):
    """CFG nodes built while inside the construct (kind, astnode) — e.g. ('except', handler) or ('with', item)."""
    return [n for n in cfg.nodes if any(k == kind and a is astnode for (k, a) in n.ctx)]


def escapes_region(cfg, start, reg, is_target, *, exc='*', weak=False, avoid_edge=None, exits=('exit', 'raise')):
    """Path from *start* leaving the region (or the function) without passing a target node, or None."""
    regset = set(reg)
    return Q.escapes(cfg, [start], is_target, exits=exits, exc=exc, weak=weak, avoid_edge=avoid_edge,
                     extra_exit=lambda n: n not in regset and n.kind not in ('exit', 'raise'))


def except_nodes(cfg):
    return [n for n in cfg.nodes if n.kind == 'except']


def is_catch_all(hnode):
    from .cfg import handler_names
    names = handler_names(hnode.ast)
    return names is None or 'BaseException' in names


def enclosing_try_handlers(cfg, node):
    """except-nodes of the innermost try whose *body* contains node."""
    tries = [a for (k, a) in node.ctx if k == 'try']
    if not tries:
        return []
    t = tries[-1]
    return [h for h in except_nodes(cfg) if h.ast in t.handlers]


def expand_alias(func, cfg_node, expr_src, depth=2):
    """Rewrite the leading local of `a.b.c` through its single reaching definition when that is a plain copy of an
    attribute chain (`root = self.root` … `root.flag = True` ≡ `self.root.flag = True`)."""
    head, _, rest = expr_src.partition('.')
    if not head.isidentifier() or head == 'self' or depth <= 0:
        return expr_src
    g = func.cfg()
    defs = Q.reaching_defs(g, cfg_node, head)
    if len(defs) != 1 or defs[0].kind != 'stmt' or not isinstance(defs[0].ast, ast.Assign) or len(defs[0].ast.targets) != 1:
        return expr_src
    v = defs[0].ast.value
    if dotted(v) is None and not (isinstance(v, ast.Subscript) and dotted(v.value) is not None):
        return expr_src
    new = src(v) + ('.' + rest if rest else '')
    return expand_alias(func, defs[0], new, depth - 1)
