"""Debug helper: apply one text replacement (or reverse a repo commit) on a scratch copy and run a check.
usage: tools_mutant.py PROP FILE OLD NEW   |   tools_mutant.py PROP --revert COMMIT"""
import os, shutil, subprocess, sys, tempfile
prop = sys.argv[1]
d = tempfile.mkdtemp(prefix='vmut')
try:
    shutil.copytree('/repo/circuits', d + '/circuits', ignore=shutil.ignore_patterns('__pycache__'))
    if sys.argv[2] == '--revert':
        diff = subprocess.check_output(['git', '-C', '/repo', 'show', sys.argv[3], '--', 'circuits'])
        subprocess.run(['patch', '-R', '-p1', '-s', '-d', d], input=diff, check=True)
    else:
        p = os.path.join(d, sys.argv[2])
        s = open(p).read()
        old, new = sys.argv[3].encode().decode('unicode_escape'), sys.argv[4].encode().decode('unicode_escape')
        assert s.count(old) == 1, f'{s.count(old)} occurrences'
        open(p, 'w').write(s.replace(old, new))
        compile(open(p).read(), p, "exec")
    r = subprocess.run(['/verif/check', prop, '--root', d, '--no-evidence'], capture_output=True, text=True)
    print(r.stdout[-3000:], r.stderr[-2000:], 'rc=', r.returncode)
finally:
    shutil.rmtree(d)
