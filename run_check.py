"""Driver: ./check <ID> [--tier quick|thorough] [--root DIR] [--only RULE] [--replay FILE]

exit 0  every obligation discharged (known findings are printed as KNOWN-FINDING)
exit 1  VIOLATION property=<id> replay=<path>   (one line per unlisted violation)
exit 2  ANALYSIS-ERROR ...                     (anchor missing / unsupported syntax / internal error)
"""

import argparse
import importlib
import json
import os
import sys
import traceback

HERE = os.path.dirname(os.path.abspath(__file__))
sys.path.insert(0, HERE)
sys.dont_write_bytecode = True

from sa import AnalysisError  # noqa: E402
from sa.model import Repo  # noqa: E402
from sa.report import Check  # noqa: E402


def run(prop, tier, root, only=None, write=True, quiet=False):
    mod = importlib.import_module(f'rules.{prop.lower()}')
    repo = Repo(root)
    chk = Check(prop, tier, root, seed=int(os.environ.get('VERIF_SEED', '0') or 0))
    chk.only = only
    mod.run(repo, chk)
    if only:
        chk.obligations = [o for o in chk.obligations if o.rule == only or o.rule.startswith(only)]
    if not only:
        minimum = getattr(mod, 'MIN_OBLIGATIONS', 1)
        if len(chk.obligations) < minimum:
            raise AnalysisError(f'{prop}: only {len(chk.obligations)} obligations generated, '
                                f'{minimum} were confirmed by hand — a rule lost its sites')
    if tier == 'thorough' and not only and root == '/repo':
        try:
            from selftest import runner

            chk.selftest = runner.run_for(prop)
        except ImportError:
            chk.selftest = {'status': 'selftest runner not available'}
        try:
            from selftest import metamorph

            chk.selftest = dict(chk.selftest or {}, metamorphic=metamorph.run_for(prop, root, sorted(chk.stats['functions_analysed'])))
        except ImportError:
            pass
    return chk.finish(write=write, quiet=quiet)


def main():
    ap = argparse.ArgumentParser()
    ap.add_argument('prop')
    ap.add_argument('--tier', default=os.environ.get('VERIF_TIER', 'quick'), choices=['quick', 'thorough'])
    ap.add_argument('--root', default='/repo')
    ap.add_argument('--only', default=None)
    ap.add_argument('--replay', default=None)
    ap.add_argument('--no-evidence', action='store_true')
    a = ap.parse_args()
    prop, only = a.prop, a.only
    root = a.root
    if a.replay:
        with open(a.replay) as f:
            r = json.load(f)
        prop, only = r['property'], r['rule']
    try:
        rc = run(prop, a.tier, root, only, write=not a.no_evidence and not only)
    except AnalysisError as e:
        print(f'ANALYSIS-ERROR property={prop} {e}')
        sys.exit(2)
    except Exception:
        print(f'ANALYSIS-ERROR property={prop} internal error')
        traceback.print_exc(file=sys.stdout)
        sys.exit(2)
    sys.exit(rc)


if __name__ == '__main__':
    main()
