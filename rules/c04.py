"""C04 — handler results, success/failure/exception feedback and error isolation.

a  every site running handler code sits in a try with KeyboardInterrupt/SystemExit clauses followed by a catch-all
   clause that cannot re-raise
b  both catch-all clauses (dispatcher, task stepper) set the error flag, fire <name>_failure exactly when requested
   and `exception` on every path, each at most once
c  `.errors = True` is only stored inside except clauses
d  success is gated by a failure record that survives until the event completes; error paths pass the error on
e  done/success/complete processing only when no handler of the event is still suspended
f  a non-None, non-generator result reaches the value setter on every path (dispatcher and stepper)
"""

import ast

from sa import AnalysisError, pat
from sa import query as Q
from sa.cfg import handler_names
from sa.model import call_name, calls_in, src, walk_no_defs

from .common import MANAGER, loc, need

MIN_OBLIGATIONS = 30


def handler_sites(func, repo=None):
    """CFG nodes that run handler code: in the dispatcher a call of the handler loop variable (or of a helper that is
    handed the loop variable and calls it); in the stepper next/send/throw on a task generator."""
    g = func.cfg()
    out = []
    if func.name == '_dispatcher':
        from .common import dispatcher_loop
        _loop, _v, sites, _helper = dispatcher_loop(repo or func.module.repo, func)
        return sites
    for m in g.nodes:
        if m.kind in ('stmt', 'test'):
            for c in pat.node_calls(m):
                nm = call_name(c) or ''
                if nm == 'next' or nm.split('.')[-1] in ('send', 'throw') and not nm.startswith('self.') or (
                        func.name != 'processTask' and nm in func.params):
                    out.append(m)
                    break
    return out


def catch_all_clause(g, site):
    for h in pat.enclosing_try_handlers(g, site):
        if pat.is_catch_all(h):
            return h
    return None


def run(repo, chk):
    chk.not_decided = [
        'single-vs-list shape and order of accumulated values (Value.setValue is data, not control)',
        'Value.errors being overwritten by a nested Value returned by a later handler',
    ]
    chk.rule('C04.a', 'each handler invocation / generator step is enclosed by a try whose catch-all clause comes after the '
                      'KeyboardInterrupt and SystemExit clauses and contains no raise')
    chk.rule('C04.b', 'the catch-all clause sets value.errors, fires <name>_failure under the failure flag only and `exception` '
                      'on every path, each from exactly one site')
    chk.rule('C04.c', '`X.errors = True` occurs only inside except clauses')
    chk.rule('C04.d', 'the success fire is gated by a per-event failure record written whenever _eventDone is told about an error, '
                      'before the waiting-handlers gate; calls from error clauses pass the error')
    chk.rule('C04.e', 'done, success and completion processing are dominated by "no handler of the event is suspended"')
    chk.rule('C04.f', 'after a handler returned, only `is None` and "is a generator" let the result bypass the value setter')
    chk.rule('C04.g', 'Value.setValue keeps a single result as such and accumulates further results in a list, in order, on every path')
    d = repo.func(MANAGER, 'Manager._dispatcher')
    t = repo.func(MANAGER, 'Manager.processTask')
    e = repo.func(MANAGER, 'Manager._eventDone')
    for f in (d, t, e):
        chk.touch(f)
    rule_a_b(chk, d, d.params[1])
    rule_a_b(chk, t, t.params[1])
    rule_c(repo, chk)
    rule_d(repo, chk, d, t, e)
    rule_e(chk, e)
    rule_dispatch_pending(repo, chk, d)
    rule_f(chk, d, t)
    rule_g(repo, chk)
    rule_h(repo, chk, d)
    rule_stale_tasks(repo, chk)
    rule_refire(repo, chk)


def rule_stale_tasks(repo, chk):
    """tick() steps a snapshot of the task set; a step may run a nested tick()/flush() (supported: a633c0f) that finishes other tasks of the snapshot.  Stepping such a
    task again makes its generator raise StopIteration a second time: the stepper takes the waiting count of the event down once more and declares it done
    (success fired) while another handler is still suspended."""
    chk.rule('C04.k', 'tick() steps only tasks that are still registered: every entry of the snapshot it iterates is looked up in the live task set before it is stepped')
    t = repo.func(MANAGER, 'Manager.tick')
    chk.touch(t)
    g = t.cfg()
    steps = [n for n in g.nodes if n.kind == 'stmt' and any(r == 'self' for r, _c in pat.method_calls(n.ast, 'processTask'))]
    need(steps, 'C04.k: tick() never steps a task')
    for n in steps:
        loops = [a for k, a in n.ctx if k == 'loop']
        snap = bool(loops) and any(x in src(loops[-1].iter) for x in ('.copy()', 'list(', 'tuple(', '[:]'))
        tv = src(loops[-1].target) if loops else None
        live = pat.test_edge(lambda tt, pol: tv is not None and (lambda fc: fc is not None and fc[0] == tv and fc[1] == 'in' and fc[2].endswith('_tasks'))(pat.compare_fact(tt, pol)))
        q = pat.guarded_by(g, n, live) if snap else None
        chk.ob('k', t.ref, 'a task taken from the snapshot is stepped only if it is still in the task set (a nested tick() of an earlier step may have finished it)',
               (not snap) or q is None, loc(t, n.ast), path=pat.path_lines(q) if q else None, discr='stale-task-not-stepped')


def rule_refire(repo, chk):
    """An event object may be fired again after its dispatch is over (a retry; a persistent Timer re-fires one object): what _eventDone remembers about the failed
    dispatch must not decide the next one."""
    chk.rule('C04.l', 'the per-event failure record that gates <name>_success is cleared when the event is fired (again)')
    e = repo.func(MANAGER, 'Manager._eventDone')
    marks = {a for n in walk_no_defs(e.node) if isinstance(n, ast.Assign) for r, a, v in pat.attr_store(n) if pat.is_const(v, True) and a.startswith('_') and r == e.params[1]}
    need(marks, 'C04.l: _eventDone keeps no failure record')
    fe = repo.func(MANAGER, 'Manager.fireEvent')
    chk.touch(fe)
    g = fe.cfg()
    ev = fe.params[1]
    for mk in sorted(marks):
        clears = [n for n in g.nodes if n.kind == 'stmt' and any(r == ev and a == mk and pat.is_const(v, False) for r, a, v in pat.attr_store(n.ast))]
        queued = [n for n in g.nodes if n.kind == 'stmt' and any(r.endswith('root') or r == 'self' for r, _c in pat.method_calls(n.ast, '_fire'))]
        p = Q.reachable_without(g, queued[0], avoid_node=lambda n: n in clears) if queued else None
        chk.ob('l', fe.ref, f'`{mk}` (set by _eventDone when a handler raised) is cleared before the event is queued again', bool(clears) and bool(queued) and p is None,
               loc(fe, (clears or queued or [g.entry])[0].ast) if (clears or queued) else loc(fe, fe.node), discr=f'failure-record-reset:{mk}')


def rule_a_b(chk, f, ev):
    from .common import invocation_context
    f0 = f
    f, inner = invocation_context(f.module.repo, f)
    if f is not f0:
        chk.touch(f)
        # the helper receives the event as one of its parameters
        ev = f.params[1] if len(f.params) > 1 else ev
        for c in calls_in(f0.node):
            if isinstance(c.func, ast.Attribute) and c.func.attr == f.name:
                for i, a_ in enumerate(c.args):
                    if src(a_) == f0.params[1] and i + 1 < len(f.params):
                        ev = f.params[i + 1]
    g = f.cfg()
    sites = inner if inner is not None else handler_sites(f)
    need(sites, f'C04.a: no handler invocation site in {f.ref}')
    clauses = []
    for s in sites:
        hs = pat.enclosing_try_handlers(g, s)
        ca = catch_all_clause(g, s)
        chk.ob('a', f.ref, 'site running handler code is enclosed by a try with a catch-all clause', ca is not None, loc(f, s.ast),
               detail=f'`{s.text[:80]}`', discr=f'catch-all:{_site_key(s)}')
        if ca is None:
            continue
        names = [handler_names(h.ast) for h in hs]
        idx = hs.index(ca)
        before = [n for ns in names[:idx] if ns for n in ns]
        chk.ob('a', f.ref, 'KeyboardInterrupt and SystemExit clauses precede the catch-all clause',
               'KeyboardInterrupt' in before and 'SystemExit' in before, loc(f, ca.ast), discr=f'ki-se-first:{_site_key(s)}')
        if ca not in clauses:
            clauses.append(ca)
    for ca in clauses:
        reg = pat.region(g, 'except', ca.ast)
        raises = [n for n in reg if n.kind == 'stmt' and isinstance(n.ast, ast.Raise)]
        chk.ob('a', f.ref, 'the catch-all clause does not re-raise', not raises, loc(f, ca.ast), discr='no-reraise')
        # b: feedback
        def _recv(n, r):
            return pat.expand_alias(f, n, r)        # `result = event.value; result.errors = True`
        errs = [n for n in reg if n.kind == 'stmt' and any(_recv(n, r).endswith('.value') and _recv(n, r).startswith(ev) for r in pat.stores_attr(n.ast, 'errors', True))]
        p = pat.escapes_region(g, ca, reg, lambda n: n in errs)
        chk.ob('b', f.ref, 'the catch-all clause marks the value as erroneous on every path', bool(errs) and p is None, loc(f, ca.ast),
               path=pat.path_lines(p, ca) if p else None, discr='errors-flag')
        exc_fires = [n for n in reg if n.kind == 'stmt' and pat.fires(n.ast, 'exception')]
        p = pat.escapes_region(g, ca, reg, lambda n: n in exc_fires)
        chk.ob('b', f.ref, 'the catch-all clause fires `exception` on every path', bool(exc_fires) and p is None, loc(f, ca.ast),
               path=pat.path_lines(p, ca) if p else None, discr='exception-fired')
        chk.ob('b', f.ref, '`exception` is fired from exactly one site of the clause, outside loops', len(exc_fires) == 1 and
               not any(k == 'loop' and a not in [x for (kk, x) in ca.ctx if kk == 'loop'] for n in exc_fires for (k, a) in n.ctx),
               loc(f, ca.ast), discr='exception-once')
        for n in exc_fires:
            c = pat.fires(n.ast, 'exception')[0]
            kw = {k.arg: src(k.value) for k in c.args[0].keywords if k.arg}
            chk.ob('b', f.ref, '`exception` names the failed event', kw.get('fevent') == ev, loc(f, c), detail=f'`{src(c)[:100]}`',
                   discr='exception-fevent')
        fail_fires = [n for n in reg if n.kind == 'stmt' and pat.fires(n.ast, 'child:failure')]
        chk.ob('b', f.ref, '<name>_failure is fired from exactly one site of the clause', len(fail_fires) == 1, loc(f, ca.ast),
               discr='failure-once')
        flag_edge = pat.test_edge(lambda tt, pol: pol == 'T' and src(tt) == f'{ev}.failure')
        for n in fail_fires:
            q = pat.guarded_by(g, n, flag_edge, start=ca)
            chk.ob('b', f.ref, '<name>_failure is fired only if the event requested failure feedback', q is None, loc(f, n.ast),
                   path=pat.path_lines(q, ca) if q else None, discr='failure-guarded')
            c = pat.fires(n.ast, 'child:failure')[0]
            chans = [src(a) for a in c.args[1:]]
            chk.ob('b', f.ref, '<name>_failure goes to the channels of the failed event', chans == [f'*{ev}.channels'], loc(f, c),
                   detail=f'channels {chans}', discr='failure-channels')
        # requested ⇒ fired
        tests = [n for n in reg if n.kind == 'test' and src(n.ast) == f'{ev}.failure']
        bad = None
        for tnode in tests:
            for e2 in tnode.succ:
                if e2.kind == 'T' and e2.dst not in fail_fires:
                    bad = pat.escapes_region(g, e2.dst, reg, lambda n: n in fail_fires)
        p = pat.escapes_region(g, ca, reg, lambda n: n in tests) if tests else [None]
        chk.ob('b', f.ref, 'every path of the clause consults the failure flag and, when set, fires <name>_failure',
               bool(tests) and p is None and bad is None, loc(f, ca.ast), path=pat.path_lines(bad or p, ca) if (bad or p) and tests else None,
               discr='failure-when-requested')


def _site_key(s):
    for c in pat.node_calls(s):
        nm = call_name(c) or ''
        if nm == 'next' or nm.split('.')[-1] in ('send', 'throw'):
            return nm.split('.')[-1]
    return 'call'


def rule_c(repo, chk):
    m = repo.module(MANAGER)
    n_sites = 0
    for f in m.all_functions:
        if getattr(f, 'absorbed', False):
            continue        # a helper that only exists inlined in its callers (sa/inline.py): judged there
        for n in walk_no_defs(f.node):
            if isinstance(n, ast.Assign) and pat.stores_attr(n, 'errors', True):
                n_sites += 1
                inside = False
                p = getattr(n, '_parent', None)
                while p is not None and p is not f.node:
                    if isinstance(p, ast.ExceptHandler):
                        inside = True
                    p = getattr(p, '_parent', None)
                chk.ob('c', f.ref, '`errors = True` is stored inside an except clause', inside, loc(f, n), discr=f'errors-store:{f.name}')
    need(n_sites >= 2, 'C04.c: fewer than two `errors = True` stores in manager.py')


def rule_d(repo, chk, d, t, e):
    g = e.cfg()
    ev, err = e.params[1], e.params[2]
    succ = [n for n in g.nodes if n.kind == 'stmt' and pat.fires(n.ast, 'child:success')]
    need(succ, 'C04.d: _eventDone never fires <name>_success')
    # failure record: attribute of the event stored True under `err is not None`
    recs = {}
    for n in g.nodes:
        if n.kind == 'stmt':
            for recv, attr, val in pat.attr_store(n.ast):
                if recv == ev and pat.is_const(val, True):
                    recs.setdefault(attr, []).append(n)
    gate = [n for n in g.nodes if n.kind == 'test' and src(n.ast) == f'{ev}.waitingHandlers']
    rec_attr = None
    for attr, nodes in recs.items():
        rec_attr = attr
    chk.ob('d', e.ref, '_eventDone keeps a per-event record of a failure', rec_attr is not None, loc(e, e.node), discr='record-exists')
    if rec_attr:
        stores = recs[rec_attr]
        err_edge = pat.test_edge(lambda tt, pol: pat.fact_matches(pat.compare_fact(tt, pol), err, ('is not', '!='), 'None') or
                                 (pol == 'T' and src(tt) == err))
        # told about an error ⇒ recorded before the waiting gate
        bad = None
        for tn in g.nodes:
            if tn.kind == 'test':
                for e2 in tn.succ:
                    if err_edge(e2) and e2.dst not in stores:
                        for gn in gate:
                            q = Q.reachable_without(g, gn, start=e2.dst, avoid_node=lambda n: n in stores)
                            if q is not None:
                                bad = q
        no_err_test = not any(err_edge(e2) for tn in g.nodes for e2 in tn.succ)
        for gn in gate:
            q = Q.reachable_without(g, gn, avoid_node=lambda n: n.kind == 'test' and err in Q.names_used(n.ast))
            if q is not None:
                no_err_test = True
                bad = q
        chk.ob('d', e.ref, 'an error passed to _eventDone is recorded on the event before the waiting-handlers gate', bad is None and not no_err_test,
               loc(e, stores[0].ast), path=pat.path_lines(bad) if bad else None, discr='record-before-gate')
        for n in succ:
            def no_failure(tt, pol):
                if pol != 'F':
                    return False
                if src(tt) == f'{ev}.{rec_attr}':
                    return True
                # a local computed as `… or event.<record>`: false only if the record is false
                if isinstance(tt, ast.Name):
                    vs = pat.deref(e, tt)
                    return bool(vs) and all(isinstance(x, ast.BoolOp) and isinstance(x.op, ast.Or) and any(src(o) == f'{ev}.{rec_attr}' for o in x.values) for x in vs)
                return False
            q = pat.guarded_by(g, n, pat.test_edge(no_failure))
            chk.ob('d', e.ref, '<name>_success is fired only when no failure is recorded for the event', q is None, loc(e, n.ast),
                   path=pat.path_lines(q) if q else None, discr='success-reads-record')
        # the record defaults to False for every event (class attribute)
        evcls = repo.cls('circuits/core/events.py', 'Event')
        dflt = evcls.class_attrs.get(rec_attr)
        chk.ob('d', evcls.ref, 'the failure record defaults to False on the Event class', dflt is not None and pat.is_const(dflt, False),
               evcls.module.relpath, discr='record-default')
    for n in succ:
        q = pat.guarded_by(g, n, pat.test_edge(lambda tt, pol: pol == 'T' and src(tt) == f'{ev}.success'))
        chk.ob('d', e.ref, '<name>_success is fired only if requested', q is None, loc(e, n.ast), path=pat.path_lines(q) if q else None,
               discr='success-requested')
    chk.ob('d', e.ref, '<name>_success is fired from exactly one site', len(succ) == 1, loc(e, e.node), discr='success-once')
    # every path through a catch-all clause records the failure (directly, or by telling _eventDone about the error)
    from .common import invocation_context
    for f in (d, t):
        gf = f.cfg()
        fev = f.params[1]
        sites = handler_sites(f)
        cf, inner = invocation_context(f.module.repo, f)
        if cf is not f:
            # the catch-all lives in a helper: the helper must hand the error back and the dispatcher must keep it (checked below)
            continue
        seen_clauses = []
        for s_ in sites:
            ca = catch_all_clause(gf, s_)
            if ca is None or ca in seen_clauses:
                continue
            seen_clauses.append(ca)
            rec_nodes = [n for n in gf.nodes if n.kind == 'stmt' and (
                any(len(c.args) >= 2 and src(c.args[0]) == fev for _r, c in pat.method_calls(n.ast, '_eventDone')) or
                (rec_attr is not None and fev in pat.stores_attr(n.ast, rec_attr, True)))]
            p = Q.escapes(gf, [ca], lambda n: n in rec_nodes, exits=('exit',))
            chk.ob('d', f.ref, 'a handler failure is recorded for the event on every path (whatever else is still pending)', p is None and bool(rec_nodes),
                   loc(f, ca.ast), path=pat.path_lines(p, ca) if p else None, discr='failure-always-recorded')
    # call sites in catch-all clauses pass the error they caught
    for f in (d, t):
        gf = f.cfg()
        fev = f.params[1]
        calls = [n for n in gf.nodes if n.kind == 'stmt' and any(True for _r, _c in pat.method_calls(n.ast, '_eventDone'))]
        need(calls, f'C04.d: {f.ref} never calls _eventDone')
        for n in calls:
            c = [c for _r, c in pat.method_calls(n.ast, '_eventDone')][0]
            in_ca = [a for (k, a) in n.ctx if k == 'except' and (handler_names(a) is None or 'BaseException' in handler_names(a))]
            if in_ca:
                ok = len(c.args) >= 2 and _is_exc_info(gf, n, c.args[1], in_ca[-1])
                chk.ob('d', f.ref, 'the completion call made from the catch-all clause passes the caught error', ok, loc(f, c),
                       detail=f'`{src(c)}`', discr='error-passed')
        if f is d:
            # the dispatcher's err variable is assigned in the catch-all clause and passed on
            last = calls[-1]
            c = [c for _r, c in pat.method_calls(last.ast, '_eventDone')][0]
            ok = len(c.args) >= 2
            if ok:
                ev_ = src(c.args[1])
                sites = handler_sites(f)
                cf, _inner = invocation_context(f.module.repo, f)
                if cf is f:
                    ca = catch_all_clause(gf, sites[0]) if sites else None
                    assigned = ca is not None and any(ev_ in Q.node_defs(n2) and _binds_exc_info(gf, n2) for n2 in pat.region(gf, 'except', ca.ast)
                                                     if n2.kind == 'stmt')
                else:
                    assigned = any(ev_ in Q.node_defs(n2) for n2 in sites)
                # the error must survive the remaining handlers: inside the loop it is only ever (re)bound by the catch-all clause
                rebinds = [n2 for n2 in gf.nodes if n2.kind in ('stmt', 'for') and ev_ in Q.node_defs(n2) and any(k == 'loop' for k, _a in n2.ctx)
                           and not any(k == 'except' for k, _a in n2.ctx)]
                reset_in_loop = bool(rebinds)
                ok = assigned and not reset_in_loop
            chk.ob('d', f.ref, 'the dispatcher hands the error caught in its catch-all clause to _eventDone (not reset between handlers)',
                   ok, loc(f, c), detail=f'`{src(c)}`', discr='dispatcher-err')
            chk.ob('d', f.ref, 'the event passed to _eventDone is the dispatched event', src(c.args[0]) == fev, loc(f, c), discr='dispatcher-ev',
                   nontrivial=False)


def _is_exc_info(g, node, arg, handler_ast, depth=0):
    if isinstance(arg, ast.Call):
        return 'exc_info' in src(arg)
    if isinstance(arg, ast.Name):
        defs = Q.reaching_defs(g, node, arg.id)
        return bool(defs) and all(dn.kind == 'stmt' and _binds_exc_info(g, dn, depth) for dn in defs)
    return False


def _binds_exc_info(g, dn, depth=0):
    """The statement binds the exception being handled: `err = _exc_info()`, or a copy of a local bound that way (a helper's result)."""
    if 'exc_info' in src(dn.ast):
        return True
    v = dn.ast.value if isinstance(dn.ast, ast.Assign) else None
    return depth < 3 and isinstance(v, ast.Name) and _is_exc_info(g, dn, v, None, depth + 1)


def rule_e(chk, e):
    g = e.cfg()
    ev = e.params[1]
    gate_edge = pat.test_edge(lambda tt, pol: (pol == 'F' and src(tt) == f'{ev}.waitingHandlers') or
                              pat.fact_matches(pat.compare_fact(tt, pol), f'{ev}.waitingHandlers', ('==', '<='), '0'))
    targets = []
    for n in g.nodes:
        if n.kind != 'stmt':
            continue
        for label in ('child:done', 'child:success', 'child:complete'):
            if pat.fires(n.ast, label):
                targets.append((n, label))
        if any(True for _r, _c in pat.method_calls(n.ast, '_eventComplete')):
            targets.append((n, 'completion-walk'))
    need(len(targets) >= 3, 'C04.e: _eventDone lacks done/success/completion processing')
    for n, label in targets:
        q = pat.guarded_by(g, n, gate_edge)
        chk.ob('e', e.ref, f'{label} happens only when no handler of the event is suspended', q is None, loc(e, n.ast),
               path=pat.path_lines(q) if q else None, discr=f'gate:{label}')
    # done carries the value; done requested by alert_done
    for n, label in targets:
        if label == 'child:done':
            q = pat.guarded_by(g, n, pat.test_edge(lambda tt, pol: pol == 'T' and src(tt) == f'{ev}.alert_done'))
            chk.ob('e', e.ref, '<name>_done is fired only when a waiter asked for it', q is None, loc(e, n.ast), discr='done-requested')
    # every path with no waiting handlers reaches the completion walk
    walks = [n for n, label in targets if label == 'completion-walk']
    p = Q.escapes(g, [g.entry], lambda n: n in walks, avoid_edge=pat.test_edge(
        lambda tt, pol: (pol == 'T' and src(tt) == f'{ev}.waitingHandlers') or
        pat.fact_matches(pat.compare_fact(tt, pol), f'{ev}.waitingHandlers', ('!=', '>'), '0')))
    chk.ob('e', e.ref, 'when no handler is suspended every path reaches the completion walk', p is None and bool(walks), loc(e, e.node),
           path=pat.path_lines(p) if p else None, discr='walk-reached')


def rule_dispatch_pending(repo, chk, d):
    """The gate of rule e ("no handler of the event is suspended") is a counter.  While the dispatcher is still running the handlers of the event, the counter must
    not be able to reach zero through a generator handler that is finished by a nested tick()/flush() of one of those handlers: the dispatch itself is counted."""
    from .common import dispatcher_loop
    loop, _v, sites, _helper = dispatcher_loop(repo, d)
    g = d.cfg()
    ev = d.params[1]
    inc = [n for n in g.nodes if n.kind == 'stmt' and isinstance(n.ast, ast.AugAssign) and src(n.ast.target) == f'{ev}.waitingHandlers' and isinstance(n.ast.op, ast.Add)
           and pat.is_const(n.ast.value, 1) and not any(k == 'loop' for k, _a in n.ctx)]
    dec = [n for n in g.nodes if n.kind == 'stmt' and isinstance(n.ast, ast.AugAssign) and src(n.ast.target) == f'{ev}.waitingHandlers' and isinstance(n.ast.op, ast.Sub)
           and pat.is_const(n.ast.value, 1) and not any(k == 'loop' for k, _a in n.ctx)]
    dones = [n for n in g.nodes if n.kind == 'stmt' and any(r == 'self' for r, _c in pat.method_calls(n.ast, '_eventDone'))]
    ok = bool(inc) and bool(dec)
    p = None
    for s_ in sites:
        p = p or Q.reachable_without(g, s_, avoid_node=lambda n: n in inc, weak=True)
    for dn in dones:
        p = p or Q.reachable_without(g, dn, start=loop, avoid_node=lambda n: n in dec)
    late = any(Q.reaches(dc, s_) for dc in dec for s_ in sites)
    chk.ob('e', d.ref, 'while the handlers of an event are being run the dispatch itself is counted as a pending handler (raised before the first handler, lowered after the '
                       'last, before the event is reported done): a generator handler finished by a nested tick() cannot make the event done early', ok and p is None and not late,
           loc(d, (inc or dec or [loop])[0].ast), path=pat.path_lines(p) if p else None, discr='dispatch-counts-as-pending')


def rule_f(chk, d, t):
    # dispatcher
    g = d.cfg()
    ev = d.params[1]
    sites = handler_sites(d)
    loop = [n for n in g.nodes if n.kind == 'for' and any(s for s in sites if ('loop', n.ast) in s.ctx)]
    need(loop, 'C04.f: handler loop not found')
    loop = loop[0]
    setters = [n for n in g.nodes if n.kind == 'stmt' and f'{ev}.value' in pat.stores_attr(n.ast, 'value')]
    need(setters, 'C04.f: the dispatcher never stores a result')
    for s in sites:
        rv = None
        if isinstance(s.ast, ast.Assign) and isinstance(s.ast.targets[0], ast.Name):
            rv = s.ast.targets[0].id
        elif isinstance(s.ast, ast.Assign) and isinstance(s.ast.targets[0], ast.Tuple) and isinstance(s.ast.targets[0].elts[0], ast.Name):
            rv = s.ast.targets[0].elts[0].id    # (value, err) handed back by a helper
        need(rv, 'C04.f: handler result is not bound to a local')
        gen_nodes = [n for n in g.nodes if n.kind == 'stmt' and any(True for _r, _c in pat.method_calls(n.ast, 'registerTask'))]

        def bypass(e2, rv=rv):
            if e2.src.kind != 'test':
                return False
            f_ = pat.compare_fact(e2.src.ast, e2.kind)
            if pat.fact_matches(f_, rv, ('is', '=='), 'None'):
                return True
            if e2.kind == 'T' and src(e2.src.ast).replace(' ', '') == f'isinstance({rv},GeneratorType)':
                return True
            return False
        p = Q.escapes(g, [s], lambda n: n in setters and src(n.ast.value) == rv, exits=('exit',), extra_exit=lambda n: n is loop,
                      avoid_edge=bypass, weak=True)
        chk.ob('f', d.ref, 'a non-None, non-generator handler result (or the error triple) reaches `event.value.value = …`',
               p is None, loc(d, s.ast), path=pat.path_lines(p, s) if p else None, discr='result-stored')
        # generator results: counted, marked as promise, registered as task
        gen_edges = [e2 for n in g.nodes if n.kind == 'test' for e2 in n.succ if e2.kind == 'T' and
                     src(n.ast).replace(' ', '') == f'isinstance({rv},GeneratorType)']
        need(gen_edges, 'C04.f: the dispatcher does not recognise generator results')
        for e2 in gen_edges:
            inc = [n for n in g.nodes if n.kind == 'stmt' and isinstance(n.ast, ast.AugAssign) and src(n.ast.target) == f'{ev}.waitingHandlers'
                   and isinstance(n.ast.op, ast.Add)]
            p1 = Q.escapes(g, [e2.dst], lambda n: n in inc, extra_exit=lambda n: n is loop) if e2.dst not in inc else None
            chk.ob('f', d.ref, 'a generator result increments the waiting-handlers count', p1 is None and bool(inc), loc(d, e2.src.ast),
                   discr='generator-counted')
            regs = [n for n in gen_nodes if f'({ev}, {rv}, None)' in src(n.ast)]
            p2 = Q.escapes(g, [e2.dst], lambda n: n in regs, extra_exit=lambda n: n is loop) if e2.dst not in regs else None
            chk.ob('f', d.ref, 'a generator result is registered as a task of the event', p2 is None and bool(regs), loc(d, e2.src.ast),
                   discr='generator-registered')
    # stepper: plain yielded values
    g = t.cfg()
    ev = t.params[1]
    first = [n for n in g.nodes if n.kind == 'stmt' and isinstance(n.ast, ast.Assign) and src(n.ast.value) == f'next({t.params[2]})']
    need(first, 'C04.f: the stepper does not call next(task)')
    s = first[0]
    rv = s.ast.targets[0].id
    setters = [n for n in g.nodes if n.kind == 'stmt' and f'{ev}.value' in pat.stores_attr(n.ast, 'value') and src(n.ast.value) == rv]

    def bypass_t(e2):
        if e2.src.kind != 'test':
            return False
        f_ = pat.compare_fact(e2.src.ast, e2.kind)
        if pat.fact_matches(f_, rv, ('is', '=='), 'None'):
            return True
        sx = src(e2.src.ast).replace(' ', '')
        return e2.kind == 'T' and sx.startswith(f'isinstance({rv},')
    p = Q.escapes(g, [s], lambda n: n in setters, avoid_edge=bypass_t, exc=())
    chk.ob('f', t.ref, 'a plain non-None value yielded by a suspended handler reaches `event.value.value = …`', p is None and bool(setters),
           loc(t, s.ast), path=pat.path_lines(p, s) if p else None, discr='yield-stored')


def rule_g(repo, chk):
    from .common import VALUES
    f = repo.func(VALUES, 'Value.setValue')
    chk.touch(f)
    g = f.cfg()
    v = f.params[1]
    first = [n for n in g.nodes if n.kind == 'stmt' and isinstance(n.ast, ast.Assign) and src(n.ast.targets[0]) == 'self._value' and src(n.ast.value) == v]
    wrap = [n for n in g.nodes if n.kind == 'stmt' and isinstance(n.ast, ast.Assign) and src(n.ast.targets[0]) == 'self._value'
            and src(n.ast.value).replace(' ', '') in ('[self._value]', '[self._value,' + v + ']')]
    apps = [n for n in g.nodes if n.kind == 'stmt' and any(r == 'self._value' and [src(a) for a in c.args] == [v] for r, c in pat.method_calls(n.ast, 'append'))]
    bad_ops = [c for r, c in pat.method_calls(f.node, 'insert') + pat.method_calls(f.node, 'appendleft') + pat.method_calls(f.node, 'extend') if r == 'self._value']
    # the record "something has been stored": the attribute whose falsity guards the plain store
    cands = sorted({src(n.ast) for n in g.nodes if n.kind == 'test' and isinstance(n.ast, ast.Attribute) and src(n.ast.value) == 'self'})
    has_attr = 'self.result'
    for c_ in cands:
        if first and all(pat.guarded_by(g, n, pat.test_edge(lambda tt, pol, c_=c_: pol == 'F' and src(tt) == c_)) is None for n in first):
            has_attr = c_
    has_T = pat.test_edge(lambda tt, pol: pol == 'T' and src(tt) == has_attr)
    has_F = pat.test_edge(lambda tt, pol: pol == 'F' and src(tt) == has_attr)
    # … is a record of storing, not of having a result: a nested value that is still pending is stored but is no result yet, and the next result must be put
    # next to it, not in its place.  So the record is set whenever setValue stores, on every path
    marks = [n for n in g.nodes if n.kind == 'stmt' and 'self' in pat.stores_attr(n.ast, has_attr.split('.', 1)[1], True)]
    pm = Q.escapes(g, [g.entry], lambda n: n in marks, exc=())
    chk.ob('g', f.ref, 'whether a result is the first one is decided by a record that every store sets (a pending nested value counts as stored: the next result goes next '
                       'to it, not in its place)', bool(marks) and pm is None, loc(f, (marks or first or [g.entry])[0].ast) if (marks or first) else loc(f, f.node),
           detail=f'record: {has_attr}', path=pat.path_lines(pm) if pm else None, discr='stored-record-unconditional')
    ok = bool(first) and all(pat.guarded_by(g, n, has_F) is None for n in first)
    chk.ob('g', f.ref, 'the first result is stored as such (only while no result has been stored yet)', ok, loc(f, (first or [g.entry])[0].ast if first else f.node),
           discr='first-as-such')
    ok = bool(apps) and all(pat.guarded_by(g, n, has_T) is None for n in apps) and not bad_ops
    chk.ob('g', f.ref, 'further results are appended at the end of the list (no insert/extend)', ok, loc(f, f.node), detail='; '.join(src(c) for c in bad_ops),
           discr='append-in-order')
    ok = bool(wrap) and all(pat.guarded_by(g, n, has_T) is None for n in wrap)
    for n in wrap:
        if '[self._value]' == src(n.ast.value).replace(' ', ''):
            p = Q.escapes(g, [n], lambda m: m in apps)
            ok = ok and p is None
    chk.ob('g', f.ref, 'the second result turns the stored value into a list [first, second]', ok, loc(f, f.node), discr='second-makes-list')
    # "several results stored" is a fact of its own: it cannot be read off the type of the stored value (one result may itself be a list), and results are never
    # appended into an object a handler supplied
    type_tests = [n for n in g.nodes if n.kind == 'test' and isinstance(n.ast, ast.Call) and call_name(n.ast) == 'isinstance' and src(n.ast.args[0]) == 'self._value'
                  and any(e.kind == 'T' and (e.dst in apps or Q.reaches(e.dst, a_) ) for e in n.succ for a_ in apps)]
    flag = None
    for n in wrap:
        for m in g.nodes:
            if m.kind == 'stmt' and isinstance(m.ast, ast.Assign) and pat.is_const(m.ast.value, True) and isinstance(m.ast.targets[0], ast.Attribute) and src(m.ast.targets[0].value) == 'self' \
                    and m.ast.targets[0].attr not in ('result', 'errors') and (Q.reaches(n, m) or Q.reaches(m, n)):
                flag = m.ast.targets[0].attr
    flag_T = pat.test_edge(lambda tt, pol: pol == 'T' and flag is not None and src(tt) == f'self.{flag}')
    # (an append right after `self._value = [self._value]` goes into the list just made)
    later = [n for n in apps if Q.reachable_without(g, n, avoid_node=lambda m: m in wrap) is not None]
    okf = not type_tests and flag is not None and all(pat.guarded_by(g, n, flag_T) is None for n in later)
    chk.ob('g', f.ref, 'results are appended only to the list this Value made itself (recorded by a flag of its own), never to a stored value that merely is a list', okf,
           loc(f, (type_tests or apps or [g.entry])[0].ast if (type_tests or apps) else f.node), detail=f'flag: {flag}', discr='own-list-only')
    # every path stores the value somewhere
    wrap_both = [n for n in wrap if v in Q.names_used(n.ast.value)]       # `[self._value, value]` stores the new result itself
    p = Q.escapes(g, [g.entry], lambda n: n in first or n in apps or n in wrap_both)
    chk.ob('g', f.ref, 'every call stores the value (as such or appended)', p is None, loc(f, f.node), path=pat.path_lines(p) if p else None, discr='always-stored')
    upd = f.nested.get('update')
    ok = upd is not None and any(call_name(c) == 'update' and [src(a) for a in c.args] == ['self', v] for c in calls_in(f.node))
    # the same propagation written as a loop over the parent chain inside setValue itself is accepted
    inline_form = upd is None and any(isinstance(n, ast.While) for n in walk_no_defs(f.node)) and any(pat.stores_attr(n, 'result', True) for n in walk_no_defs(f.node) if isinstance(n, ast.Assign))
    chk.ob('g', f.ref, 'flags are propagated after storing (update(self, value), or the equivalent walk up the parent chain)', ok or inline_form, loc(f, f.node), discr='flags-updated')
    if upd is not None or inline_form:
        fn = upd if upd is not None else f
        chk.touch(fn)
        gu = fn.cfg()
        if upd is not None:
            o, vv = upd.params
            res = [n for n in gu.nodes if n.kind == 'stmt' and o in pat.stores_attr(n.ast, 'result', True)]
        else:
            vv = v
            res = [n for n in gu.nodes if n.kind == 'stmt' and pat.stores_attr(n.ast, 'result', True)]
            o = (pat.stores_attr(res[0].ast, 'result', True) or ['self'])[0] if res else 'self'
            upd = fn
        okr = bool(res) and all(pat.guarded_by(gu, n, pat.test_edge(lambda tt, pol: pat.fact_matches(pat.compare_fact(tt, pol), vv, ('is not', '!='), 'None'))) is None for n in res)
        edges = [e for n in gu.nodes if n.kind == 'test' for e in n.succ if pat.fact_matches(pat.compare_fact(n.ast, e.kind), vv, ('is not', '!='), 'None')]
        okr = okr and bool(edges) and all(e.dst in res or Q.escapes(gu, [e.dst], lambda n: n in res) is None for e in edges)
        chk.ob('g', upd.ref, 'a non-None plain result marks the value as having a result (None does not)', okr, loc(upd, upd.node), discr='result-flag')
        # flags only ever accumulate: a nested Value (or the parent propagation) must not replace what other handlers of the event have contributed
        plain = []
        for n in gu.nodes:
            if n.kind == 'stmt' and isinstance(n.ast, ast.Assign):
                for r_, a_, v_ in pat.attr_store(n.ast):
                    if a_ in ('errors', 'result') and not pat.is_const(v_, True):
                        own = f'{r_}.{a_}'
                        keeps = isinstance(v_, ast.BoolOp) and isinstance(v_.op, ast.Or) and any(src(x) == own for x in v_.values)
                        if not keeps:
                            plain.append(n)
        chk.ob('g', upd.ref, 'the errors / result flags are only ever raised: an assignment from another Value keeps what is set already (`x.errors = x.errors or …`)', not plain,
               loc(upd, plain[0].ast) if plain else loc(upd, upd.node), detail='; '.join(src(n.ast)[:50] for n in plain[:3]), discr='flags-accumulate')
        par = [n for n in gu.nodes if n.kind == 'stmt' and any(r == f'{o}.parent' or pat.expand_alias(fn, n, r) .endswith('.parent') for r in pat.stores_attr(n.ast, 'errors'))]
        chk.ob('g', upd.ref, 'flags are propagated to the parent value', bool(par), loc(upd, upd.node), discr='parent-flags', nontrivial=False)


def rule_h(repo, chk, d):
    """No result of an earlier handler is seen again in a later iteration of the handler loop."""
    from .common import dispatcher_loop
    chk.rule('C04.h', 'the result variable examined after a handler ran is (re)bound in the same iteration on every path, including the paths on which the '
                      'handler call raised and was turned into stop() (no stale result of the previous handler is stored or scheduled again)')
    loop, _v, sites, _helper = dispatcher_loop(repo, d)
    g = d.cfg()
    for s_ in sites:
        if not (s_.kind == 'stmt' and isinstance(s_.ast, ast.Assign) and isinstance(s_.ast.targets[0], ast.Name)):
            continue
        var = s_.ast.targets[0].id
        defs = {n for n in g.nodes if var in Q.node_defs(n) and ('loop', loop.ast) in n.ctx}
        uses = [n for n in g.nodes if ('loop', loop.ast) in n.ctx and n.ast is not None and n.kind in ('stmt', 'test') and n not in defs and
                var in Q.names_used(n.ast if n.kind != 'with' else n.ast.context_expr)]
        # a definition counts only on its normal out-edges (when the right-hand side raises nothing was bound)
        body = [e.dst for e in loop.succ if e.kind == 'T']
        seen, par = Q.search(body, weak=True, avoid_edge=lambda e: e.src in defs and e.kind != 'x', stop=lambda n: n is loop)
        bad = [u for u in uses if u in seen and not (u in body and False)]
        # a body start that is itself a definition was "entered": its normal successors are cut by avoid_edge, so nothing more to do
        p = Q.path_to(par, bad[0]) if bad else None
        chk.ob('h', d.ref, f'`{var}` holds the result of the handler that has just run whenever it is examined', not bad, loc(d, (bad[0] if bad else s_).ast),
               path=pat.path_lines(p) if p else None, discr=f'no-stale-result:{var}')
