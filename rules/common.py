"""Anchors shared by several rule modules (file names and entry points are the fixed public API)."""

from sa import AnalysisError

MANAGER = 'circuits/core/manager.py'
COMPONENTS = 'circuits/core/components.py'
EVENTS = 'circuits/core/events.py'
HANDLERS = 'circuits/core/handlers.py'
HELPERS = 'circuits/core/helpers.py'
POLLERS = 'circuits/core/pollers.py'
TIMERS = 'circuits/core/timers.py'
VALUES = 'circuits/core/values.py'
SOCKETS = 'circuits/net/sockets.py'
FILE = 'circuits/io/file.py'
WEB_HTTP = 'circuits/web/http.py'
WEB_PARSER = 'circuits/web/parsers/http.py'
WEB_WRAPPERS = 'circuits/web/wrappers.py'
WEB_TOOLS = 'circuits/web/tools.py'
WEB_UTILS = 'circuits/web/utils.py'
WEB_STATIC = 'circuits/web/dispatchers/static.py'
WEB_VHOSTS = 'circuits/web/dispatchers/virtualhosts.py'
WEB_SESSIONS = 'circuits/web/sessions.py'
WEB_HTTPAUTH = 'circuits/web/_httpauth.py'
WEB_CLIENT = 'circuits/web/client.py'
WEBSOCKET = 'circuits/protocols/websocket.py'
LINE = 'circuits/protocols/line.py'
IRC_MESSAGE = 'circuits/protocols/irc/message.py'
NODE_PROTOCOL = 'circuits/node/protocol.py'
NODE_UTILS = 'circuits/node/utils.py'
PROTO_HTTP = 'circuits/protocols/http.py'


def manager_classes(repo):
    m = repo.cls(MANAGER, 'Manager')
    return [m] + repo.subclasses(m)


def loc(func, node):
    return f'{func.module.relpath}:{getattr(node, "lineno", getattr(getattr(node, "ast", None), "lineno", "?"))}'


def need(x, msg):
    if not x:
        raise AnalysisError(msg)
    return x
