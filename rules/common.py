"""Anchors shared by several rule modules (file names and entry points are the fixed public API)."""

from sa import AnalysisError

MANAGER = 'circuits/core/manager.py'
COMPONENTS = 'circuits/core/components.py'
EVENTS = 'circuits/core/events.py'
HANDLERS = 'circuits/core/handlers.py'
HELPERS = 'circuits/core/helpers.py'
POLLERS = 'circuits/core/pollers.py'
TIMERS = 'circuits/core/timers.py'
VALUES = 'circuits/core/values.py'
SOCKETS = 'circuits/net/sockets.py'
FILE = 'circuits/io/file.py'
WEB_HTTP = 'circuits/web/http.py'
WEB_PARSER = 'circuits/web/parsers/http.py'
WEB_WRAPPERS = 'circuits/web/wrappers.py'
WEB_TOOLS = 'circuits/web/tools.py'
WEB_UTILS = 'circuits/web/utils.py'
WEB_STATIC = 'circuits/web/dispatchers/static.py'
WEB_VHOSTS = 'circuits/web/dispatchers/virtualhosts.py'
WEB_SESSIONS = 'circuits/web/sessions.py'
WEB_HTTPAUTH = 'circuits/web/_httpauth.py'
WEB_CLIENT = 'circuits/web/client.py'
WEBSOCKET = 'circuits/protocols/websocket.py'
LINE = 'circuits/protocols/line.py'
IRC_MESSAGE = 'circuits/protocols/irc/message.py'
NODE_PROTOCOL = 'circuits/node/protocol.py'
NODE_UTILS = 'circuits/node/utils.py'
PROTO_HTTP = 'circuits/protocols/http.py'


def manager_classes(repo):
    m = repo.cls(MANAGER, 'Manager')
    return [m] + repo.subclasses(m)


def loc(func, node):
    return f'{func.module.relpath}:{getattr(node, "lineno", getattr(getattr(node, "ast", None), "lineno", "?"))}'


def need(x, msg):
    if not x:
        raise AnalysisError(msg)
    return x


# ---------------------------------------------------------------------------
# where handler code runs

import ast as _ast

from sa.model import call_name as _call_name, calls_in as _calls_in, src as _src


def _node_calls(n):
    if n.ast is None or n.kind in ('for', 'except', 'join'):
        return []
    a = n.ast.context_expr if n.kind == 'with' else n.ast
    if isinstance(a, (_ast.FunctionDef, _ast.AsyncFunctionDef, _ast.ClassDef)):
        return []
    return _calls_in(a)


def _helper_calling_param(repo, func, call, var):
    """`self.M(..., var, ...)` where M is a method of the class in which the parameter receiving *var* is called → (M, param)."""
    if not (isinstance(call.func, _ast.Attribute) and _src(call.func.value) == 'self' and func.cls is not None):
        return None
    m = func.cls.lookup(call.func.attr)
    if m is None or m is func:
        return None
    params = m.params[1:]
    for i, a in enumerate(call.args):
        if _src(a) == var and i < len(params):
            p = params[i]
            if any(_call_name(c) == p for c in _calls_in(m.node)):
                return m, p
    return None


def dispatcher_loop(repo, d):
    """(for-node, loop variable, site nodes, helper or None) of the loop in which the dispatcher runs the handlers of an event.
    A site calls the loop variable itself or hands it to a helper method of the manager that calls it."""
    g = d.cfg()
    for n in g.nodes:
        if n.kind == 'for' and isinstance(n.ast.target, _ast.Name):
            v = n.ast.target.id
            direct = [m for m in g.nodes if m.kind in ('stmt', 'test') and any(_call_name(c) == v for c in _node_calls(m)) and ('loop', n.ast) in m.ctx]
            if direct:
                return n, v, direct, None
            for m in g.nodes:
                if m.kind in ('stmt', 'test') and ('loop', n.ast) in m.ctx:
                    for c in _node_calls(m):
                        h = _helper_calling_param(repo, d, c, v)
                        if h is not None:
                            return n, v, [m], h
    raise AnalysisError(f'{d.ref}: no handler loop (`for h in handlers: … h(…)`) found')


def invocation_context(repo, f):
    """(F, sites in F): the function whose try/except encloses the handler call. The dispatcher itself, or the helper it delegates to."""
    if f.name != '_dispatcher':
        return f, None
    loop, v, sites, helper = dispatcher_loop(repo, f)
    if helper is None:
        return f, sites
    m, p = helper
    g = m.cfg()
    inner = [n for n in g.nodes if n.kind in ('stmt', 'test') and any(_call_name(c) == p for c in _node_calls(n))]
    return m, inner


def attribute_writers(repo, attr):
    """Every store to `<anything>.attr` (assignment, augmented assignment, delete, setattr with a literal name) in the package:
    [(function or None, ast node, receiver source, value source or None)]."""
    out = []
    for m in repo.modules.values():
        owner = {}
        for f in sorted(m.all_functions, key=lambda f: (f.node.end_lineno or f.node.lineno) - f.node.lineno, reverse=True):
            for n in _ast.walk(f.node):
                owner[id(n)] = f          # smaller (inner) functions overwrite
        for n in _ast.walk(m.tree):
            hit = None
            if isinstance(n, _ast.Assign):
                for t in n.targets:
                    for tt in (t.elts if isinstance(t, (_ast.Tuple, _ast.List)) else [t]):
                        if isinstance(tt, _ast.Attribute) and tt.attr == attr:
                            hit = (tt, _src(n.value))
            elif isinstance(n, (_ast.AugAssign, _ast.AnnAssign)) and isinstance(n.target, _ast.Attribute) and n.target.attr == attr:
                hit = (n.target, _src(n.value) if n.value is not None else None)
            elif isinstance(n, _ast.Delete):
                for tt in n.targets:
                    if isinstance(tt, _ast.Attribute) and tt.attr == attr:
                        hit = (tt, None)
            elif isinstance(n, _ast.Call) and _call_name(n) in ('setattr', 'delattr') and len(n.args) >= 2 and isinstance(n.args[1], _ast.Constant) and n.args[1].value == attr:
                out.append((owner.get(id(n)), n, _src(n.args[0]), _src(n.args[2]) if len(n.args) > 2 else None, m))
                continue
            if hit:
                out.append((owner.get(id(n)), n, _src(hit[0].value), hit[1], m))
    return out


def normalised(f):
    """A view of function *f* in which single-assignment locals that merely name an access path (`headers = self.headers`) are replaced by
    that path (sa/normalize.py, unrestricted form).  Opt-in, for rules about functions in which such a local cannot be a snapshot of something
    that changes underneath it (no other thread, nothing re-binds the attribute in the function)."""
    from sa import normalize
    from sa.model import FuncInfo, set_parents
    new = normalize.apply(f.node)
    if new is None:
        return f
    set_parents(new)
    new._parent = getattr(f.node, '_parent', None)
    g = FuncInfo(f.module, new, f.cls, f.parent)
    return g


def renamed(f, mapping):
    """A view of function *f* with local names replaced according to *mapping* {actual name: role name}.  Rules that speak about the roles of
    locals (`offset`, `payload_length`, …) discover the actual names by pattern and analyse the canonically named view, so that a renaming of
    locals is invisible to them.  Names are only mapped when the role name is not in use for something else."""
    if not mapping:
        return f
    import ast as _a
    from sa.model import FuncInfo, clone, set_parents
    used = {n.id for n in _a.walk(f.node) if isinstance(n, _a.Name)} | {a.arg for a in _a.walk(f.node) if isinstance(a, _a.arg)}
    mapping = {k: v for k, v in mapping.items() if k != v and k in used and v not in used}
    if not mapping:
        return f
    new = clone(f.node)
    for n in _a.walk(new):
        if isinstance(n, _a.Name) and n.id in mapping:
            n.id = mapping[n.id]
        elif isinstance(n, _a.arg) and n.arg in mapping:
            n.arg = mapping[n.arg]
    set_parents(new)
    new._parent = getattr(f.node, '_parent', None)
    g = FuncInfo(f.module, new, f.cls, f.parent)
    for nf in list(f.nested.values()):
        pass
    f.module._nested(g, new) if False else None
    return g


def http_roles(f):
    """{actual local: role} for a method of circuits/web/http.py: req / res (Request / Response objects and whatever is unpacked next to them),
    sock (`<req>.sock`), parser (`self._buffers[...]`), fevent (`kwargs['fevent']`), headers (`<res>.headers`)."""
    import ast as _a
    from sa.model import src, walk_no_defs
    m = {}
    params = set(f.params)

    def put(name, role):
        if name not in params and name not in m:
            m[name] = role
            return True
        return False
    role_of = lambda name: m.get(name, name if name in ('req', 'res', 'sock') and name in params else None)
    for _ in range(4):
        changed = False
        for n in walk_no_defs(f.node):
            if not isinstance(n, _a.Assign):
                continue
            names = [t for t in n.targets if isinstance(t, _a.Name)]
            v = n.value
            vs = src(v)
            for t in names:
                if isinstance(v, _a.Call) and src(v.func).split('.')[-1] == 'Request':
                    changed |= put(t.id, 'req')
                elif isinstance(v, _a.Call) and src(v.func).split('.')[-1] == 'Response':
                    changed |= put(t.id, 'res')
                elif isinstance(v, _a.Attribute) and isinstance(v.value, _a.Name) and v.attr == 'request' and role_of(v.value.id) == 'res':
                    changed |= put(t.id, 'req')
                elif isinstance(v, _a.Attribute) and isinstance(v.value, _a.Name) and v.attr == 'sock' and role_of(v.value.id) == 'req':
                    changed |= put(t.id, 'sock')
                elif isinstance(v, _a.Attribute) and v.attr == 'sock' and isinstance(v.value, _a.Attribute) and v.value.attr == 'request' \
                        and isinstance(v.value.value, _a.Name) and role_of(v.value.value.id) == 'res':
                    changed |= put(t.id, 'sock')
                elif isinstance(v, _a.Attribute) and isinstance(v.value, _a.Name) and v.attr == 'headers' and role_of(v.value.id) == 'res':
                    changed |= put(t.id, 'headers')
                elif isinstance(v, _a.Attribute) and isinstance(v.value, _a.Name) and v.attr == 'response' and role_of(v.value.id) == 'req':
                    changed |= put(t.id, 'res')
                elif vs.startswith('self._buffers[') or (isinstance(v, _a.Call) and src(v.func).split('.')[-1] == 'HttpParser'):
                    changed |= put(t.id, 'parser')
                elif vs.replace('"', "'") == "kwargs['fevent']":
                    changed |= put(t.id, 'fevent')
                elif isinstance(v, _a.Subscript) and vs.endswith('.args[0]') and isinstance(n._parent, _a.If) and 'response' in src(n._parent.test):
                    changed |= put(t.id, 'res')
            for t in n.targets:
                if isinstance(t, _a.Tuple) and len(t.elts) == 2 and all(isinstance(x, _a.Name) for x in t.elts):
                    a, b = t.elts[0].id, t.elts[1].id
                    if vs.startswith('self._clients[') or role_of(a) == 'req' or role_of(b) == 'res':
                        changed |= put(a, 'req')
                        changed |= put(b, 'res')
        if not changed:
            break
    return m


def http_func(repo, qual):
    """A method of circuits/web/http.py in its canonical role view (see http_roles)."""
    f = repo.func(WEB_HTTP, qual)
    return renamed(f, http_roles(f)) if f is not None else None


def snapshot_view(f):
    """A view of *f* in which a local that is bound once by `v = self.<attr>` is analysed as `self.<attr>` wherever nothing that can move the
    attribute lies between the binding and a use: no store to an attribute of that name (or its `_`-prefixed / unprefixed property twin), and no
    call of a method of the same class whose body has such a store.  A local for which a mover may intervene keeps its name: it may be a stale
    snapshot, and the rules then see the function as written.  (Whether another thread may write in between is a separate obligation of the
    rules that care: they require the lock around the whole region.)"""
    import ast as _a
    from sa import normalize
    from sa import pat, query as Q
    from sa.model import FuncInfo, set_parents, src
    m, _b = normalize.aliases(f.node)
    cand = {v: e for v, e in m.items() if isinstance(e, _a.Attribute) and isinstance(e.value, _a.Name) and e.value.id == 'self'}
    if not cand:
        return f
    g = f.cfg()

    def twins(a):
        return {a, '_' + a, a.lstrip('_')}

    def method_moves(name, attrs, depth=0):
        mm = f.cls.lookup(name) if f.cls is not None else None
        if mm is None:
            return False
        for w in _a.walk(mm.node):
            if isinstance(w, _a.Attribute) and isinstance(w.ctx, (_a.Store, _a.Del)) and w.attr in attrs:
                return True
        if depth < 1:
            for c in _a.walk(mm.node):
                if isinstance(c, _a.Call) and isinstance(c.func, _a.Attribute) and isinstance(c.func.value, _a.Name) and c.func.value.id == 'self' \
                        and c.func.attr != name and method_moves(c.func.attr, attrs, depth + 1):
                    return True
        return False
    ok = set()
    for v, e in cand.items():
        attrs = twins(e.attr)
        bind = [n for n in g.nodes if n.kind == 'stmt' and isinstance(n.ast, _a.Assign) and len(n.ast.targets) == 1 and isinstance(n.ast.targets[0], _a.Name)
                and n.ast.targets[0].id == v]
        if len(bind) != 1:
            continue
        movers = []
        for n in g.nodes:
            if n.ast is None or n.kind not in ('stmt', 'test', 'with', 'for'):
                continue
            a = n.ast if n.kind == 'stmt' or n.kind == 'test' else (n.ast.context_expr if n.kind == 'with' else n.ast.iter)
            hit = any(isinstance(w, _a.Attribute) and isinstance(w.ctx, (_a.Store, _a.Del)) and w.attr in attrs for w in _a.walk(n.ast)) if n.kind == 'stmt' else False
            for c in _a.walk(a):
                if isinstance(c, _a.Call) and isinstance(c.func, _a.Attribute) and isinstance(c.func.value, _a.Name) and c.func.value.id == 'self' \
                        and method_moves(c.func.attr, attrs):
                    hit = True
            if hit:
                movers.append(n)
        seen, _ = Q.search([bind[0]])
        stale = False
        for mv in movers:
            if mv in seen or mv is bind[0]:
                after, _ = Q.search([mv])
                if any(x is not mv and x.ast is not None and v in Q.names_used(x.ast if x.kind not in ('with', 'for') else (x.ast.context_expr if x.kind == 'with' else x.ast.iter))
                       for x in after):
                    stale = True
        if not stale:
            ok.add(v)
    if not ok:
        return f
    new = normalize.apply(f.node, None, ok)
    if new is None:
        return f
    set_parents(new)
    new._parent = getattr(f.node, '_parent', None)
    return FuncInfo(f.module, new, f.cls, f.parent)
