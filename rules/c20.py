"""C20 — authentication, session binding and gateway trust are sound.

a  every truthy return of check_auth is dominated by the true branch of checkResponse(); everything else returns False/None
b  the looked-up password is tested for None before it reaches the response computation
c  Digest acceptance = realm equal and recomputed response equal; Basic acceptance = encrypted presented password equals the
   stored one; the scheme table maps both names to these functions
d  the session id handed to store.load() comes only from verify_session()/create_session(); verify_session() returns the
   presented id only when it carries a fingerprint equal to who(request); new ids come from uuid4(); who() depends on
   remote address and User-Agent
e  the trusted_gateways argument reaches the attribute the handler tests; X-Forwarded-Host is only read under that test
"""

import ast

from sa import AnalysisError, pat
from sa import query as Q
from sa.model import call_name, calls_in, src, walk_no_defs

from .common import WEB_HTTPAUTH, WEB_SESSIONS, WEB_TOOLS, WEB_VHOSTS, loc, need

MIN_OBLIGATIONS = 18


def run(repo, chk):
    _run(repo, chk)
    rule_trust_order(repo, chk)
    rule_peer_address(repo, chk)


def rule_peer_address(repo, chk):
    """The session fingerprint and the gateway test read request.remote.ip: it must be the peer's address for every address family that has one."""
    from .common import WEB_WRAPPERS
    chk.rule('C20.g', 'Request takes the address of the peer from the first two items of any tuple-shaped peer name (AF_INET: 2 items, AF_INET6: 4); only a peer name '
                      'that is not a tuple (AF_UNIX) leaves the address empty')
    f = repo.func(WEB_WRAPPERS, 'Request.__init__')
    chk.touch(f)
    names = {src(n.targets[0]) for n in walk_no_defs(f.node) if isinstance(n, ast.Assign) and len(n.targets) == 1 and isinstance(n.targets[0], ast.Name)
             and isinstance(n.value, ast.Call) and (call_name(n.value) or '').endswith('.getpeername')}
    def is_peer(e):
        return (isinstance(e, ast.Name) and e.id in names) or (isinstance(e, ast.Call) and (call_name(e) or '').endswith('.getpeername'))
    need(names or any(is_peer(c) for c in calls_in(f.node)), 'C20.g: Request.__init__ does not ask the socket for its peer')
    exact = [n for n in walk_no_defs(f.node) if isinstance(n, ast.Assign) and isinstance(n.targets[0], (ast.Tuple, ast.List)) and is_peer(n.value)
             and not any(isinstance(t, ast.Starred) for t in n.targets[0].elts)]
    taken = [n for n in walk_no_defs(f.node) if isinstance(n, ast.Assign) and any(isinstance(w, ast.Subscript) and is_peer(w.value) for w in ast.walk(n.value))] + \
            [n for n in walk_no_defs(f.node) if isinstance(n, ast.Assign) and isinstance(n.targets[0], (ast.Tuple, ast.List)) and is_peer(n.value)
             and any(isinstance(t, ast.Starred) for t in n.targets[0].elts)]
    chk.ob('g', f.ref, 'the peer address is taken from a peer name of any length (an unpacking into exactly two names fails for the 4 items of an IPv6 peer, which then '
                       'has no address: every IPv6 client shares one session fingerprint)', not exact and bool(taken), loc(f, (exact or taken or [f.node])[0]),
           detail='; '.join(src(n) for n in exact + taken)[:160], discr='peer-address-any-family')


def _run(repo, chk):
    chk.not_decided = ['cryptographic strength of MD5/SHA1 digests', 'nonce freshness / replay of Digest responses', 'session fixation through a guessed uuid']
    chk.rule('C20.a', 'check_auth returns something truthy only after checkResponse() succeeded')
    chk.rule('C20.b', 'a missing user entry (password None) never reaches checkResponse()')
    chk.rule('C20.c', 'checkers: Digest = realm equality ∧ response equality; Basic = encrypted password equality; table maps basic/digest to them')
    chk.rule('C20.d', 'session ids: presented id accepted only with matching fingerprint; otherwise a fresh uuid4-based id; store.load only sees such ids')
    chk.rule('C20.e', 'gateway trust: constructor argument stored; forwarded host read only for trusted gateways (or when none are configured)')
    rule_a_b(repo, chk)
    rule_c(repo, chk)
    rule_d(repo, chk)
    rule_e(repo, chk)


def rule_a_b(repo, chk):
    f = repo.func(WEB_TOOLS, 'check_auth')
    chk.touch(f)
    g = f.cfg()
    def has_check(a):
        return any((call_name(c) or '').endswith('checkResponse') for c in calls_in(a))
    tests = [n for n in g.nodes if n.kind == 'test' and has_check(n.ast)]
    # the verdict may be computed into a variable first (inside a try that refuses what cannot be verified): `v = <facts> and checkResponse(…)`;
    # v is true only if checkResponse() was, provided every other definition of v is a falsy constant
    call_sites = list(tests)
    short_circuit = {}          # call-site node -> operands that are known true when checkResponse() is evaluated
    for n in g.nodes:
        if n.kind == 'stmt' and isinstance(n.ast, ast.Assign) and len(n.ast.targets) == 1 and isinstance(n.ast.targets[0], ast.Name) and has_check(n.ast.value):
            v = n.ast.targets[0].id
            e_ = n.ast.value
            conj = (isinstance(e_, ast.Call)) or (isinstance(e_, ast.BoolOp) and isinstance(e_.op, ast.And) and any(isinstance(o, ast.Call) and has_check(o) for o in e_.values))
            others = [m for m in g.nodes if m is not n and v in Q.node_defs(m)]
            falsy = all(m.kind == 'stmt' and isinstance(m.ast, ast.Assign) and isinstance(m.ast.value, ast.Constant) and not m.ast.value.value for m in others)
            if conj and falsy:
                tests += [m for m in g.nodes if m.kind == 'test' and src(m.ast) == v]
                call_sites.append(n)
                if isinstance(e_, ast.BoolOp):
                    idx = [i for i, o in enumerate(e_.values) if isinstance(o, ast.Call) and has_check(o)][0]
                    short_circuit[n] = e_.values[:idx]
    chk.ob('a', f.ref, 'check_auth decides through checkResponse()', bool(tests), loc(f, f.node), discr='uses-checkResponse')
    ok_edge = lambda e: e.src in tests and e.kind == 'T'  # noqa: E731
    rets = [n for n in g.nodes if n.kind == 'stmt' and isinstance(n.ast, ast.Return)]
    need(rets, 'C20.a: check_auth has no return')
    for r in rets:
        v = r.ast.value
        if v is None or (isinstance(v, ast.Constant) and not v.value):
            chk.ob('a', f.ref, 'a refusing return is falsy', True, loc(f, r.ast), discr=f'return:{src(v) if v is not None else "None"}', nontrivial=False)
            continue
        q = pat.guarded_by(g, r, ok_edge)
        chk.ob('a', f.ref, f'the truthy return `{r.text[:50]}` is reached only after checkResponse() returned true', q is None, loc(f, r.ast),
               path=pat.path_lines(q) if q else None, discr=f'truthy-return:{_kind(v)}')
    p = Q.escapes(g, [g.entry], lambda n: n in rets)
    chk.ob('a', f.ref, 'check_auth never falls off its end with an implicit result', p is None, loc(f, f.node), discr='explicit-returns', nontrivial=False)
    for t in call_sites:
        c = [c for c in calls_in(t.ast) if (call_name(c) or '').endswith('checkResponse')][0]
        pv = src(c.args[1]) if len(c.args) > 1 else None
        kw = {k.arg: src(k.value) for k in c.keywords if k.arg}
        chk.ob('a', f.ref, 'checkResponse() is given the parsed header, the stored password, the request method and the configured realm',
               pv is not None and kw.get('realm') == f.params[2] and kw.get('method') == f'{f.params[0]}.method', loc(f, c), detail=f'`{src(c)[:100]}`', discr='check-args')
        if pv:
            def is_text(tt, pol):
                # `isinstance(password, str)` (also with bytes in the tuple): the only answers of a user table that are a password
                return pol == 'T' and isinstance(tt, ast.Call) and call_name(tt) == 'isinstance' and len(tt.args) == 2 and src(tt.args[0]) == pv \
                    and all(x in ('str', 'bytes') for x in ([src(e_) for e_ in tt.args[1].elts] if isinstance(tt.args[1], ast.Tuple) else [src(tt.args[1])]))
            known = lambda tt, pol: pat.fact_matches(pat.compare_fact(tt, pol), pv, ('is not', '!='), 'None') or is_text(tt, pol)  # noqa: E731
            q = pat.guarded_by(g, t, pat.test_edge(known))
            if q is not None and any(known(o, 'T') for o in short_circuit.get(t, [])):
                q = None      # `password is not None and checkResponse(…)`: short-circuit evaluation
            chk.ob('b', f.ref, 'the stored password is known to be not None when checkResponse() is evaluated', q is None, loc(f, c),
                   path=pat.path_lines(q) if q else None, discr='password-not-none')
            # a user table given as a function may answer "no such user" with False or 0 as well as with None: whatever is not text is formatted into the digest
            # like a password ('False', '0'), and a header computed with that word verifies
            q2 = pat.guarded_by(g, t, pat.test_edge(is_text))
            if q2 is not None and any(is_text(o, 'T') for o in short_circuit.get(t, [])):
                q2 = None
            chk.ob('b', f.ref, 'only a password that is text reaches checkResponse() (None, False, 0 — every way a look-up says "no such user" — is refused)', q2 is None,
                   loc(f, c), path=pat.path_lines(q2) if q2 else None, discr='password-is-text')
            defs = [n for n in g.nodes if n.kind == 'stmt' and pv in Q.node_defs(n)]
            # the presented user name: `ah['username']`, or a local that is only ever bound to it
            unames = ["ah['username']"]
            for w in walk_no_defs(f.node):
                if isinstance(w, ast.Assign) and len(w.targets) == 1 and isinstance(w.targets[0], ast.Name) and src(w.value) == "ah['username']":
                    x = w.targets[0].id
                    if sum(1 for y in walk_no_defs(f.node) if isinstance(y, ast.Name) and isinstance(y.ctx, ast.Store) and y.id == x) == 1:
                        unames.append(x)
            ok = bool(defs) and all(isinstance(n.ast, ast.Assign) and (pat.is_const(n.ast.value, None) or any(
                ('.get(' in src(n.ast.value) and f'.get({u},' in src(n.ast.value).replace(', ', ',') + ',') or src(n.ast.value).endswith(f'({u})') for u in unames)) for n in defs)
            chk.ob('b', f.ref, 'the password is looked up for the presented user name only', ok, loc(f, c), detail='; '.join(n.text[:50] for n in defs),
                   discr='password-lookup')
    # nothing raised while examining what the client sent can leave check_auth (an exception is not a refusal: in a request filter it skips
    # event.stop() and the protected handler runs)
    from sa.cfg import handler_names
    for n in g.nodes:
        if n.kind not in ('stmt', 'test'):
            continue
        for c in pat.node_calls(n):
            nm = call_name(c) or ''
            if nm.startswith('_httpauth.') and nm.split('.')[-1] in ('parseAuthorization', 'checkResponse'):
                caught = set()
                for h in pat.enclosing_try_handlers(g, n):
                    names = handler_names(h.ast)
                    caught |= set(names) if names else {'*'}
                chk.ob('a', f.ref, f'no exception of `{nm}` (malformed, undecodable or unsupported credentials) can leave check_auth: it is refused instead',
                       bool(caught & {'*', 'Exception', 'BaseException'}), loc(f, c), detail=f'handlers around the call: {sorted(caught)}', discr=f'no-escape:{nm.split(".")[-1]}')
    # the fallback encoder must fit what the Basic parser hands over (decoded text): writer/reader agreement on the type
    bp = repo.try_func('circuits/web/_httpauth.py', '_parseBasicAuthorization')
    text_pw = bp is not None and any(isinstance(n, ast.Assign) and src(n.targets[0]) == 'password' and '.decode(' in src(n.value) for n in walk_no_defs(bp.node))
    fb = None
    for n in g.nodes:
        if n.kind == 'stmt' and isinstance(n.ast, ast.Assign) and src(n.ast.targets[0]) == f.params[4]:
            fb = ('assign', n.ast.value, n)
    for nf in f.nested.values():
        if nf.name == f.params[4]:
            fb = ('def', nf, None)
    if fb is not None:
        if fb[0] == 'def':
            body_src = src(fb[1].node)
            encodes = any(isinstance(c.func, ast.Attribute) and c.func.attr == 'encode' and src(c.func.value) in fb[1].params for c in calls_in(fb[1].node))
            where = loc(f, fb[1].node)
        else:
            v = fb[1]
            encodes = isinstance(v, ast.Lambda) and any(isinstance(c, ast.Call) and isinstance(c.func, ast.Attribute) and c.func.attr == 'encode' for c in ast.walk(v)) \
                or src(v) in ('str',)
            where = loc(f, fb[2].ast)
        chk.ob('a', f.ref, 'the encoder used when none is configured takes the text password the Basic parser produces (it encodes before hashing)',
               encodes or not text_pw, where, discr='default-encoder-takes-text')
    # login recorded only on success
    logins = [n for n in g.nodes if n.kind == 'stmt' and f.params[0] in pat.stores_attr(n.ast, 'login') and not (isinstance(n.ast.value, ast.Constant) and not n.ast.value.value)]
    for n in logins:
        q = pat.guarded_by(g, n, ok_edge)
        chk.ob('a', f.ref, 'request.login is set to the user name only after successful verification', q is None, loc(f, n.ast), discr='login-on-success')
    # the callers treat truth as "authenticated"
    for name in ('basic_auth', 'digest_auth'):
        h = repo.func(WEB_TOOLS, name)
        chk.touch(h)
        gh = h.cfg()
        t2 = [n for n in gh.nodes if n.kind == 'test' and any(call_name(c) == 'check_auth' for c in calls_in(n.ast))]
        un = [n for n in gh.nodes if n.kind == 'stmt' and isinstance(n.ast, ast.Return) and n.ast.value is not None and 'unauthorized(' in src(n.ast.value)]
        ok = bool(t2) and bool(un)
        for t in t2:
            for e in t.succ:
                if e.kind == 'F':
                    p = Q.escapes(gh, [e.dst], lambda n: n in un)
                    ok = ok and p is None
        chk.ob('a', h.ref, 'a request that check_auth refuses is answered with 401 on every path', ok, loc(h, h.node), discr='refused-is-401')


def _kind(v):
    if isinstance(v, ast.Constant):
        return repr(v.value)
    if isinstance(v, ast.Call):
        return (call_name(v) or 'call') + '()'
    return type(v).__name__


def rule_c(repo, chk):
    d = repo.func(WEB_HTTPAUTH, '_checkDigestResponse')
    chk.touch(d)
    g = d.cfg()
    am = d.params[0]
    rets = [n for n in g.nodes if n.kind == 'stmt' and isinstance(n.ast, ast.Return)]
    realm_ok = pat.test_edge(lambda tt, pol: pat.fact_matches(pat.compare_fact(tt, pol), f"{am}['realm']", ('==',), "kwargs.get('realm', None)") or
                             pat.fact_matches(pat.compare_fact(tt, pol), f"{am}['realm']", ('==',), "kwargs.get('realm')") or
                             pat.fact_matches(pat.compare_fact(tt, pol), f"{am}['realm']", ('==',), 'realm'))
    for r in rets:
        v = r.ast.value
        if isinstance(v, ast.Constant) and not v.value:
            continue
        q = pat.guarded_by(g, r, realm_ok)
        chk.ob('c', d.ref, 'Digest credentials are accepted only for the configured realm', q is None, loc(d, r.ast), path=pat.path_lines(q) if q else None,
               discr='digest-realm')
        ok = isinstance(v, ast.Compare) and len(v.ops) == 1 and isinstance(v.ops[0], ast.Eq) and f"{am}['response']" in (src(v.left), src(v.comparators[0]))
        other = None
        if ok:
            other = v.left if src(v.comparators[0]) == f"{am}['response']" else v.comparators[0]
            if isinstance(other, ast.Name):
                defs = Q.reaching_defs(g, r, other.id)
                ok = bool(defs) and all(dn.kind == 'stmt' and '_computeDigestResponse(' in src(dn.ast) and src(dn.ast.value.args[0]) == am and src(dn.ast.value.args[1]) == d.params[1]
                                        for dn in defs)
            else:
                ok = '_computeDigestResponse(' in src(other)
        chk.ob('c', d.ref, 'Digest acceptance is equality of the presented response with the one recomputed from the stored password', ok, loc(d, r.ast),
               detail=f'`{r.text[:80]}`', discr='digest-response')
    # the recomputation is bound to the request method (a response made for GET must not verify for POST)
    comp = [c for c in calls_in(d.node) if call_name(c) == '_computeDigestResponse']
    mp = d.params[2]
    okm = bool(comp) and all((len(c.args) > 2 and src(c.args[2]) == mp) or any(k.arg == 'method' and src(k.value) == mp for k in c.keywords) for c in comp)
    chk.ob('c', d.ref, 'the Digest response is recomputed for the method of the request being authenticated', okm, loc(d, (comp or [d.node])[0]),
           detail='; '.join(src(c) for c in comp), discr='digest-method')
    b = repo.func(WEB_HTTPAUTH, '_checkBasicResponse')
    chk.touch(b)
    am, pw = b.params[0], b.params[1]
    rets = [n for n in walk_no_defs(b.node) if isinstance(n, ast.Return)]
    ok = bool(rets)
    for r in rets:
        v = r.value
        good = isinstance(v, ast.Compare) and len(v.ops) == 1 and isinstance(v.ops[0], ast.Eq) and pw in (src(v.left), src(v.comparators[0]))
        if good:
            other = v.left if src(v.comparators[0]) == pw else v.comparators[0]
            good = isinstance(other, ast.Call) and call_name(other) == b.params[3] and other.args and src(other.args[0]) == f"{am}['password']"
        ok = ok and good
    chk.ob('c', b.ref, 'Basic acceptance is equality of the encrypted presented password with the stored one', ok, loc(b, b.node), discr='basic-equality')
    m = repo.module(WEB_HTTPAUTH)
    table = None
    for n in m.tree.body:
        if isinstance(n, ast.Assign) and src(n.targets[0]) == 'AUTH_RESPONSES' and isinstance(n.value, ast.Dict):
            table = {k.value: src(v) for k, v in zip(n.value.keys, n.value.values) if isinstance(k, ast.Constant)}
    chk.ob('c', f'{WEB_HTTPAUTH}::AUTH_RESPONSES', 'the scheme table maps basic and digest to their checkers', table == {'basic': '_checkBasicResponse', 'digest': '_checkDigestResponse'},
           WEB_HTTPAUTH, detail=f'{table}', discr='scheme-table')
    cr = repo.func(WEB_HTTPAUTH, 'checkResponse')
    chk.touch(cr)
    rets = [n for n in walk_no_defs(cr.node) if isinstance(n, ast.Return)]
    ok = bool(rets) and all(isinstance(r.value, ast.Call) and [src(a) for a in r.value.args[:2]] == cr.params[:2] for r in rets) and \
        any(isinstance(n, ast.Assign) and src(n.value) == f"AUTH_RESPONSES[{cr.params[0]}['auth_scheme']]" for n in walk_no_defs(cr.node))
    chk.ob('c', cr.ref, 'checkResponse() returns the verdict of the checker selected by the presented scheme', ok, loc(cr, cr.node), discr='dispatch')
    okk = bool(rets) and all(isinstance(r.value, ast.Call) and {k.arg: src(k.value) for k in r.value.keywords if k.arg}.get('method') == 'method' and
                             {k.arg: src(k.value) for k in r.value.keywords if k.arg}.get('encrypt') == 'encrypt' and any(k.arg is None for k in r.value.keywords)
                             for r in rets)
    chk.ob('c', cr.ref, 'checkResponse() hands method, encrypt and the remaining options (realm) on to the checker', okk, loc(cr, cr.node), discr='dispatch-args')


def rule_d(repo, chk):
    v = repo.func(WEB_SESSIONS, 'verify_session')
    chk.touch(v)
    g = v.cfg()
    req, sid = v.params[0], v.params[1]
    rets = [n for n in g.nodes if n.kind == 'stmt' and isinstance(n.ast, ast.Return)]
    need(rets, 'C20.d: verify_session has no return')
    uservar = None
    for n in g.nodes:
        if n.kind == 'stmt' and isinstance(n.ast, ast.Assign) and src(n.ast.value).replace(' ', '') == f"{sid}.split('/',1)[1]":
            uservar = src(n.ast.targets[0])
    sepvar = None
    for n in g.nodes:
        # `_, separator, owner = sid.partition('/')`: owner is what follows the first '/', separator is non-empty iff there is one
        if n.kind == 'stmt' and isinstance(n.ast, ast.Assign) and src(n.ast.value).replace(' ', '') == f"{sid}.partition('/')" and isinstance(n.ast.targets[0], ast.Tuple) \
                and len(n.ast.targets[0].elts) == 3 and all(isinstance(x, ast.Name) for x in n.ast.targets[0].elts):
            sepvar, uservar = n.ast.targets[0].elts[1].id, n.ast.targets[0].elts[2].id
    for r in rets:
        val = src(r.ast.value) if r.ast.value is not None else 'None'
        if val == sid:
            q1 = pat.guarded_by(g, r, pat.test_edge(lambda tt, pol: pat.fact_matches(pat.compare_fact(tt, pol), "'/'", ('in',), sid) or
                                                    (sepvar is not None and ((pol == 'T' and src(tt) == sepvar) or pat.fact_matches(pat.compare_fact(tt, pol), sepvar, ('==',), "'/'")))))
            q2 = pat.guarded_by(g, r, pat.test_edge(lambda tt, pol: uservar is not None and pat.fact_matches(pat.compare_fact(tt, pol), uservar, ('==',), f'who({req})')))
            chk.ob('d', v.ref, 'the presented session id is returned only if it carries a fingerprint equal to the fingerprint of the requesting client',
                   q1 is None and q2 is None, loc(v, r.ast), path=pat.path_lines(q1 or q2) if (q1 or q2) else None, discr='presented-id-fingerprint')
        else:
            ok = val == f'create_session({req})'
            chk.ob('d', v.ref, 'every other return is a freshly created session id', ok, loc(v, r.ast), detail=f'`{r.text}`', discr=f'fresh:{val[:30]}')
    chk.ob('d', v.ref, 'the fingerprint part of the id is what follows the first "/"', uservar is not None, loc(v, v.node), discr='fingerprint-part', nontrivial=False)
    c = repo.func(WEB_SESSIONS, 'create_session')
    chk.touch(c)
    rets = [n for n in walk_no_defs(c.node) if isinstance(n, ast.Return)]
    ok = bool(rets) and all(('uuid().hex' in src(r.value) or 'uuid4().hex' in src(r.value)) and f'who({c.params[0]})' in src(r.value) and '/' in src(r.value) for r in rets)
    imp = repo.module(WEB_SESSIONS).imports.get('uuid')
    chk.ob('d', c.ref, 'a fresh id is a random uuid4 joined with the client fingerprint by "/"', ok and imp == ('uuid', 'uuid4'), loc(c, c.node),
           detail=f'uuid import: {imp}', discr='fresh-id')
    w = repo.func(WEB_SESSIONS, 'who')
    chk.touch(w)
    rets = [n for n in walk_no_defs(w.node) if isinstance(n, ast.Return)]
    deps = set()
    for r in rets:
        for nm in Q.names_used(r.value):
            deps.add(nm)
            if '.' not in nm:
                for e in pat.flows_from(w, nm, depth=2):
                    deps |= {src(x) for x in ast.walk(e) if isinstance(x, (ast.Attribute, ast.Constant, ast.Name))}
    ok = any('remote.ip' in d for d in deps) and any("User-Agent" in d for d in deps) and any('sha' in src(r.value) for r in rets)
    chk.ob('d', w.ref, 'the fingerprint is a hash over the remote address and the User-Agent header', ok, loc(w, w.node), discr='fingerprint-inputs')
    # the hashed text is an injective encoding of the (address, agent) pair: plain concatenation of two free-form strings is not
    amb = None
    for r in rets:
        for e in ast.walk(r.value):
            if isinstance(e, ast.JoinedStr):
                parts = e.values
                for a_, b_ in zip(parts, parts[1:]):
                    if isinstance(a_, ast.FormattedValue) and isinstance(b_, ast.FormattedValue):
                        amb = amb or e
            if isinstance(e, ast.BinOp) and isinstance(e.op, ast.Add) and isinstance(e.left, ast.Name) and isinstance(e.right, ast.Name):
                amb = amb or e
            if isinstance(e, ast.BinOp) and isinstance(e.op, ast.Mod) and isinstance(e.left, ast.Constant) and isinstance(e.left.value, str) and '%s%s' in e.left.value:
                amb = amb or e
    chk.ob('d', w.ref, 'address and User-Agent are hashed with a separator between them (two different pairs never give the same text)', amb is None,
           loc(w, amb if amb is not None else w.node), detail=src(amb)[:80] if amb is not None else '', discr='fingerprint-unambiguous')
    st_cls = repo.cls(WEB_SESSIONS, 'MemoryStore')
    n_idx = 0
    for mname in ('load', 'save', 'delete'):
        m = st_cls.methods.get(mname)
        if m is None:
            chk.ob('d', st_cls.ref, f'the store implements {mname}', False, WEB_SESSIONS, discr=f'store-{mname}')
            continue
        chk.touch(m)
        sp = m.params[1]
        idx = [w for w in ast.walk(m.node) if isinstance(w, ast.Subscript) and src(w.value) in ('self.data', 'self._data')]
        n_idx += len(idx)
        rebound = any(isinstance(w, (ast.Assign, ast.AugAssign)) and sp in [src(t) for t in (w.targets if isinstance(w, ast.Assign) else [w.target])] for w in ast.walk(m.node))
        ok = bool(idx) and all(src(w.slice) == sp for w in idx) and not rebound
        chk.ob('d', m.ref, 'session data is addressed by the complete session id (random part and fingerprint), exactly as presented', ok, loc(m, m.node),
               detail='; '.join(src(w) for w in idx), discr=f'store-key:{mname}')
    s = repo.func(WEB_SESSIONS, 'Sessions.request')
    chk.touch(s)
    gs = s.cfg()
    loads = [n for n in gs.nodes if n.kind == 'stmt' and any(r.endswith('store') and True for r, _c in pat.method_calls(n.ast, 'load'))]
    need(loads, 'C20.d: Sessions.request never loads a session')
    for n in loads:
        c2 = [c_ for _r, c_ in pat.method_calls(n.ast, 'load')][0]
        av = src(c2.args[0])
        defs = Q.reaching_defs(gs, n, av)
        ok = bool(defs) and all(dn.kind == 'stmt' and isinstance(dn.ast, ast.Assign) and isinstance(dn.ast.value, ast.Call) and
                                call_name(dn.ast.value) in ('verify_session', 'create_session') for dn in defs)
        chk.ob('d', s.ref, 'the id given to store.load() always comes from verify_session() or create_session()', ok, loc(s, c2),
               detail='; '.join(dn.text[:60] for dn in defs), discr='load-id-provenance')
        ck = [m for m in gs.nodes if m.kind == 'stmt' and isinstance(m.ast, ast.Assign) and src(m.ast.targets[0]).startswith('response.cookie[') and src(m.ast.value) == av]
        chk.ob('d', s.ref, 'the client is told the id under which its data was loaded', bool(ck), loc(s, c2), discr='cookie-set')
    for dn in gs.nodes:
        if dn.kind == 'stmt' and isinstance(dn.ast, ast.Assign) and isinstance(dn.ast.value, ast.Call) and call_name(dn.ast.value) == 'verify_session':
            a = dn.ast.value.args
            ok = len(a) == 2 and src(a[0]) == s.params[1]
            chk.ob('d', s.ref, 'a presented id is verified against the request that presented it', ok, loc(s, dn.ast), discr='verify-args')


def rule_e(repo, chk):
    i = repo.func(WEB_VHOSTS, 'VirtualHosts.__init__')
    chk.touch(i)
    arg = 'trusted_gateways'
    need(arg in i.params, 'C20.e: VirtualHosts.__init__ has no trusted_gateways parameter')
    st = [n for n in walk_no_defs(i.node) if isinstance(n, ast.Assign) and 'self' in pat.stores_attr(n, 'trusted_gateways')]
    ok = bool(st) and all(src(n.value) == arg for n in st)
    chk.ob('e', i.ref, 'the configured gateway list is stored in the attribute the request handler tests', ok, loc(i, (st or [i.node])[0]),
           detail='; '.join(src(n) for n in st), discr='gateways-stored')
    # one address given as a plain string must not be stored as such: `peer in '192.168.10.1'` is a substring test ('92.168.10.1' would be trusted)
    gi = i.cfg()
    stn = [n for n in gi.nodes if n.kind == 'stmt' and isinstance(n.ast, ast.Assign) and 'self' in pat.stores_attr(n.ast, 'trusted_gateways')]
    wraps = [n for n in gi.nodes if n.kind == 'stmt' and isinstance(n.ast, ast.Assign) and src(n.ast.targets[0]) == arg and
             (isinstance(n.ast.value, (ast.Tuple, ast.List, ast.Set)) or (isinstance(n.ast.value, ast.Call) and call_name(n.ast.value) in ('tuple', 'list', 'set', 'frozenset')
                                                                           and n.ast.value.args and isinstance(n.ast.value.args[0], (ast.Tuple, ast.List, ast.Set))))]
    not_str = pat.test_edge(lambda tt, pol: pol == 'F' and isinstance(tt, ast.Call) and call_name(tt) == 'isinstance' and len(tt.args) == 2 and src(tt.args[0]) == arg
                            and 'str' in src(tt.args[1]))
    for n in stn:
        qs = Q.reachable_without(gi, n, avoid_node=lambda m: m in wraps, avoid_edge=not_str)
        chk.ob('e', i.ref, 'a gateway given as one string is stored as a collection of that one address (membership in a string is a substring test)', qs is None, loc(i, n.ast),
               path=pat.path_lines(qs) if qs else None, discr='gateway-string-wrapped')
    h = repo.func(WEB_VHOSTS, 'VirtualHosts._on_request')
    chk.touch(h)
    from .common import normalised
    h = normalised(h)       # `headers = request.headers`, `gateways = self.trusted_gateways`: nothing in the handler re-binds what they name
    g = h.cfg()
    req = h.params[2]
    # alias of request.headers.get
    getters = {f'{req}.headers.get'}
    for n in walk_no_defs(h.node):
        if isinstance(n, ast.Assign) and src(n.value) == f'{req}.headers.get':
            getters.add(src(n.targets[0]))
    uses = [n for n in g.nodes if n.kind in ('stmt', 'test') and n.ast is not None and any(
        call_name(c) in getters and c.args and isinstance(c.args[0], ast.Constant) and str(c.args[0].value).lower() == 'x-forwarded-host' for c in calls_in(n.ast))]
    need(uses, 'C20.e: X-Forwarded-Host is never read')
    # what is looked up in the gateway list: the address of the transport peer.  (request.remote is replaced by what a header says once tools.ReverseProxy has seen
    # the request object, and the HTTP layer dispatches a request object again when another message arrives before the response is out.)
    members = [n for n in g.nodes if n.kind == 'test' and isinstance(n.ast, ast.Compare) and len(n.ast.ops) == 1 and isinstance(n.ast.ops[0], (ast.In, ast.NotIn))
               and src(n.ast.comparators[0]) == 'self.trusted_gateways']
    # (no look-up at all: the reads of X-Forwarded-Host are then unguarded, which is reported below)
    peers = set()
    # (the look-up may be part of a test that is bound to a flag first: `trusted = gateways is None or peer in gateways … if trusted:`)
    for nm_, def_ in g.flag_defs.items():
        for w in ast.walk(def_):
            if isinstance(w, ast.Compare) and len(w.ops) == 1 and isinstance(w.ops[0], (ast.In, ast.NotIn)) and src(w.comparators[0]) == 'self.trusted_gateways':
                binds = [n for n in g.nodes if n.kind == 'stmt' and isinstance(n.ast, ast.Assign) and n.ast.value is def_]
                if binds:
                    peers.add(src(w.left))
                    okp, why = _transport_peer(repo, h, binds[0], w.left, req)
                    chk.ob('e', h.ref, 'the address looked up in the gateway list is the address of the transport peer (the socket\'s peer name), not a field of the request that '
                                       'request handlers rewrite from headers', okp, loc(h, binds[0].ast), detail=why, discr='trust-reads-transport-peer')
    for n in members:
        left = n.ast.left
        peers.add(src(left))
        okp, why = _transport_peer(repo, h, n, left, req)
        chk.ob('e', h.ref, 'the address looked up in the gateway list is the address of the transport peer (the socket\'s peer name), not a field of the request that request '
                           'handlers rewrite from headers', okp, loc(h, n.ast), detail=why, discr='trust-reads-transport-peer')
    trusted = pat.test_edge(lambda tt, pol: pat.fact_matches(pat.compare_fact(tt, pol), 'self.trusted_gateways', ('is', '=='), 'None') or
                            any(pat.fact_matches(pat.compare_fact(tt, pol), p_, ('in',), 'self.trusted_gateways') for p_ in peers))
    for n in uses:
        q = pat.guarded_by(g, n, trusted)
        chk.ob('e', h.ref, 'X-Forwarded-Host is read only for requests from a trusted gateway (or when no gateway list is configured)', q is None, loc(h, n.ast),
               path=pat.path_lines(q) if q else None, discr='forwarded-host-guard')
    # the domain used for routing defaults to the Host header
    # the routing key: what the table of domains is asked for
    dv_ = 'domain'
    for c_ in calls_in(h.node):
        if isinstance(c_.func, ast.Attribute) and c_.func.attr == 'get' and src(c_.func.value) == 'self.domains' and c_.args and isinstance(c_.args[0], ast.Name):
            dv_ = c_.args[0].id
    dom = [n for n in g.nodes if n.kind == 'stmt' and isinstance(n.ast, ast.Assign) and src(n.ast.targets[0]) == dv_]
    def host_value(n, e, depth=0):
        # the Host header itself, possibly through plain copies
        if isinstance(e, ast.Name) and depth < 4:
            defs = Q.reaching_defs(g, n, e.id)
            return bool(defs) and all(d.kind == 'stmt' and isinstance(d.ast, ast.Assign) and len(d.ast.targets) == 1 and isinstance(d.ast.targets[0], ast.Name)
                                      and host_value(d, d.ast.value, depth + 1) for d in defs)
        return isinstance(e, ast.Call) and call_name(e) in getters | {f'{req}.headers.get'} and bool(e.args) and isinstance(e.args[0], ast.Constant) and e.args[0].value == 'Host' \
            and 'orwarded' not in src(e)
    ok = any(host_value(n, n.ast.value) for n in dom)
    chk.ob('e', h.ref, 'without a trusted forwarded host the Host header decides the virtual host', ok, loc(h, h.node), discr='host-default')
    for n in dom:
        if host_value(n, n.ast.value):
            continue
        q = pat.guarded_by(g, n, trusted)
        chk.ob('e', h.ref, 'the routing domain is overridden only under the gateway test', q is None, loc(h, n.ast), discr='override-guard')


def _transport_peer(repo, h, node, e, req, depth=0):
    """(ok, why): expression *e* (at *node* of *h*) is the address of the socket's peer."""
    if isinstance(e, ast.Constant) and e.value is None:
        return True, 'None'
    if isinstance(e, ast.IfExp):
        a, wa = _transport_peer(repo, h, node, e.body, req, depth)
        b, wb = _transport_peer(repo, h, node, e.orelse, req, depth)
        return a and b, f'{wa} | {wb}'
    if isinstance(e, ast.Subscript):
        return _transport_peer(repo, h, node, e.value, req, depth)
    if isinstance(e, ast.Call) and (call_name(e) or '').endswith('.getpeername'):
        return True, src(e)
    if isinstance(e, ast.Name) and depth < 4:
        g = h.cfg()
        defs = Q.reaching_defs(g, node, e.id)
        if not defs:
            return False, f'`{e.id}` is never bound'
        whys = []
        for d in defs:
            if not (d.kind == 'stmt' and isinstance(d.ast, ast.Assign)):
                return False, f'`{e.id}` bound by `{d.text[:40]}`'
            ok, why = _transport_peer(repo, h, d, d.ast.value, req, depth + 1)
            whys.append(why)
            if not ok:
                return False, why
        return True, ' | '.join(whys)
    if isinstance(e, ast.Call) and isinstance(e.func, ast.Attribute) and src(e.func.value) == 'self' and h.cls is not None and depth < 4:
        m = h.cls.lookup(e.func.attr)
        if m is None:
            return False, f'`{src(e)}`: unknown method'
        gm = m.cfg()
        whys = []
        for rn in gm.nodes:
            if rn.kind == 'stmt' and isinstance(rn.ast, ast.Return):
                v = rn.ast.value
                if v is not None and src(v).endswith('.remote.ip'):
                    # the fall-back for a request that has no socket (built by hand): only when there is no socket to ask
                    q = pat.guarded_by(gm, rn, pat.test_edge(lambda tt, pol: (lambda fc: fc is not None and fc[1] in ('is', '==') and fc[2] == 'None')(pat.compare_fact(tt, pol))))
                    if q is not None:
                        return False, f'`{src(v)}` returned although the request has a socket'
                    whys.append('remote.ip without a socket')
                    continue
                ok, why = _transport_peer(repo, m, rn, v if v is not None else ast.Constant(value=None), req, depth + 1)
                whys.append(why)
                if not ok:
                    return False, f'{m.name}: {why}'
        return bool(whys), f'{m.name}: ' + ' | '.join(whys)
    return False, f'`{src(e)[:60]}`'


def rule_trust_order(repo, chk):
    """The trust decision reads request.remote: it must run before every request handler that rewrites request.remote from client data."""
    from .common import attribute_writers, WEB_VHOSTS
    chk.rule('C20.f', 'VirtualHosts decides gateway trust on the address of the transport peer: its request handler has a strictly higher priority than every '
                      'request handler that assigns request.remote (tools.ReverseProxy takes it from a header the client controls)')
    v = repo.func(WEB_VHOSTS, 'VirtualHosts._on_request')
    chk.touch(v)

    def prio(f):
        if f.handler is None or f.handler.priority is None:
            return 0.0
        try:
            return float(ast.literal_eval(f.handler.priority))
        except Exception:
            return None
    pv = prio(v)
    n_w = 0
    for f, node, recv, val, m in attribute_writers(repo, 'remote'):
        if f is None or f.handler is None or 'request' not in f.handler.names or not m.relpath.startswith('circuits/web/'):
            continue
        n_w += 1
        chk.touch(f)
        pw = prio(f)
        chk.ob('f', v.ref, f'the trust decision (priority {pv}) runs before `{f.qualname}` (priority {pw}) rewrites request.remote', pv is not None and pw is not None and pv > pw,
               f'{m.relpath}:{node.lineno}', discr=f'trust-before-rewrite:{f.qualname}')
    chk.ob('f', v.ref, 'request handlers that rewrite request.remote were looked for', True, loc(v, v.node), detail=f'{n_w} found', discr='rewriters', nontrivial=False)
