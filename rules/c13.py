"""C13 — HTTP messages are parsed identically however the stream is segmented.

a  carry-over search: every framing search of the parser (find of CRLF / CRLFCRLF) looks at the joined carry buffer, to
   which the new data has been appended on every path; new data is never searched alone and never dropped
b  phase flags only go to True outside __init__; the leftover of a completed phase is stored back; a "need more data" exit
   keeps the carry
c  the server fires request only when the message is complete if a body was announced; the client fires response only
   under its completeness condition and then starts a new parser
d  the per-connection parser is kept on every "wait for more data" exit of HTTP._on_read and dropped on the path that
   fires request (typestate of the _buffers entry)
"""

import ast

from sa import AnalysisError, pat
from sa import query as Q
from sa.model import call_name, calls_in, src, walk_no_defs

from .common import http_func, PROTO_HTTP, WEB_HTTP, WEB_PARSER, loc, need

MIN_OBLIGATIONS = 22
JOIN = "b''.join(self._buf)"


def run(repo, chk):
    chk.not_decided = ['equality of the parsed fields (method, path, headers, body) — data, not control',
                       'pipelined requests (excluded by the property)', 'decompression state across reads']
    chk.rule('C13.a', 'framing searches range over carry + new data: haystacks derive from b\'\'.join(self._buf) and the new data is '
                      'appended to the carry (or is empty) before every search / body step')
    chk.rule('C13.b', 'phase flags are only ever set to True after __init__; leftovers are stored back when a phase completes; waiting keeps the carry')
    chk.rule('C13.c', 'request is fired only for a complete message when a body is announced; the client fires response only when its '
                      'completeness condition holds and then replaces the parser')
    chk.rule('C13.d', 'HTTP._on_read keeps the connection\'s parser on wait exits and drops it on the request path')
    p = repo.cls(WEB_PARSER, 'HttpParser')
    ex = need(p.methods.get('execute'), 'C13: HttpParser.execute missing')
    chk.touch(ex)
    rule_a(repo, chk, p, ex)
    rule_b(repo, chk, p, ex)
    rule_c_d(repo, chk)
    rule_e(repo, chk, p)
    rule_f(repo, chk)


def _body_roles(pb):
    """{actual local: role} in _parse_body: body_part / data = the joined carry of the plain / chunked branch; size, rest = result of the chunk-size step"""
    m = {}
    joins = [n for n in walk_no_defs(pb.node) if isinstance(n, ast.Assign) and isinstance(n.targets[0], ast.Name) and src(n.value).replace(' ', '') == "b''.join(self._buf)"]
    for n in joins:
        t = n.targets[0].id
        used_len = any(isinstance(w, ast.AugAssign) and src(w.target) == 'self._clen_rest' and src(w.value) == f'len({t})' for w in walk_no_defs(pb.node))
        passed = any(isinstance(c, ast.Call) and src(c.func) == 'self._parse_chunk_size' and c.args and src(c.args[0]) == t for c in calls_in(pb.node))
        if used_len:
            m[t] = 'body_part'
        elif passed:
            m[t] = 'data'
    for n in walk_no_defs(pb.node):
        if isinstance(n, ast.Assign) and isinstance(n.targets[0], ast.Tuple) and len(n.targets[0].elts) == 2 and isinstance(n.value, ast.Call) \
                and src(n.value.func) == 'self._parse_chunk_size' and all(isinstance(x, ast.Name) for x in n.targets[0].elts):
            m[n.targets[0].elts[0].id], m[n.targets[0].elts[1].id] = 'size', 'rest'
    return m


def _chunk_roles(pcs):
    m = {}
    dv = pcs.params[1]
    for n in walk_no_defs(pcs.node):
        if isinstance(n, ast.Assign) and isinstance(n.targets[0], ast.Name) and src(n.value).replace(' ', '') == f"{dv}.find(b'\\r\\n')":
            m[n.targets[0].id] = 'idx'
    iv = next((k for k, v in m.items() if v == 'idx'), 'idx')
    for n in walk_no_defs(pcs.node):
        if isinstance(n, ast.Assign) and isinstance(n.targets[0], ast.Tuple) and len(n.targets[0].elts) == 2 and isinstance(n.value, ast.Tuple) \
                and all(isinstance(x, ast.Name) for x in n.targets[0].elts) and src(n.value.elts[0]).replace(' ', '') == f'{dv}[:{iv}]':
            m[n.targets[0].elts[0].id], m[n.targets[0].elts[1].id] = 'line', 'rest_chunk'
    for n in walk_no_defs(pcs.node):
        if isinstance(n, ast.Assign) and isinstance(n.targets[0], ast.Name) and isinstance(n.value, ast.Call) and call_name(n.value) == 'int' and len(n.value.args) == 2:
            m[n.targets[0].id] = 'chunk_size'
    return m


def _searches(f):
    """find()/index() calls with a bytes constant containing CRLF → [(call, haystack src)]."""
    out = []
    for c in calls_in(f.node):
        if isinstance(c.func, ast.Attribute) and c.func.attr in ('find', 'index', 'split', 'partition') and c.args \
                and isinstance(c.args[0], ast.Constant) and isinstance(c.args[0].value, bytes) and b'\r\n' in c.args[0].value:
            out.append((c, src(c.func.value)))
    return out


def rule_a(repo, chk, p, ex):
    n_search = 0
    for f in p.methods.values():
        ss = _searches(f)
        if not ss:
            continue
        chk.touch(f)
        g = f.cfg()
        for c, hay in ss:
            if f.name == '_parse_trailers':
                continue  # operates on the remainder handed over by the chunk-size parser (same joined buffer)
            n_search += 1
            if c.func.attr in ('find', 'index') and len(c.args) > 1:
                seplen = len(c.args[0].value)
                okr, why = _start_offset_ok(f, c.args[1], hay, seplen)
                chk.ob('a', f.ref, f'a search that does not start at 0 starts early enough to find a separator straddling the previous end of data '
                                   f'(at most scanned − {seplen - 1})', okr, loc(f, c), detail=why, discr=f'search-start:{f.name}:{src(c.args[0])}')
            ok, detail = _derives_from_join(repo, p, f, g, c, hay, depth=2)
            chk.ob('a', f.ref, f'the framing search `{src(c)[:50]}` looks at the joined carry buffer', ok, loc(f, c), detail=detail,
                   discr=f'haystack:{f.name}:{src(c.args[0])}:{hay}')
    need(n_search >= 3, f'C13.a: only {n_search} framing searches found, 4 confirmed by hand')
    # execute: new data is appended to the carry before anything looks at the carry
    g = ex.cfg()
    dv = ex.params[1]
    apps = [n for n in g.nodes if n.kind == 'stmt' and any(r == 'self._buf' and [src(a) for a in c.args] == [dv] for r, c in pat.method_calls(n.ast, 'append'))]
    uses = [n for n in g.nodes if n.kind in ('stmt', 'test') and n.ast is not None and (JOIN in src(n.ast) or any(
        r == 'self' and c2.func.attr in ('_parse_body',) for r, c2 in pat.method_calls(n.ast, '_parse_body')))]
    need(apps and uses, 'C13.a: execute() does not append to / read the carry')
    empties = [n for n in g.nodes if n.kind == 'stmt' and isinstance(n.ast, ast.Assign) and src(n.ast.targets[0]) == dv and src(n.ast.value) == "b''"]
    empty_edge = pat.test_edge(lambda tt, pol: pol == 'F' and src(tt) == dv)
    for u in uses:
        # paths from entry to the use on which the current value of `data` was neither appended nor known empty
        q = Q.reachable_without(g, u, avoid_node=lambda n: n in apps or n in empties, avoid_edge=empty_edge)
        chk.ob('a', ex.ref, 'before the carry is searched / the body step runs, the new data has been appended to it (or is empty)', q is None,
               loc(ex, u.ast), path=pat.path_lines(q) if q else None, discr=f'appended-before:{u.text[:40]}')
    for a in apps:
        # once appended, data is consumed: it is re-bound before it could be appended again
        dup = None
        for e in a.succ:
            if e.kind == 'x' or dv in Q.node_defs(e.dst):
                continue
            seen, par = Q.search([e.dst], avoid_node=lambda n: dv in Q.node_defs(n))
            hit = [b for b in apps if b in seen]
            if hit:
                dup = Q.path_to(par, hit[0])
        chk.ob('a', ex.ref, 'appended data is not appended a second time (it is re-bound first)', dup is None, loc(ex, a.ast),
               path=pat.path_lines(dup, a) if dup else None, discr=f'no-double-append:{_phase_of(a)}')


def _start_offset_ok(f, start, hay, seplen):
    """A resume offset `V - k` (optionally clamped by max(0, …)) with k ≥ len(separator) − 1 is fine; anything else is not."""
    e = start
    if isinstance(e, ast.Constant) and e.value == 0:
        return True, 'starts at 0'
    if isinstance(e, ast.Call) and call_name(e) == 'max' and len(e.args) == 2:
        e = [a for a in e.args if not (isinstance(a, ast.Constant) and a.value == 0)][0] if any(isinstance(a, ast.Constant) and a.value == 0 for a in e.args) else e
    if isinstance(e, ast.BinOp) and isinstance(e.op, ast.Sub) and isinstance(e.right, ast.Constant) and isinstance(e.right.value, int):
        k = e.right.value
        if k >= seplen - 1:
            return True, f'resumes {k} bytes before `{src(e.left)}`'
        return False, f'`{src(start)}` resumes only {k} byte(s) before the previously scanned end; a {seplen}-byte separator may straddle it by {seplen - 1}'
    return False, f'start offset `{src(start)}` is not of the form scanned − k'


def _phase_of(n):
    p = getattr(n.ast, '_parent', None)
    while p is not None:
        if isinstance(p, ast.If) and '__on_' in src(p.test):
            return src(p.test)[:40]
        p = getattr(p, '_parent', None)
    return 'body'


def _derives_from_join(repo, p, f, g, call, hay, depth):
    """Is the haystack expression the joined carry (directly, via a local, or via a parameter fed with it at every call site)?"""
    if hay == JOIN:
        return True, 'joined in place'
    if '[' in hay and hay.split('[')[0].isidentifier():
        hay = hay.split('[')[0]   # a slice of the haystack: trace the sliced name
    if not hay.isidentifier():
        return False, f'haystack `{hay}` is not a name'
    nodes = g.node_for(call)
    if not nodes:
        return False, 'call site not in CFG'
    defs = Q.reaching_defs(g, nodes[0], hay)
    if not defs:
        return False, f'`{hay}` has no definition'
    for d in defs:
        if d.kind == 'entry':
            if hay not in f.params:
                return False, f'`{hay}` undefined'
            if depth <= 0:
                return False, 'call chain too deep'
            idx = f.params.index(hay) - 1
            sites = 0
            for m in p.methods.values():
                if m.name == '_parse_trailers':
                    continue  # works on the remainder of the same joined buffer
                for r, c in pat.method_calls(m.node, f.name):
                    if r != 'self' or len(c.args) <= idx:
                        continue
                    sites += 1
                    a = c.args[idx]
                    gm = m.cfg()
                    ok, det = _derives_from_join(repo, p, m, gm, c, src(a), depth - 1)
                    if not ok:
                        return False, f'call `{src(c)}` in {m.name}: {det}'
            if sites == 0:
                return False, f'no call site of {f.name} found'
            continue
        a = d.ast
        v = a.value if isinstance(a, ast.Assign) else None
        if v is None or src(v) != JOIN:
            return False, f'`{hay}` defined by `{d.text[:60]}`'
    return True, f'`{hay}` = {JOIN} on every path'


def rule_b(repo, chk, p, ex):
    flags = set()
    init = p.methods['__init__']
    for n in walk_no_defs(init.node):
        if isinstance(n, ast.Assign):
            for recv, attr, val in pat.attr_store(n):
                if recv == 'self' and attr.startswith('__on_') and pat.is_const(val, False):
                    flags.add(attr)
    need(len(flags) >= 3, 'C13.b: phase flags not found in HttpParser.__init__')
    for f in p.methods.values():
        if f.name == '__init__':
            continue
        for n in walk_no_defs(f.node):
            if isinstance(n, ast.Assign):
                for recv, attr, val in pat.attr_store(n):
                    if recv == 'self' and attr in flags:
                        chk.ob('b', f.ref, f'phase flag {attr} only ever goes to True', pat.is_const(val, True), loc(f, n), detail=f'`{src(n)}`',
                               discr=f'monotone:{attr}:{f.name}')
    # first line: leftover stored back when the line is complete; carry kept when it is not
    g = ex.cfg()
    fl = [n for n in g.nodes if n.kind == 'stmt' and 'self' in pat.stores_attr(n.ast, '__on_firstline', True)]
    need(fl, 'C13.b: execute() never completes the first line')
    stores = [n for n in g.nodes if n.kind == 'stmt' and 'self' in pat.stores_attr(n.ast, '_buf')]
    def _is_tail(v):
        # `[x]` where x is (a local holding) the part of the joined data after the line: `joined[idx + 2:]`
        if not (isinstance(v, ast.List) and len(v.elts) == 1):
            return False
        for e_ in pat.deref(ex, v.elts[0]):
            if isinstance(e_, ast.Subscript) and isinstance(e_.slice, ast.Slice) and e_.slice.lower is not None and e_.slice.upper is None:
                return True
        return False
    rest_st = [n for n in stores if isinstance(n.ast, ast.Assign) and _is_tail(n.ast.value)]
    for n in fl:
        okp = _parse_ok_edge(g)
        p_ = Q.escapes(g, [n], lambda m: m in rest_st, avoid_edge=lambda e: e.src.kind == 'test' and e.kind == 'F' and '_parse_firstline' in src(e.src.ast),
                       extra_exit=lambda m: m.kind == 'join' and isinstance(m.ast, ast.While))
        chk.ob('b', ex.ref, 'after a valid first line the rest of the data becomes the carry', p_ is None and bool(rest_st), loc(ex, n.ast),
               path=pat.path_lines(p_, n) if p_ else None, discr='firstline-leftover')
    # waiting for the end of the first line: the carry holds everything received so far
    wait_edges = [e for n in g.nodes if n.kind == 'test' for e in n.succ if pat.fact_matches(pat.compare_fact(n.ast, e.kind), 'idx', ('<',), '0')]
    for e in wait_edges:
        keep = [n for n in stores if src(n.ast.value) in ('[data]',)]
        apps = [n for n in g.nodes if n.kind == 'stmt' and any(r == 'self._buf' for r, _c in pat.method_calls(n.ast, 'append'))]
        # either the joined data is stored back, or nothing touched the carry after the append
        p_ = Q.escapes(g, [e.dst], lambda m: m in keep) if e.dst not in keep else None
        chk.ob('b', ex.ref, 'while the first line is incomplete everything received so far stays in the carry', p_ is None and bool(keep), loc(ex, e.src.ast),
               path=pat.path_lines(p_) if p_ else None, discr='firstline-wait-keeps-carry')
    # headers: leftover stored, wait path leaves the carry alone
    ph = p.methods['_parse_headers']
    chk.touch(ph)
    gh = ph.cfg()
    done = [n for n in gh.nodes if n.kind == 'stmt' and 'self' in pat.stores_attr(n.ast, '__on_headers_complete', True)]
    bufst = [n for n in gh.nodes if n.kind == 'stmt' and 'self' in pat.stores_attr(n.ast, '_buf')]
    bad = None
    for d in done:
        before = Q.reachable_without(gh, d, avoid_node=lambda m: m in bufst)
        after = Q.escapes(gh, [d], lambda m: m in bufst)
        if before is not None and after is not None:
            bad = before + after
    chk.ob('b', ph.ref, 'completing the headers stores the leftover as the new carry', bad is None and bool(done), loc(ph, ph.node),
           path=pat.path_lines(bad) if bad else None, discr='headers-leftover')
    waits = [n for n in gh.nodes if n.kind == 'stmt' and isinstance(n.ast, ast.Return) and pat.is_const(n.ast.value, False)]
    bad = None
    for w in waits:
        q = None
        for b in bufst:
            q = q or (Q.reachable_without(gh, w, start=b))
        bad = bad or q
    chk.ob('b', ph.ref, 'waiting for the end of the headers leaves the carry untouched', bool(waits) and bad is None, loc(ph, ph.node), discr='headers-wait-keeps-carry')
    # execute: a False result of _parse_headers means wait (return without touching the carry)
    hcalls = [n for n in g.nodes if n.kind == 'stmt' and isinstance(n.ast, ast.Assign) and any(True for _r, _c in pat.method_calls(n.ast, '_parse_headers'))]
    need(hcalls, 'C13.b: execute() does not call _parse_headers')
    rv = src(hcalls[0].ast.targets[0])
    wait_e = [e for n in g.nodes if n.kind == 'test' for e in n.succ if pat.fact_matches(pat.compare_fact(n.ast, e.kind), rv, ('is', '=='), 'False')]
    ok = bool(wait_e) and all(e.dst.kind == 'stmt' and isinstance(e.dst.ast, ast.Return) for e in wait_e)
    chk.ob('b', ex.ref, 'execute() returns (waits) when the headers are incomplete', ok, loc(ex, hcalls[0].ast), discr='headers-wait-returns')
    # chunked body: consumed chunk removed from the carry, incomplete chunk keeps it
    pb = p.methods['_parse_body']
    chk.touch(pb)
    from .common import renamed
    pb = renamed(pb, _body_roles(pb))
    gb = pb.cfg()
    appends = [n for n in gb.nodes if n.kind == 'stmt' and any(r == 'self._body' for r, _c in pat.method_calls(n.ast, 'append'))]
    bst = [n for n in gb.nodes if n.kind == 'stmt' and 'self' in pat.stores_attr(n.ast, '_buf')]
    bad = None
    for a in appends:
        q = Q.escapes(gb, [a], lambda m: m in bst)
        if q is not None:
            bad = q
    chk.ob('b', pb.ref, 'body bytes moved to the body are removed from the carry on every path', bad is None and bool(appends), loc(pb, pb.node),
           path=pat.path_lines(bad) if bad else None, discr='body-consumed')
    # Content-Length bodies: complete exactly when nothing is left to receive
    comp = [n for n in gb.nodes if n.kind == 'stmt' and 'self' in pat.stores_attr(n.ast, '__on_message_complete', True)]
    rest_edges = [e for n in gb.nodes if n.kind == 'test' for e in n.succ if pat.fact_matches(pat.compare_fact(n.ast, e.kind), 'self._clen_rest', ('<=',), '0')
                  or pat.fact_matches(pat.compare_fact(n.ast, e.kind), 'self._clen_rest', ('<',), '1') or pat.fact_matches(pat.compare_fact(n.ast, e.kind), 'self._clen_rest', ('==',), '0')]
    okc = bool(rest_edges) and all(e.dst in comp or Q.escapes(gb, [e.dst], lambda m: m in comp) is None for e in rest_edges)
    chk.ob('b', pb.ref, 'a Content-Length body is complete exactly when the remaining length reaches 0', okc, loc(pb, pb.node), discr='clen-complete-at-zero')
    dec = [n for n in gb.nodes if n.kind == 'stmt' and isinstance(n.ast, ast.AugAssign) and src(n.ast.target) == 'self._clen_rest' and isinstance(n.ast.op, ast.Sub)]
    okd = len(dec) == 1 and src(dec[0].ast.value) == 'len(body_part)' and all(Q.reachable_without(gb, a, avoid_node=lambda m: m in dec) is None
                                                                              for a in appends if not any(k == 'try' for k, _x in a.ctx) and Q.reaches(dec[0], a))
    chk.ob('b', pb.ref, 'the remaining length is reduced by exactly the number of body bytes consumed', okd, loc(pb, pb.node), discr='clen-decrement')
    # last chunk: complete only once the end of the trailer section (the final CRLF) is in the buffer
    pcs = p.methods.get('_parse_chunk_size')
    need(pcs, 'C13.b: _parse_chunk_size missing')
    chk.touch(pcs)
    pcs = renamed(pcs, _chunk_roles(pcs))
    gc = pcs.cfg()
    last = [n for n in gc.nodes if n.kind == 'stmt' and isinstance(n.ast, ast.Return) and isinstance(n.ast.value, ast.Tuple) and pat.is_const(n.ast.value.elts[0], 0)]
    need(last, 'C13.b: _parse_chunk_size never reports the last chunk')
    restv = None
    for n in gc.nodes:
        if n.kind == 'stmt' and isinstance(n.ast, ast.Assign) and isinstance(n.ast.targets[0], ast.Tuple) and len(n.ast.targets[0].elts) == 2 and 'idx + 2' in src(n.ast.value):
            restv = src(n.ast.targets[0].elts[1])

    def term_edge(e):
        if e.src.kind != 'test' or restv is None:
            return False
        f_ = pat.compare_fact(e.src.ast, e.kind)
        if f_ is None:
            return False
        if f_[1] == '==' and {f_[0].replace(' ', ''), f_[2]} == {f'{restv}[:2]', "b'\\r\\n'"}:
            return True
        if f_[1] == 'in' and f_[0] == "b'\\r\\n\\r\\n'" and f_[2] == restv:
            return True
        if e.kind == 'T' and isinstance(e.src.ast, ast.Call) and src(e.src.ast) in (f"{restv}.startswith(b'\\r\\n')",):
            return True
        return False
    for r in last:
        q = pat.guarded_by(gc, r, term_edge)
        chk.ob('b', pcs.ref, 'the last chunk is reported only when the terminating CRLF (end of the trailer section) has been received', q is None, loc(pcs, r.ast),
               path=pat.path_lines(q) if q else None, discr='last-chunk-waits-for-terminator')
    # chunk step: execute() reads a result of 0 as "last chunk"; a data chunk must therefore never report 0
    zero_ok = [n for n in gb.nodes if n.kind == 'stmt' and isinstance(n.ast, ast.Return) and n.ast.value is not None and src(n.ast.value) == 'size']
    for r in [n for n in gb.nodes if n.kind == 'stmt' and isinstance(n.ast, ast.Return) and n.ast.value is not None and src(n.ast.value).startswith('len(')
              and Q.reachable_without(gb, n, avoid_node=lambda m: m in appends) is None]:
        xv = src(r.ast.value)[4:-1]
        guards = [e for n in gb.nodes if n.kind == 'test' for e in n.succ
                  if (lambda fct: fct is not None and fct[0] == f'len({xv})' and fct[1] == '>=' and fct[2].isdigit() and int(fct[2]) >= 1)(pat.compare_fact(n.ast, e.kind))]
        okz = False
        for e in guards:
            # the guard dominates the return and the measured variable is not re-bound in between
            if pat.guarded_by(gb, r, lambda e2, e=e: e2 is e) is None:
                seen, _ = Q.search([e.dst], avoid_node=lambda m: xv in Q.node_defs(m))
                if r in seen:
                    okz = True
        chk.ob('b', pb.ref, 'after a data chunk the step never reports 0 (0 is reserved for the last chunk): the reported length is the one tested to be positive',
               okz, loc(pb, r.ast), detail=f'`{r.text}`', discr='chunk-step-nonzero')
    short = [e for n in gb.nodes if n.kind == 'test' for e in n.succ if e.kind == 'T' and ('len(rest) < size' in src(n.ast) or src(n.ast) == 'size is None')]
    bad = None
    for e in short:
        seen, par = Q.search([e.dst])
        hit = [b for b in bst if b in seen]
        if hit or e.dst in bst:
            bad = Q.path_to(par, hit[0]) if hit else []
    chk.ob('b', pb.ref, 'an incomplete chunk leaves the carry untouched (the step is retried with more data)', bool(short) and bad is None, loc(pb, pb.node),
           discr='chunk-wait-keeps-carry')


def _parse_ok_edge(g):
    return None


def rule_c_d(repo, chk):
    h = http_func(repo, 'HTTP._on_read')
    chk.touch(h)
    g = h.cfg()
    sock = h.params[1]
    # the request event variable
    reqv = None
    for n in g.nodes:
        if n.kind == 'stmt' and isinstance(n.ast, ast.Assign) and 'request(' in src(n.ast.value) and isinstance(n.ast.targets[0], ast.Name):
            reqv = n.ast.targets[0].id
    need(reqv, 'C13.c: _on_read never builds a request event')
    rf = [n for n in g.nodes if n.kind == 'stmt' and any(src(e) == reqv for _c, _r, e in pat.fire_calls(n.ast))]
    need(rf, 'C13.c: _on_read never fires the request event')
    complete_T = pat.test_edge(lambda tt, pol: pol == 'T' and src(tt).endswith('.is_message_complete()'))
    def _mentions(tt, what):
        # the atom itself, or the local it names, is computed from <what>
        if what in src(tt):
            return True
        if isinstance(tt, ast.Name):
            return any(what in src(e) for e in pat.local_feeds(h, tt.id))
        return False
    clen_F = pat.test_edge(lambda tt, pol: pol == 'F' and _mentions(tt, 'Content-Length'))
    # "not chunked" must be the parser's own verdict (the parser decides case-insensitively; a second, different test here would disagree)
    chunk_F = pat.test_edge(lambda tt, pol: pol == 'F' and _mentions(tt, '.is_chunked()'))
    own_tests = [n for n in g.nodes if n.kind == 'test' and 'Transfer-Encoding' in src(n.ast)]
    chk.ob('c', h.ref, 'whether a body is chunked is decided by the parser alone (no second, possibly disagreeing test on the raw header)', not own_tests,
           loc(h, (own_tests[0].ast if own_tests else h.node)), detail='; '.join(src(n.ast) for n in own_tests), discr='chunked-verdict-from-parser')
    for r in rf:
        q1 = pat.guarded_by(g, r, lambda e: complete_T(e) or clen_F(e))
        q2 = pat.guarded_by(g, r, lambda e: complete_T(e) or chunk_F(e))
        chk.ob('c', h.ref, 'request is fired only when the message is complete, or when neither a Content-Length nor chunked encoding announces a body',
               q1 is None and q2 is None, loc(h, r.ast), path=pat.path_lines(q1 or q2) if (q1 or q2) else None, discr='request-when-complete')
        q = pat.guarded_by(g, r, pat.test_edge(lambda tt, pol: pol == 'T' and src(tt).endswith('.is_headers_complete()')))
        chk.ob('c', h.ref, 'request is fired only after the headers are complete', q is None, loc(h, r.ast), discr='request-after-headers')
        # d: parser dropped on the request path
        dels = [n for n in g.nodes if n.kind == 'stmt' and isinstance(n.ast, ast.Delete) and any(src(t) == f'self._buffers[{sock}]' for t in n.ast.targets)]
        q = Q.reachable_without(g, r, avoid_node=lambda n: n in dels)
        chk.ob('d', h.ref, 'the parser of the connection is dropped on the path that fires request (the next request starts a fresh one)', q is None and bool(dels),
               loc(h, r.ast), path=pat.path_lines(q) if q else None, discr='dropped-on-request')
        bod = [n for n in g.nodes if n.kind == 'stmt' and 'req' in pat.stores_attr(n.ast, 'body') and 'recv_body()' in src(n.ast.value)]
        q = Q.reachable_without(g, r, avoid_node=lambda n: n in bod)
        chk.ob('c', h.ref, 'the request body is taken from the parser before the request is fired', q is None and bool(bod), loc(h, r.ast), discr='body-attached')
    chk.ob('c', h.ref, 'request is fired from exactly one site', len(rf) == 1, loc(h, h.node), discr='request-once')
    # the front end rejects on the parser's error state in both phases: the parser must keep that state for what more data cannot cure — a condition that
    # depends on where the read was cut (the terminator of a chunk has not arrived yet) is a wait, not an error
    pbody = repo.func(WEB_PARSER, 'HttpParser._parse_body')
    gpb = pbody.cfg()
    estores = [n for n in gpb.nodes if n.kind == 'stmt' and 'self' in pat.stores_attr(n.ast, 'errno') and not pat.is_const(getattr(n.ast, 'value', None), None)]
    short = pat.test_edge(lambda tt, pol: (lambda fc: fc is not None and fc[0].startswith('len(') and fc[1] in ('<', '<='))(pat.compare_fact(tt, pol)))
    for n in estores:
        in_handler = any(k == 'except' for k, _a in n.ctx)
        after_short = [e for t_ in gpb.nodes if t_.kind == 'test' for e in t_.succ if short(e) and (e.dst is n or Q.reaches(e.dst, n))]
        chk.ob('c', pbody.ref, 'the parser records an error only for what can never become valid: not on a path where it has just found that data is still missing',
               in_handler or not after_short, loc(pbody, n.ast), detail='; '.join(src(e.src.ast) for e in after_short[:2]), discr='errno-never-transient')
    # d: wait exits keep the parser — no path drops the parser and then leaves without firing anything
    fires = [n for n in g.nodes if n.kind in ('stmt',) and pat.fire_calls(n.ast)]
    dels = [n for n in g.nodes if n.kind == 'stmt' and isinstance(n.ast, ast.Delete) and any(src(t) == f'self._buffers[{sock}]' for t in n.ast.targets)]
    bad = None
    for d in dels:
        before = Q.reachable_without(g, d, avoid_node=lambda n: n in fires, exc=())
        after = Q.escapes(g, [d], lambda n: n in fires, exc=())
        if before is not None and after is not None:
            bad = before + after
    chk.ob('d', h.ref, 'the parser is never dropped on a path that then just waits for more data', bad is None, loc(h, h.node),
           path=pat.path_lines(bad) if bad else None, discr='kept-on-wait')
    # parser fetched per connection and fed with exactly the new data
    fetch = [n for n in g.nodes if n.kind == 'stmt' and isinstance(n.ast, ast.Assign) and src(n.ast.value).replace(', None)', ')') in (f'self._buffers[{sock}]', f'self._buffers.get({sock})')]
    new = [n for n in g.nodes if n.kind == 'stmt' and isinstance(n.ast, ast.Assign) and 'HttpParser(' in src(n.ast.value) and
           any(src(t) == f'self._buffers[{sock}]' for t in n.ast.targets)]
    chk.ob('d', h.ref, 'the parser is looked up per connection and created (and stored) for a new one', bool(fetch) and bool(new), loc(h, h.node),
           discr='parser-per-connection')
    getv = {n.ast.targets[0].id for n in fetch if '.get(' in src(n.ast.value) and isinstance(n.ast.targets[0], ast.Name)}
    absent = pat.test_edge(lambda tt, pol: pat.fact_matches(pat.compare_fact(tt, pol), sock, ('not in',), 'self._buffers') or
                           any(pat.fact_matches(pat.compare_fact(tt, pol), v, ('is', '=='), 'None') for v in getv))
    for n in fetch:
        # `if sock in self._buffers: parser = self._buffers[sock]`, or `parser = self._buffers.get(sock)`; a new parser only when there is none
        q = None if '.get(' in src(n.ast.value) else pat.guarded_by(g, n, pat.test_edge(lambda tt, pol: pat.fact_matches(pat.compare_fact(tt, pol), sock, ('in',), 'self._buffers')))
        for m in new:
            q = q or pat.guarded_by(g, m, absent)
        chk.ob('d', h.ref, 'an existing parser is reused while its message is incomplete', q is None, loc(h, n.ast), discr='parser-reused')
    execs = [c for _r, c in pat.method_calls(h.node, 'execute')]
    ok = len(execs) == 1 and [src(a) for a in execs[0].args] == [h.params[2], f'len({h.params[2]})']
    chk.ob('d', h.ref, 'each read is fed to the parser exactly once, with its true length', ok, loc(h, h.node), detail='; '.join(src(c) for c in execs), discr='fed-once')
    # client side
    c = repo.func(PROTO_HTTP, 'HTTP._on_client_read')
    chk.touch(c)
    from .common import snapshot_view
    c = snapshot_view(c)
    gc = c.cfg()
    rs = [n for n in gc.nodes if n.kind == 'stmt' and pat.fires(n.ast, 'response')]
    need(rs, 'C13.c: the client never fires response')
    done_ = lambda e: e.src.kind == 'test' and e.kind == 'T' and 'is_message_complete()' in src(e.src.ast) or (  # noqa: E731
        e.src.kind == 'test' and pat.fact_matches(pat.compare_fact(e.src.ast, e.kind), 'self._parser._clen', ('==',), '0'))
    upg_ = lambda e: e.src.kind == 'test' and e.kind == 'T' and 'is_upgrade()' in src(e.src.ast)  # noqa: E731
    sw_ = lambda e: e.src.kind == 'test' and (lambda f_: f_ is not None and 'get_status_code()' in f_[0] and f_[1] == '==' and f_[2] == '101')(pat.compare_fact(e.src.ast, e.kind))  # noqa: E731
    for r in rs:
        q = pat.guarded_by(gc, r, lambda e: done_(e) or upg_(e))
        chk.ob('c', c.ref, 'the client fires response only when the message is complete (or upgrade / announced empty body)', q is None, loc(c, r.ast),
               path=pat.path_lines(q) if q else None, discr='response-when-complete')
        # "Connection: Upgrade" on an ordinary response is an offer: only a 101 response is complete at the end of its headers because of it
        q = pat.guarded_by(gc, r, lambda e: done_(e) or sw_(e))
        chk.ob('c', c.ref, 'an upgrade header ends the message at the headers only for a 101 response', q is None, loc(c, r.ast),
               path=pat.path_lines(q) if q else None, discr='upgrade-only-101')
        newp = [n for n in gc.nodes if n.kind == 'stmt' and 'self' in pat.stores_attr(n.ast, '_parser') and 'HttpParser(' in src(n.ast.value)]
        p_ = Q.escapes(gc, [r], lambda n: n in newp)
        chk.ob('c', c.ref, 'after a response the client starts a fresh parser', p_ is None and bool(newp), loc(c, r.ast), discr='parser-replaced')
    # a response whose body is delimited by the end of the connection is completed by that end; and no parser state outlives its connection
    pcls = repo.cls(PROTO_HTTP, 'HTTP')
    dh = [m for m in pcls.methods.values() if m.handler is not None and 'disconnected' in m.handler.names and not getattr(m, 'absorbed', False)]
    chk.ob('c', c.ref, 'the HTTP client handles the end of its connection', bool(dh), loc(c, c.node), discr='client-handles-disconnected')
    for m in dh:
        chk.touch(m)
        gm = m.cfg()
        fresh = [n for n in gm.nodes if n.kind == 'stmt' and 'self' in pat.stores_attr(n.ast, '_parser') and 'HttpParser(' in src(n.ast.value)]
        p_ = Q.escapes(gm, [gm.entry], lambda n: n in fresh, exc=())
        chk.ob('c', m.ref, 'when the connection ends the client starts a fresh parser on every path (a half-parsed response must not swallow the next connection\'s)',
               p_ is None and bool(fresh), loc(m, m.node), path=pat.path_lines(p_) if p_ else None, discr='client-parser-reset-on-disconnect')
        fires_ = [n for n in gm.nodes if n.kind == 'stmt' and pat.fires(n.ast, 'response')]
        okf = bool(fires_)
        for n in fires_:
            for need_ in ('.is_headers_complete()',):
                if pat.guarded_by(gm, n, pat.test_edge(lambda tt, pol: pol == 'T' and src(tt).endswith(need_))) is not None:
                    okf = False
            # not for a message that is complete already (it was delivered by the read handler) nor for one whose length was announced (it is truncated)
            if pat.guarded_by(gm, n, pat.test_edge(lambda tt, pol: pol == 'F' and src(tt).endswith('.is_message_complete()'))) is not None:
                okf = False
            if pat.guarded_by(gm, n, pat.test_edge(lambda tt, pol: pol == 'F' and src(tt).endswith('.is_chunked()'))) is not None:
                okf = False
            if pat.guarded_by(gm, n, pat.test_edge(lambda tt, pol: (lambda fc: fc is not None and fc[0].endswith('._clen') and fc[1] in ('is', '==') and fc[2] == 'None')(
                    pat.compare_fact(tt, pol)))) is not None:
                okf = False
        chk.ob('c', m.ref, 'the end of the connection completes exactly a response whose headers are complete and whose body is delimited by closing (no length, not chunked, '
                           'not delivered yet)', okf, loc(m, m.node), discr='close-delimited-completed')
    q = None
    for n in gc.nodes:
        if n.kind == 'test' and '_clen' in src(n.ast):
            q = pat.guarded_by(gc, n, pat.test_edge(lambda tt, pol: pol == 'T' and 'is_headers_complete()' in src(tt)))
    chk.ob('c', c.ref, 'the announced-empty-body shortcut is taken only after the headers are complete', q is None, loc(c, c.node), discr='clen-after-headers')
    execs = [cc for _r, cc in pat.method_calls(c.node, 'execute')]
    ok = len(execs) == 1 and [src(a) for a in execs[0].args] == [c.params[1], f'len({c.params[1]})']
    chk.ob('d', c.ref, 'each read is fed to the client parser exactly once', ok, loc(c, c.node), discr='client-fed-once')


def rule_e(repo, chk, p):
    """Decisions taken on the buffered bytes must not depend on what else happens to be in the buffer."""
    chk.rule('C13.e', 'the header phase decides with prefix tests and searches, never by comparing the whole buffer with a constant (that depends on where '
                      'the read was cut); every way of completing the headers goes through the set-up of the body framing (length / chunked / until close)')
    f = need(p.methods.get('_parse_headers'), 'C13.e: HttpParser._parse_headers missing')
    chk.touch(f)
    g = f.cfg()
    dv = f.params[1]
    whole = [n for n in g.nodes if n.kind == 'test' and isinstance(n.ast, ast.Compare) and len(n.ast.ops) == 1 and isinstance(n.ast.ops[0], (ast.Eq, ast.NotEq))
             and ((src(n.ast.left) == dv and isinstance(n.ast.comparators[0], ast.Constant)) or (src(n.ast.comparators[0]) == dv and isinstance(n.ast.left, ast.Constant)))]
    chk.ob('e', f.ref, 'no decision compares the whole buffered data with a constant', not whole, loc(f, whole[0].ast if whole else f.node),
           detail='; '.join(src(n.ast) for n in whole), discr='no-whole-buffer-equality')
    # bodiless responses: framing is forced to "no body" for the status codes that never carry one (101 excepted: what follows belongs to the new protocol)
    forced = [n for n in g.nodes if n.kind == 'stmt' and any(r == 'self' and a == '_clen' and src(v) == '0' for r, a, v in pat.attr_store(n.ast))]
    codes = set()
    for n in g.nodes:
        if n.kind == 'test' and isinstance(n.ast, ast.Compare) and src(n.ast.left) == 'self._status_code' and isinstance(n.ast.ops[0], ast.In) \
                and isinstance(n.ast.comparators[0], (ast.Tuple, ast.Set, ast.List)):
            if any(e.dst in forced or (Q.escapes(g, [e.dst], lambda m: m in forced, exits=('exit',)) is None) for e in n.succ if e.kind == 'T'):
                codes |= {src(x) for x in n.ast.comparators[0].elts}
    chk.ob('e', f.ref, 'responses with status 204 and 304 (and the interim 1xx ones other than 101) are framed as having no body, whatever their header fields say',
           bool(forced) and {'204', '304'} <= codes and '101' not in codes, loc(f, forced[0].ast if forced else f.node), detail=f'forced to length 0 for {sorted(codes)}',
           discr='bodiless-statuses')
    done = [n for n in g.nodes if n.kind == 'stmt' and any(r == 'self' and a.endswith('__on_headers_complete') and src(v) == 'True' for r, a, v in pat.attr_store(n.ast))]
    framing = [n for n in g.nodes if n.kind == 'stmt' and any(r == 'self' and a in ('_clen_rest', '_chunked') for r, a, v in pat.attr_store(n.ast))]
    need(done, 'C13.e: _parse_headers never completes the headers')
    bad = None
    for d in done:
        bad = bad or Q.reachable_without(g, d, avoid_node=lambda n: n in framing)
    chk.ob('e', f.ref, 'the headers are declared complete only after the body framing was set up', bad is None and bool(framing), loc(f, done[0].ast),
           path=pat.path_lines(bad) if bad else None, discr='framing-before-complete')


def rule_f(repo, chk):
    """The HTTP front end keeps one parser per socket object: whoever turns a byte stream into read events must use one key per stream."""
    chk.rule('C13.f', 'a component that forwards a stream to the HTTP front end as read(sock, data) events passes the same socket object for every read of '
                      'that stream (never a socket object created in the forwarding handler itself)')
    n = 0
    for f in repo.all_functions():
        if not f.module.relpath.startswith('circuits/web/') or f.handler is None or 'read' not in f.handler.names:
            continue
        for c, _r, e in pat.fire_calls(f.node):
            if pat.event_ctor_name(e) == 'read' and len(e.args) == 2:
                n += 1
                chk.touch(f)
                key = e.args[0]
                fresh = isinstance(key, ast.Call) and (call_name(key) or '')[:1].isupper()
                if isinstance(key, ast.Name):
                    fresh = any(isinstance(v, ast.Call) and (call_name(v) or '')[:1].isupper() for v in pat.deref(f, key))
                chk.ob('f', f.ref, 'the socket key of the forwarded read is not an object made for this one read', not fresh, loc(f, c), detail=src(c)[:80],
                       discr='one-key-per-stream')
    need(n >= 1, 'C13.f: no read-forwarding handler found (StdinServer.read was confirmed by hand)')
