"""C05 — `complete` fires exactly once, after the whole causal closure has drained.

a  every normal path through the dispatcher reaches the effects accounting (also for cancelled events)
b  every site that runs handler code is dominated by publishing *that* event as currently handled (the link target
   of _fire), with no withdrawal in between
c  <name>_complete is fired only when the counter is not positive after exactly one decrement, only if requested,
   and is followed on every path by removing the cause link before walking to the cause
d  cause/effects of a completion-requesting event are initialised before the event is published
e  prepare_unregister requests completion, addresses it to the component, and the component handles it on itself
f  link pairing in _fire: cause, own counter and the cause's counter are set together, only when the currently
   handled event is tracked
"""

import ast

from sa import AnalysisError, pat
from sa import query as Q
from sa.model import call_name, calls_in, src, walk_no_defs

from .c04 import handler_sites
from .common import COMPONENTS, MANAGER, loc, need

MIN_OBLIGATIONS = 24


def run(repo, chk):
    chk.not_decided = [
        'events fired from other threads while a tracked event is handled are not linked (by design of _fire)',
        'whether user handlers keep references that resurrect events',
    ]
    chk.rule('C05.a', 'every normal path of the dispatcher calls _eventDone or the completion walk')
    chk.rule('C05.b', 'handler code only runs while its event is published as currently handled')
    chk.rule('C05.c', 'the completion walk decrements once per visited event, fires complete only at zero and if requested, '
                      'and removes the link before moving to the cause')
    chk.rule('C05.d', 'the dispatcher initialises cause/effects of a completion-requesting event before publishing it')
    chk.rule('C05.e', 'prepare_unregister: complete requested, addressed to the component, handled on the component itself')
    chk.rule('C05.f', 'in _fire a new event gets a cause exactly when its own counter is initialised and the cause\'s counter '
                      'incremented, under "currently handled event is tracked"')
    d = repo.func(MANAGER, 'Manager._dispatcher')
    t = repo.func(MANAGER, 'Manager.processTask')
    for f in (d, t):
        chk.touch(f)
    rule_a(chk, d)
    rule_cancelled(chk, d)
    rule_a_done(repo, chk)
    rule_b(chk, d)
    rule_b(chk, t)
    rule_c(repo, chk)
    rule_d(chk, d)
    rule_e(repo, chk)
    rule_f(repo, chk)
    rule_g(repo, chk)
    rule_thread_marker(repo, chk)
    rule_adoption(repo, chk)
    rule_context_handover(repo, chk)


def rule_thread_marker(repo, chk):
    """_fire links a new event to the handled one only when it is called from the loop's thread, which it recognises by a marker attribute: every place
    of the Manager that runs handler code (the flush that invokes the dispatcher, the task stepping of tick()) must run with that marker set."""
    chk.rule('C05.h', 'handler code — dispatching in _flush(), task steps in tick() — runs with the loop-thread marker that _fire consults set to the current '
                      'thread, and the marker is restored on every exit')
    fi = repo.func(MANAGER, 'Manager._fire')
    markers = set()
    for n in walk_no_defs(fi.node):
        if isinstance(n, ast.Assign) and isinstance(n.value, ast.BoolOp) and isinstance(n.value.op, ast.Or):
            attrs = [v.attr for v in n.value.values if isinstance(v, ast.Attribute) and src(v.value) == 'self' and v.attr.endswith('_thread')]
            if len(attrs) == len(n.value.values):
                markers |= set(attrs)
    need(markers, 'C05.h: _fire does not identify the loop thread by marker attributes')
    flushing = sorted(m for m in markers if 'flush' in m)
    need(flushing, f'C05.h: no flushing marker among {sorted(markers)}')
    mk = flushing[0]
    n_sites = 0
    for qual, callee in (('Manager._flush', '_dispatcher'), ('Manager.tick', 'processTask')):
        f = repo.func(MANAGER, qual)
        chk.touch(f)
        g = f.cfg()
        sites = [n for n in g.nodes if n.ast is not None and n.kind in ('stmt', 'for', 'test') and
                 any((isinstance(c.func, ast.Attribute) and c.func.attr == callee and src(c.func.value) == 'self') or any(src(a) == f'self.{callee}' for a in c.args)
                     for c in pat.node_calls(n))]
        need(sites, f'C05.h: {qual} does not reach {callee}')
        sets = [n for n in g.nodes if n.kind == 'stmt' and any(r == 'self' and a == mk and 'current_thread()' in src(v) for r, a, v in pat.attr_store(n.ast))]
        others = [n for n in g.nodes if n.kind == 'stmt' and any(r == 'self' and a == mk for r, a, v in pat.attr_store(n.ast)) and n not in sets]
        for s_ in sites:
            n_sites += 1
            p = Q.reachable_without(g, s_, avoid_node=lambda n: n in sets, weak=True)
            chk.ob('h', f.ref, f'`{callee}` runs only after the loop-thread marker `{mk}` was set to the current thread', p is None and bool(sets), loc(f, s_.ast),
                   path=pat.path_lines(p) if p else None, discr=f'marker-set:{callee}')
            bad = None
            for o in others:
                q = Q.reachable_without(g, s_, start=o, avoid_node=lambda n: n in sets, weak=True)
                if q is not None:
                    bad = q
            chk.ob('h', f.ref, f'the marker is not withdrawn before `{callee}` runs', bad is None, loc(f, s_.ast), path=pat.path_lines(bad) if bad else None,
                   discr=f'marker-kept:{callee}')
        for st in sets:
            p = Q.escapes(g, [st], lambda n: n in others, exits=('exit', 'raise'), weak=True)
            chk.ob('h', f.ref, 'the previous marker is restored on every exit, also an exceptional one', p is None and bool(others), loc(f, st.ast),
                   path=pat.path_lines(p, st) if p else None, discr=f'marker-restored:{qual.split(".")[1]}')
        # … restored, not cleared: the routine is re-entered (a handler calls flush() or tick()), and when the inner call returns the outer one is still dispatching
        for o in others:
            vals = [v for r, a, v in pat.attr_store(o.ast) if r == 'self' and a == mk]
            okv = bool(vals)
            for v in vals:
                if not isinstance(v, ast.Name):
                    okv = False
                    continue
                ds = Q.reaching_defs(g, o, v.id)
                okv = okv and bool(ds) and all(d.kind == 'stmt' and isinstance(d.ast, ast.Assign) and src(d.ast.value) == f'self.{mk}' and
                                               all(Q.reachable_without(g, s2, avoid_node=lambda n, d=d: n is d) is None for s2 in sets) for d in ds)
            chk.ob('h', f.ref, 'what is put back into the marker on exit is the value read before it was set (a nested flush()/tick() of a handler must leave the outer '
                               'one marked)', okv, loc(f, o.ast), detail=f'`{src(o.ast)}`', discr=f'marker-previous:{qual.split(".")[1]}')
    need(n_sites >= 2, f'C05.h: {n_sites} handler-running sites, 2 confirmed by hand')
    # tick() may be called from inside a step of a generator handler (directly, through stop() in a hand-driven loop, through a flush the step makes): stepping that very
    # generator again raises "generator already executing", which the stepper books as the handler having finished
    t = repo.func(MANAGER, 'Manager.tick')
    gt = t.cfg()
    steps = [n for n in gt.nodes if n.kind == 'stmt' and any(r == 'self' for r, _c in pat.method_calls(n.ast, 'processTask'))]
    idle = pat.test_edge(lambda tt, pol: pol == 'F' and 'gi_running' in src(tt))
    for n in steps:
        q = pat.guarded_by(gt, n, idle)
        chk.ob('h', t.ref, 'a task whose generator is executing right now (tick() called from one of its own steps) is not stepped', q is None, loc(t, n.ast),
               path=pat.path_lines(q) if q else None, discr='running-generator-not-stepped')


def rule_adoption(repo, chk):
    """Events enter a root's queue by _fire (C05.f) and by the drain of the private queue of a component that is being registered: the second route links
    them too when a tracked event is being handled."""
    chk.rule('C05.i', 'registerChild links the events drained from the new component\'s own queue to the currently handled tracked event (cause, own counter, cause '
                      'counter) before they join the root queue')
    f = repo.func(MANAGER, 'Manager.registerChild')
    chk.touch(f)
    g = f.cfg()
    comp = f.params[1]
    drains = [n for n in g.nodes if n.kind == 'stmt' and any(c.args and src(c.args[0]) == f'{comp}._queue' for _r, c in pat.method_calls(n.ast, 'drainFrom'))]
    need(drains, 'C05.i: registerChild does not drain the component queue')
    loops = [n for n in g.nodes if n.kind == 'for' and src(n.ast.iter).startswith(f'{comp}._queue')]
    chk.ob('i', f.ref, 'the drained events are visited before the drain', bool(loops) and all(Q.reaches(lp, d) for lp in loops for d in drains), loc(f, drains[0].ast),
           discr='visits-drained')
    for lp in loops:
        body = [n for n in g.nodes if n.kind == 'stmt' and ('loop', lp.ast) in n.ctx]
        cause = [n for n in body if pat.stores_attr(n.ast, 'cause')]
        own = [n for n in body if pat.stores_attr(n.ast, 'effects') and isinstance(n.ast, ast.Assign) and pat.is_const(n.ast.value, 1)]
        inc = [n for n in body if isinstance(n.ast, ast.AugAssign) and isinstance(n.ast.target, ast.Attribute) and n.ast.target.attr == 'effects' and isinstance(n.ast.op, ast.Add)
               and pat.is_const(n.ast.value, 1)]
        chk.ob('i', f.ref, 'each drained event gets the cause, its own counter and the cause counter incremented', bool(cause and own and inc), loc(f, lp.ast),
               detail=f'cause stores {len(cause)}, own-counter stores {len(own)}, increments {len(inc)}', discr='link-triple')
        cv = {src(n.ast.value) for n in cause}
        handled = {src(n.ast.targets[0]) for n in g.nodes if n.kind == 'stmt' and isinstance(n.ast, ast.Assign) and isinstance(n.ast.targets[0], ast.Name)
                   and src(n.ast.value).endswith('._currently_handling')} | {x for x in cv if x.endswith('._currently_handling')}
        chk.ob('i', f.ref, 'the cause is the currently handled event, and the counter incremented is its counter', bool(cv) and cv <= handled and
               all(src(n.ast.target.value) in cv for n in inc), loc(f, (cause or [lp])[0].ast), discr='cause-value')
        # under "a tracked event is being handled (by this thread)" the drain is reached only through the loop
        tracked = [e for n in g.nodes if n.kind == 'test' and "'cause'" in src(n.ast) for e in n.succ if e.kind == 'T']
        ok = bool(tracked)
        path = None
        for d in drains:
            q = pat.guarded_by(g, lp, lambda e: e in tracked)
            if q is not None:
                ok, path = False, q
        chk.ob('i', f.ref, 'linking happens only when the currently handled event is itself tracked', ok, loc(f, lp.ast), path=pat.path_lines(path) if path else None,
               discr='tracked-guard')


def rule_context_handover(repo, chk):
    """A component that is its own root may register in another tree from one of its own handlers (drainFrom hands the rest of its batch over for that case).  What that
    handler fires afterwards goes to the new root, whose 'currently handled event' knows nothing of the dispatch that is still going on in the old one."""
    f = repo.func(MANAGER, 'Manager.registerChild')
    g = f.cfg()
    comp = f.params[1]
    hand = [n for n in g.nodes if n.kind == 'stmt' and any(a == '_currently_handling' and f'{comp}._currently_handling' in src(v) for _r, a, v in pat.attr_store(n.ast))]
    chk.ob('i', f.ref, 'a component that registers while it is dispatching hands the event it is handling over to the new root (what its handler fires next is still an effect '
                       'of that event)', bool(hand), loc(f, f.node), discr='dispatch-context-handed-over')


def _accounting(n):
    return n.kind == 'stmt' and any(True for m in ('_eventDone', '_eventComplete') for _r, _c in pat.method_calls(n.ast, m))


def rule_a(chk, d):
    g = d.cfg()
    p = Q.escapes(g, [g.entry], _accounting)
    chk.ob('a', d.ref, 'every normal path of the dispatcher reaches the effects accounting', p is None, loc(d, d.node),
           path=pat.path_lines(p) if p else None, discr='accounting-on-all-paths')
    ev = d.params[1]
    for n in g.nodes:
        if _accounting(n):
            for m in ('_eventDone', '_eventComplete'):
                for _r, c in pat.method_calls(n.ast, m):
                    chk.ob('a', d.ref, 'the accounting is done for the dispatched event', bool(c.args) and src(c.args[0]) == ev,
                           loc(d, c), detail=f'`{src(c)}`', discr=f'accounting-arg:{m}')


def rule_cancelled(chk, d):
    """A cancelled event takes the short way out of the dispatcher.  A handler suspended on it (call()/wait()) is resumed only by the done notification,
    which only _eventDone produces: the short way must produce it too, or the caller — and with it the completion of the caller's event — waits for ever."""
    g = d.cfg()
    ev = d.params[1]
    canc = [e for n in g.nodes if n.kind == 'test' and src(n.ast) == f'{ev}.cancelled' for e in n.succ if e.kind == 'T']
    if not canc:
        return
    rel = [n for n in g.nodes if n.kind == 'stmt' and (any(True for _r, _c in pat.method_calls(n.ast, '_eventDone')) or pat.fires(n.ast, 'child:done'))]
    ok = all(e.dst in rel or Q.escapes(g, [e.dst], lambda n: n in rel, exc=()) is None for e in canc)
    chk.ob('a', d.ref, 'a cancelled event releases the handlers that are suspended on it (the done notification of _eventDone), so that their own events can complete',
           ok, loc(d, canc[0].src.ast), discr='cancelled-releases-waiters')


def rule_a_done(repo, chk):
    e = repo.func(MANAGER, 'Manager._eventDone')
    chk.touch(e)
    g = e.cfg()
    ev = e.params[1]
    walks = [n for n in g.nodes if n.kind == 'stmt' and any(r == 'self' and c.args and src(c.args[0]) == ev for r, c in pat.method_calls(n.ast, '_eventComplete'))]
    p = Q.escapes(g, [g.entry], lambda n: n in walks, avoid_edge=pat.test_edge(
        lambda tt, pol: (pol == 'T' and src(tt) == f'{ev}.waitingHandlers') or pat.fact_matches(pat.compare_fact(tt, pol), f'{ev}.waitingHandlers', ('!=', '>'), '0')))
    chk.ob('a', e.ref, 'once no handler of the event is suspended, every path of _eventDone — also for an event whose handler raised — gives the '
                       'event\'s unit back to the completion accounting', p is None and bool(walks), loc(e, e.node), path=pat.path_lines(p) if p else None,
           discr='done-reaches-accounting')


def rule_b(chk, f):
    g = f.cfg()
    ev = f.params[1]
    sites = handler_sites(f)
    need(sites, f'C05.b: no handler site in {f.ref}')
    pubs = [n for n in g.nodes if n.kind == 'stmt' and 'self' in pat.stores_attr(n.ast, '_currently_handling') and src(n.ast.value) == ev]
    others = [n for n in g.nodes if n.kind == 'stmt' and 'self' in pat.stores_attr(n.ast, '_currently_handling') and src(n.ast.value) != ev]
    for s in sites:
        p = Q.reachable_without(g, s, avoid_node=lambda n: n in pubs, weak=True)
        chk.ob('b', f.ref, 'the site is dominated by publishing its event as currently handled', p is None and bool(pubs), loc(f, s.ast),
               path=pat.path_lines(p) if p else None, discr=f'published:{s.lineno - f.node.lineno}' if False else f'published:{_key(s)}')
        # no other value is stored between a publish and the site
        bad = None
        for o in others:
            q = Q.reachable_without(g, s, start=o, avoid_node=lambda n: n in pubs, weak=True)
            if q is not None:
                bad = q
        chk.ob('b', f.ref, 'the publication is not withdrawn or replaced before the site runs', bad is None, loc(f, s.ast),
               path=pat.path_lines(bad) if bad else None, discr=f'not-withdrawn:{_key(s)}')
    if f.name == 'processTask':
        # the stepper restores what was published before, on every exit
        saved = [n for n in g.nodes if n.kind == 'stmt' and isinstance(n.ast, ast.Assign) and src(n.ast.value) == 'self._currently_handling']
        ok = False
        if saved:
            var = src(saved[0].ast.targets[0])
            rest = [n for n in others if src(n.ast.value) == var]
            p = Q.escapes(g, [pubs[0]] if pubs else [g.entry], lambda n: n in rest, exits=('exit', 'raise'), weak=True)
            ok = bool(rest) and p is None
        chk.ob('b', f.ref, 'the stepper restores the previously published event on every exit (also exceptional)', ok, loc(f, f.node),
               discr='restore')


    if f.name == '_dispatcher':
        # dispatching may nest (a handler calls flush() / tick()): when the inner dispatch ends, the outer handler's event is the handled one again
        saved = [n for n in g.nodes if n.kind == 'stmt' and isinstance(n.ast, ast.Assign) and src(n.ast.value) == 'self._currently_handling' and isinstance(n.ast.targets[0], ast.Name)
                 and all(not Q.reaches(p_, n) for p_ in pubs)]
        vars_ = {src(n.ast.targets[0]) for n in saved}
        rest = [n for n in others if src(n.ast.value) in vars_]
        wrong = [n for n in others if n not in rest]
        p = None
        for p_ in pubs:
            p = p or Q.escapes(g, [p_], lambda n: n in rest, exits=('exit',), exc=())
        chk.ob('b', f.ref, 'when the handlers have run the dispatcher re-publishes what was handled before it began (the enclosing handler\'s event, or nothing), '
                           'on every normal path', bool(rest) and p is None and not wrong, loc(f, (wrong or rest or [g.entry])[0].ast if (wrong or rest) else f.node),
               path=pat.path_lines(p) if p else None, discr='restore')


def _key(s):
    for c in pat.node_calls(s):
        nm = call_name(c) or ''
        if nm == 'next' or nm.split('.')[-1] in ('send', 'throw'):
            return nm.split('.')[-1] + ':' + src(c.args[0] if c.args and nm == 'next' else c.func)[:20]
    return 'call'


def rule_c(repo, chk):
    f = repo.func(MANAGER, 'Manager._eventComplete')
    chk.touch(f)
    g = f.cfg()
    ev = f.params[1]
    # the walk variable: the event whose counter is decremented (the parameter itself, or a local the walk was started from it with)
    for n_ in g.nodes:
        if n_.kind == 'stmt' and isinstance(n_.ast, ast.AugAssign) and isinstance(n_.ast.op, ast.Sub) and isinstance(n_.ast.target, ast.Attribute) \
                and n_.ast.target.attr == 'effects' and isinstance(n_.ast.target.value, ast.Name):
            wv = n_.ast.target.value.id
            if wv != ev and any(isinstance(v, ast.Name) and v.id == ev for v in pat.local_feeds(f, wv)):
                ev = wv
    fires = [n for n in g.nodes if n.kind == 'stmt' and pat.fires(n.ast, 'child:complete', f)]
    need(fires, 'C05.c: no fire of <name>_complete in the completion walk')
    decs = [n for n in g.nodes if n.kind == 'stmt' and isinstance(n.ast, ast.AugAssign) and src(n.ast.target) == f'{ev}.effects'
            and isinstance(n.ast.op, ast.Sub) and pat.is_const(n.ast.value, 1)]
    heads = [n for n in g.nodes if n.kind == 'join' and isinstance(n.ast, ast.While)]
    need(heads and decs, 'C05.c: completion walk has no loop or no decrement')
    head = heads[0]
    zero_edge = pat.test_edge(lambda t, pol: pat.fact_matches(pat.compare_fact(t, pol), f'{ev}.effects', ('<=', '=='), '0') or
                              (pol == 'F' and src(t) == f'{ev}.effects'))
    unlink = [n for n in g.nodes if n.kind == 'stmt' and (
        any(call_name(c) == 'delattr' and len(c.args) == 2 and src(c.args[0]) == ev and pat.is_const(c.args[1], 'cause') for c in calls_in(n.ast))
        or (isinstance(n.ast, ast.Delete) and any(src(x) == f'{ev}.cause' for x in n.ast.targets)))]
    moves = [n for n in g.nodes if n.kind == 'stmt' and isinstance(n.ast, ast.Assign) and src(n.ast.targets[0]) == ev and any(k == 'loop' for k, _a in n.ctx)]
    for n in fires:
        q = pat.guarded_by(g, n, zero_edge, start=head)
        chk.ob('c', f.ref, '<name>_complete is fired only when the counter is not positive', q is None, loc(f, n.ast),
               path=pat.path_lines(q) if q else None, discr='fire-at-zero')
        q = Q.reachable_without(g, n, start=head, avoid_node=lambda m: m in decs)
        chk.ob('c', f.ref, 'the counter is decremented before it is tested', q is None, loc(f, n.ast), path=pat.path_lines(q) if q else None,
               discr='decrement-first')
        q = pat.guarded_by(g, n, pat.test_edge(lambda t, pol: pol == 'T' and src(t) == f'{ev}.complete'), start=head)
        chk.ob('c', f.ref, '<name>_complete is fired only for events that requested it', q is None, loc(f, n.ast), discr='fire-if-requested')
        c = pat.fires(n.ast, 'child:complete', f)[0]
        chan_src = ' '.join(src(v) for a in c.args[1:] for v in pat.deref(f, a.value if isinstance(a, ast.Starred) else a))
        chan_ok = "complete_channels" in chan_src and f'{ev}.channels' in chan_src
        chk.ob('c', f.ref, '<name>_complete goes to complete_channels, defaulting to the event channels', chan_ok, loc(f, c), discr='complete-channels',
               nontrivial=False)
    chk.ob('c', f.ref, '<name>_complete is fired from exactly one site', len(fires) == 1, loc(f, f.node), discr='fire-once')
    # at zero: requested ⇒ fired; always unlink before moving on
    for tn in g.nodes:
        if tn.kind != 'test':
            continue
        for e in tn.succ:
            if zero_edge(e):
                p = Q.escapes(g, [e.dst], lambda m: m in unlink, exits=('exit',), extra_exit=lambda m: m is head) if e.dst not in unlink else None
                chk.ob('c', f.ref, 'when the counter reaches zero the cause link is removed before the walk continues', p is None and bool(unlink),
                       loc(f, tn.ast), path=pat.path_lines(p) if p else None, discr='unlink-at-zero')
                p = Q.escapes(g, [e.dst], lambda m: m in fires, exits=('exit',), extra_exit=lambda m: m is head,
                              avoid_edge=pat.test_edge(lambda t, pol: pol == 'F' and src(t) == f'{ev}.complete'))
                chk.ob('c', f.ref, 'when the counter reaches zero a requested <name>_complete is fired', p is None, loc(f, tn.ast),
                       path=pat.path_lines(p) if p else None, discr='fired-at-zero')
                p = Q.escapes(g, [e.dst], lambda m: m in moves, exits=('exit',), extra_exit=lambda m: m is head)
                chk.ob('c', f.ref, 'after finishing an event the walk moves on to its cause', p is None and bool(moves), loc(f, tn.ast),
                       path=pat.path_lines(p) if p else None, discr='walk-to-cause')
    # one decrement per iteration
    dup = False
    for a in decs:
        for e in a.succ:
            if e.kind == 'x' or e.dst is head:
                continue
            seen, _ = Q.search([e.dst], avoid_node=lambda n: n is head)
            if any(b in seen for b in decs):
                dup = True
    chk.ob('c', f.ref, 'exactly one decrement per visited event', len(decs) == 1 and not dup, loc(f, decs[0].ast), discr='single-decrement')
    for m in moves:
        cv = src(m.ast.value)
        reads = [n for n in g.nodes if n.kind == 'stmt' and isinstance(n.ast, ast.Assign) and src(n.ast.targets[0]) == cv]
        ok = bool(reads) and all("'cause'" in src(r.ast.value) or src(r.ast.value) == f'{ev}.cause' for r in reads)
        # the cause must be read before the link is deleted
        for r in reads:
            for u in unlink:
                # (a read that comes after the walk has moved on — `event = cause` — reads the link of the next event, which is intact)
                if Q.reachable_without(g, r, start=u, avoid_node=lambda n: n is head or n in moves) is not None:
                    ok = False
        chk.ob('c', f.ref, 'the next event of the walk is the cause read before the link was removed', ok, loc(f, m.ast), discr='cause-read-first')
    # only tracked events take part
    for dn in decs:
        q = pat.guarded_by(g, dn, pat.test_edge(lambda t, pol: (pol == 'F' and src(t).startswith('not ')) or (pol == 'T' and 'cause' in src(t))
                                                or (pol == 'F' and 'cause' in src(t) and False)), start=head)
        # `if not cause: break` → the F edge of atom `cause` leads to break; decrement must be on the T side
        q2 = Q.reachable_without(g, dn, start=head, avoid_edge=lambda e: e.src.kind == 'test' and e.kind == 'T' and 'cause' in src(e.src.ast))
        chk.ob('c', f.ref, 'only events with a cause link are decremented', q2 is None, loc(f, dn.ast), discr='tracked-only')


def rule_d(chk, d):
    g = d.cfg()
    ev = d.params[1]
    pubs = [n for n in g.nodes if n.kind == 'stmt' and 'self' in pat.stores_attr(n.ast, '_currently_handling') and src(n.ast.value) == ev]
    inits = [n for n in g.nodes if n.kind == 'stmt' and (ev in pat.stores_attr(n.ast, 'effects') or ev in pat.stores_attr(n.ast, 'cause'))]
    need(inits, 'C05.d: the dispatcher does not initialise cause/effects')
    eff = [n for n in inits if ev in pat.stores_attr(n.ast, 'effects')]
    cau = [n for n in inits if ev in pat.stores_attr(n.ast, 'cause')]
    comp_edge = pat.test_edge(lambda t, pol: pol == 'T' and src(t) == f'{ev}.complete')
    for n in inits:
        bad = None
        for p_ in pubs:
            q = Q.reachable_without(g, n, start=p_)
            if q is not None:
                bad = q
        chk.ob('d', d.ref, 'cause/effects are initialised before the event is published', bad is None, loc(d, n.ast),
               path=pat.path_lines(bad) if bad else None, discr=f'init-before-publish:{src(n.ast.targets[0])}')
    # a completion-requesting event always gets effects = 1 and a cause
    for label, group, val in (('effects', eff, '1'), ('cause', cau, None)):
        bad = None
        for tn in g.nodes:
            if tn.kind == 'test':
                for e in tn.succ:
                    if comp_edge(e):
                        skip = None
                        if label == 'cause':
                            def skip(e2):
                                # "the event already has a cause" (it was linked by _fire)
                                if e2.src.kind != 'test' or "'cause'" not in src(e2.src.ast):
                                    return False
                                if isinstance(e2.src.ast, ast.Compare):
                                    f_ = pat.compare_fact(e2.src.ast, e2.kind)
                                    return f_ is not None and f_[1] in ('is not', '!=') and f_[2] == 'None'
                                return e2.kind == 'T'
                        for p_ in pubs:
                            q = Q.reachable_without(g, p_, start=e.dst, avoid_node=lambda n: n in group, avoid_edge=skip) if e.dst not in group else None
                            if q is not None:
                                bad = q
        ok_val = all(val is None or src(n.ast.value) == val for n in group)
        chk.ob('d', d.ref, f'a completion-requesting event gets its {label} set before it is published', bad is None and bool(group) and ok_val,
               loc(d, (group or inits)[0].ast), path=pat.path_lines(bad) if bad else None, discr=f'init:{label}')
    for n in cau:
        chk.ob('d', d.ref, 'a root of completion tracking is its own cause', src(n.ast.value) == ev, loc(d, n.ast), discr='self-cause')


def rule_e(repo, chk):
    c = repo.cls(COMPONENTS, 'prepare_unregister')
    v = c.lookup_attr('complete')
    chk.ob('e', c.ref, 'prepare_unregister requests completion notification', v is not None and pat.is_const(v, True), c.module.relpath,
           discr='complete-flag')
    u = repo.func(COMPONENTS, 'BaseComponent.unregister')
    chk.touch(u)
    g = u.cfg()
    ctor = [n for n in g.nodes if n.kind == 'stmt' and isinstance(n.ast, ast.Assign) and isinstance(n.ast.value, ast.Call)
            and call_name(n.ast.value) == 'prepare_unregister']
    need(ctor, 'C05.e: unregister() does not create prepare_unregister')
    var = src(ctor[0].ast.targets[0])
    arg_ok = [src(a) for a in ctor[0].ast.value.args] == ['self']
    chk.ob('e', u.ref, 'prepare_unregister carries the component being removed', arg_ok, loc(u, ctor[0].ast), discr='event-arg')
    chans = [n for n in g.nodes if n.kind == 'stmt' and var in pat.stores_attr(n.ast, 'complete_channels')]
    ok = bool(chans) and src(chans[0].ast.value).replace(' ', '') in ('(self,)', '[self]')
    fires = [n for n in g.nodes if n.kind == 'stmt' and any(src(e) == var for _c, _r, e in pat.fire_calls(n.ast))]
    chk.ob('e', u.ref, 'its completion is addressed to the component itself', ok, loc(u, (chans or ctor)[0].ast), discr='complete-channels')
    p = None
    if fires and chans:
        p = Q.reachable_without(g, fires[0], avoid_node=lambda n: n in chans)
    chk.ob('e', u.ref, 'prepare_unregister is fired after its completion channel is set', bool(fires) and p is None, loc(u, (fires or ctor)[0].ast),
           discr='fired')
    init = repo.func(COMPONENTS, 'BaseComponent.__init__')
    chk.touch(init)
    h = init.nested.get('_on_prepare_unregister_complete')
    ok = False
    detail = 'no nested handler for prepare_unregister_complete'
    for nf in init.nested.values():
        if nf.handler and 'prepare_unregister_complete' in nf.handler.names:
            ch = nf.handler.channel
            calls = [c2 for _r, c2 in pat.method_calls(nf.node, '_do_prepare_unregister_complete')]
            added = any(c2.args and src(c2.args[0]) == nf.name for _r, c2 in pat.method_calls(init.node, 'addHandler'))
            ok = ch is not None and src(ch) == 'self' and bool(calls) and added
            detail = f'channel={src(ch) if ch is not None else None}, calls={len(calls)}, installed={added}'
    chk.ob('e', init.ref, 'every component installs a handler for prepare_unregister_complete on channel=itself that completes the removal',
           ok, loc(init, init.node), detail=detail, discr='handler-installed')


def rule_f(repo, chk):
    f = repo.func(MANAGER, 'Manager._fire')
    chk.touch(f)
    g = f.cfg()
    ev = f.params[1]
    cur = 'self._currently_handling'
    cause = [n for n in g.nodes if n.kind == 'stmt' and ev in pat.stores_attr(n.ast, 'cause')]
    own = [n for n in g.nodes if n.kind == 'stmt' and ev in pat.stores_attr(n.ast, 'effects')]
    def _x(n, text):
        return pat.expand_alias(f, n, text)        # `handling = self._currently_handling` read once into a local (same thread: no race)
    inc = [n for n in g.nodes if n.kind == 'stmt' and isinstance(n.ast, ast.AugAssign) and _x(n, src(n.ast.target)) == f'{cur}.effects'
           and isinstance(n.ast.op, ast.Add) and pat.is_const(n.ast.value, 1)]
    aliases_ = {src(n.ast.targets[0]) for n in g.nodes if n.kind == 'stmt' and isinstance(n.ast, ast.Assign) and src(n.ast.value) == cur and isinstance(n.ast.targets[0], ast.Name)}

    def mentions_cur(t):
        return cur in src(t) or any(a_ in Q.names_used(t) for a_ in aliases_)
    chk.ob('f', f.ref, '_fire links a new event to the currently handled one (cause, own counter, cause counter)', bool(cause and own and inc),
           loc(f, f.node), detail=f'cause stores {len(cause)}, own-counter stores {len(own)}, increments {len(inc)}', discr='link-exists')
    if not (cause and own and inc):
        return
    apps = [n for n in g.nodes if n.kind == 'stmt' and any(r == 'self._queue' for r, _c in pat.method_calls(n.ast, 'append'))]
    groups = {'cause': cause, 'own-counter': own, 'cause-counter': inc}
    for a, an in groups.items():
        for b, bn in groups.items():
            if a == b:
                continue
            bad = None
            for x in an:
                before = Q.reachable_without(g, x, avoid_node=lambda n: n in bn)
                after = Q.escapes(g, [x], lambda n: n in bn)
                if before is not None and after is not None:
                    bad = before + after
            chk.ob('f', f.ref, f'whenever {a} is set, {b} is set on the same path', bad is None, loc(f, an[0].ast),
                   path=pat.path_lines(bad) if bad else None, discr=f'pair:{a}->{b}')
    for n in cause:
        chk.ob('f', f.ref, 'the cause is the currently handled event', _x(n, src(n.ast.value)) == cur, loc(f, n.ast), discr='cause-value')
        q = pat.guarded_by(g, n, pat.test_edge(lambda t, pol: pol == 'T' and "'cause'" in src(t) and mentions_cur(t)))
        chk.ob('f', f.ref, 'linking happens only when the currently handled event is itself tracked', q is None, loc(f, n.ast),
               path=pat.path_lines(q) if q else None, discr='tracked-guard')
        q = pat.guarded_by(g, n, pat.test_edge(lambda t, pol: any(pat.fact_matches(pat.compare_fact(t, pol), c_, ('is not', '!='), 'None') for c_ in [cur, *aliases_])))
        chk.ob('f', f.ref, 'linking happens only when an event is being handled', q is None, loc(f, n.ast), discr='handling-guard')
    for n in own:
        chk.ob('f', f.ref, 'the new event counts itself once', src(n.ast.value) == '1', loc(f, n.ast), discr='own-counter-one')
    # tracked ⇒ linked: on the owner branch, when the guard holds, the link statements are passed before the append
    for tn in g.nodes:
        if tn.kind == 'test' and "'cause'" in src(tn.ast) and mentions_cur(tn.ast):
            for e in tn.succ:
                if e.kind == 'T':
                    for a in apps:
                        q = Q.reachable_without(g, a, start=e.dst, avoid_node=lambda n: n in cause) if e.dst not in cause else None
                        if Q.reaches(e.dst, a):
                            chk.ob('f', f.ref, 'when the currently handled event is tracked the new event is linked before it is queued',
                                   q is None, loc(f, tn.ast), path=pat.path_lines(q) if q else None, discr='tracked-implies-link')


def rule_g(repo, chk):
    chk.rule('C05.g', 'an event with generator handlers becomes done (and so can complete) only through the task stepper: every clause that retires a '
                      'generator releases its share of the waiting count, continues the caller and attempts completion (the accounting decided for C06.b)')
    n = chk.adopt('g', 'C06', repo, lambda o: o.rule == 'C06.b' and o.discr.split(':')[0] in ('caller-always-continued', 'decrement', 'complete-or-continue', 'retire'))
    need(n >= 6, f'C05.g: only {n} accounting obligations of the task stepper found')
