"""C01 — events reach exactly the matching handlers, using the live handler set.

a  cache coherence: every writer of {_handlers, _globals, components, parent, root} on a manager
   invalidates the dispatch cache of the root the manager belongs to afterwards (who-may-write + must-pass)
b  a component that becomes its own root outside __init__ invalidates its own cache
c  the dispatcher consults the cache only after the dirty-flag test; the flag is reset only with a clear
d  the memo key used for load and store mentions the event name and the channels
e  matcher truth table of getHandlers over a finite domain of channel values
f  getHandlers unions '*' handlers, named handlers, globals (unless excluded) and all children
"""

import ast
import itertools

from sa import AnalysisError, pat
from sa import query as Q
from sa.model import call_name, calls_in, src, walk_no_defs

from .common import COMPONENTS, MANAGER, loc, manager_classes, need

MIN_OBLIGATIONS = 18
STATE_CONTAINERS = ('_handlers', '_globals', 'components')
MUTATORS = {'add', 'remove', 'discard', 'update', 'pop', 'clear', 'setdefault', 'append', 'extend', 'popitem'}


def find_flag(repo):
    """The dirty flag: the attribute that both addHandler and removeHandler set to True on some manager (role-derived);
    falls back to the attribute the dispatcher tests and resets."""
    mgr = repo.cls(MANAGER, 'Manager')
    cands = None
    for name in ('addHandler', 'removeHandler'):
        f = mgr.methods.get(name)
        if f is None:
            raise AnalysisError(f'C01: Manager.{name} missing')
        attrs = set()
        for n in walk_no_defs(f.node):
            if isinstance(n, ast.Assign):
                for _recv, attr, val in pat.attr_store(n):
                    if pat.is_const(val, True):
                        attrs.add(attr)
        cands = attrs if cands is None else (cands & attrs)
    if cands and len(cands) == 1:
        return sorted(cands)[0]
    d = repo.func(MANAGER, 'Manager._dispatcher')
    g = d.cfg()
    resets = set()
    for n in g.nodes:
        if n.kind == 'stmt':
            for recv, attr, val in pat.attr_store(n.ast):
                if recv == 'self' and pat.is_const(val, False):
                    resets.add(attr)
    for n in g.nodes:
        if n.kind == 'test' and isinstance(n.ast, ast.Attribute) and src(n.ast.value) == 'self' and n.ast.attr in resets:
            return n.ast.attr
    # both invalidations were deleted and the dispatcher does not consume a flag: report through the writers rule
    return '_cache_needs_refresh'


def find_cache_attr(repo):
    """The memo: attribute of self subscripted with a tuple key in the dispatcher."""
    d = repo.func(MANAGER, 'Manager._dispatcher')
    for n in walk_no_defs(d.node):
        if isinstance(n, ast.Subscript) and isinstance(n.value, ast.Attribute) and src(n.value.value) == 'self':
            if isinstance(n.slice, ast.Tuple):
                return n.value.attr
            # the key may be computed into a local first: `key = (event.name, channels)`
            if isinstance(n.slice, ast.Name) and any(isinstance(e, ast.Tuple) for e in pat.flows_from(d, n.slice.id, depth=2)):
                return n.value.attr
    raise AnalysisError('C01: no memo `self.<cache>[(…)]` found in Manager._dispatcher')


class Inval:
    """Which cache receivers does each CFG node invalidate (directly or through always-invalidating callees)?"""

    def __init__(self, repo, flag, cache):
        self.repo = repo
        self.flag = flag
        self.cache = cache
        self.base = repo.cls(COMPONENTS, 'BaseComponent')
        self._always = {}

    def direct(self, stmt):
        out = set()
        if isinstance(stmt, (ast.Assign, ast.AugAssign, ast.AnnAssign)):
            out.update(pat.stores_attr(stmt, self.flag, True))
            for recv, attr, val in pat.attr_store(stmt):
                if attr == self.cache and isinstance(val, ast.Dict) and not val.keys:
                    out.add(recv)
        for recv, c in pat.method_calls(stmt, 'clear'):
            if recv.endswith('.' + self.cache):
                out.add(recv[: -len(self.cache) - 1])
        return out

    def node_invalidates(self, n, depth=2, func=None):
        if n.kind != 'stmt' or isinstance(n.ast, (ast.FunctionDef, ast.ClassDef)):
            return set()
        out = self.direct(n.ast)
        if func is not None:
            out = {pat.expand_alias(func, n, r) for r in out}
        if depth > 0:
            for c in calls_in(n.ast):
                if isinstance(c.func, ast.Attribute):
                    callee = self.base.lookup(c.func.attr)
                    if callee is not None and callee.cls is not None and callee.cls.is_subclass_of('Manager'):
                        recv = src(c.func.value)
                        if func is not None:
                            recv = pat.expand_alias(func, n, recv)       # `parent = self.parent; parent.unregisterChild(self)`
                        for r in self.always(callee, depth - 1):
                            if r == 'self' or r.startswith('self.'):
                                out.add(recv + r[4:])
        return out

    def always(self, func, depth=2):
        key = (func.ref, depth)
        if key in self._always:
            return self._always[key]
        self._always[key] = set()
        g = func.cfg()
        inv = {n: self.node_invalidates(n, depth, func) for n in g.nodes}
        cands = set().union(*inv.values()) if inv else set()
        res = set()
        for r in cands:
            if Q.escapes(g, [g.entry], lambda n, r=r: r in inv[n]) is None:
                res.add(r)
        self._always[key] = res
        return res


def sigma_writes(func, mgr_classes):
    """[(cfg node, kind, receiver, value_src)] for writes to the tree/handler state in *func*.

    kind: 'container:<attr>' | 'parent' | 'root'
    """
    out = []
    g = func.cfg()
    in_mgr = func.cls is not None and func.cls in mgr_classes
    for n in g.nodes:
        if n.kind != 'stmt' or isinstance(n.ast, (ast.FunctionDef, ast.ClassDef)):
            continue
        st = n.ast
        # container mutation
        for w in walk_no_defs(st):
            if isinstance(w, ast.Attribute) and w.attr in STATE_CONTAINERS:
                recv = src(w.value)
                p = getattr(w, '_parent', None)
                mut = False
                if isinstance(w.ctx, (ast.Store, ast.Del)):
                    mut = True
                # self._handlers[name] = ... / del self._handlers[name] / self._handlers[name].remove(x)
                cur = w
                while p is not None and isinstance(p, (ast.Subscript, ast.Attribute, ast.Call)) and \
                        (getattr(p, 'value', None) is cur or getattr(p, 'func', None) is cur):
                    if isinstance(p, ast.Subscript) and isinstance(p.ctx, (ast.Store, ast.Del)):
                        mut = True
                    if isinstance(p, ast.Attribute) and p.attr in MUTATORS:
                        pp = getattr(p, '_parent', None)
                        if isinstance(pp, ast.Call) and pp.func is p:
                            mut = True
                    cur = p
                    p = getattr(p, '_parent', None)
                if mut:
                    out.append((n, f'container:{w.attr}', recv, None))
        # … through a local that names one of the tables (`handlers = self._handlers[name]; handlers.remove(method)`)
        for c in calls_in(st):
            if isinstance(c.func, ast.Attribute) and c.func.attr in MUTATORS and isinstance(c.func.value, ast.Name):
                ex = pat.expand_alias(func, n, c.func.value.id)
                if ex != c.func.value.id:
                    try:
                        et = ast.parse(ex, mode='eval').body
                    except SyntaxError:
                        continue
                    for w in ast.walk(et):
                        if isinstance(w, ast.Attribute) and w.attr in STATE_CONTAINERS:
                            out.append((n, f'container:{w.attr}', src(w.value), None))
        for recv, attr, val in pat.attr_store(st):
            if attr in ('parent', 'root'):
                if recv == 'self':
                    if not in_mgr:
                        continue
                else:
                    if not in_mgr:
                        continue
                    if not _maybe_manager(func, n, recv):
                        continue
                # `self.root = self.parent = self`: chained targets share the value
                out.append((n, attr, recv, src(val)))
    # de-duplicate (several attribute nodes in one statement)
    seen = set()
    res = []
    for t in out:
        k = (t[0].id, t[1], t[2])
        if k not in seen:
            seen.add(k)
            res.append(t)
    return res


def _maybe_manager(func, node, recv):
    """Non-self receiver of a .parent/.root store: counted as a manager only when it is a parameter of the method or
    a loop variable over some `.components` (the typed cases of DESIGN §2.1). Locals bound to arbitrary calls (wait
    states, events, values) are not managers."""
    if not recv.isidentifier():
        return False
    g = func.cfg()
    defs = Q.reaching_defs(g, node, recv)
    for d in defs:
        if d.kind == 'entry' and recv in func.params:
            return True
        if d.kind == 'for' and 'components' in src(d.ast.iter):
            return True
    return False


def run(repo, chk):
    chk.not_decided = [
        'duplicates when an event is addressed to several channels (handlers are collected per channel and chained)',
        'handler inheritance performed by BaseComponent.__new__ at run time',
        'structural changes made concurrently from other threads',
    ]
    mgrs = manager_classes(repo)
    flag = find_flag(repo)
    cache = find_cache_attr(repo)
    inval = Inval(repo, flag, cache)
    chk.rule('C01.a', 'every path of a function that writes handler tables, the children set or a parent/root pointer '
                      'of a manager invalidates the cache of the root that manager belongs to afterwards')
    chk.rule('C01.b', 'a component that makes itself its own root outside __init__ invalidates its own cache')
    chk.rule('C01.c', 'every dispatcher read of the memo is dominated by the dirty-flag test; on the dirty branch the memo '
                      'is cleared before it is read; the flag is reset only together with the clear')
    chk.rule('C01.d', 'the memo key used for load and store mentions the event name and the channels, and is the same expression')
    chk.rule('C01.e', 'getHandlers adds a handler iff channels are equal, either side is "*", or the event is addressed to the '
                      'component instance (finite truth table incl. the None→component-channel fallback)')
    chk.rule('C01.f', 'getHandlers unions the "*" table entry, the named entry, the globals unless excluded, and the result '
                      'of the same query on every child')

    rule_a_b(repo, chk, mgrs, inval, flag)
    rule_c_d(repo, chk, flag, cache)
    rule_e(repo, chk)
    rule_f(repo, chk)
    rule_g(repo, chk)
    rule_h(repo, chk)
    rule_once(repo, chk)


# ---------------------------------------------------------------------------


def rule_a_b(repo, chk, mgrs, inval, flag):
    writers = 0
    kinds = set()
    for func in repo.all_functions():
        try:
            ws = sigma_writes(func, mgrs) if _mentions_state(func) else []
        except AnalysisError:
            raise
        if not ws:
            continue
        chk.touch(func)
        g = func.cfg()
        inv = {n: inval.node_invalidates(n, func=func) for n in g.nodes}
        params = set(func.params)
        for (n, kind, recv, val) in ws:
            writers += 1
            kinds.add(kind.split(':')[0])
            construct = func.ref
            where = loc(func, n.ast)
            # fresh object: __init__ creates the memo empty
            if func.name == '__init__' and recv == 'self':
                ok = any(recv2 == 'self' for m in g.nodes if m.kind == 'stmt'
                         for recv2 in inval.direct(m.ast))
                chk.ob('a', construct, f'constructor creates the memo empty when it initialises {kind}', ok, where,
                       discr=f'{kind}', nontrivial=False)
                continue
            # delegate: `self.root = <param>` — callers are responsible for the value they pass
            if kind == 'root' and recv == 'self' and val in params and func.cls is not None:
                check_delegate_callers(repo, chk, func, val, inval, mgrs)
                continue
            targets = []
            exempt = None
            if kind.startswith('container'):
                targets = [f'{recv}.root']
            elif kind == 'parent':
                if val == recv:
                    # becomes its own root: old tree (a) and own memo (b)
                    targets = [f'{recv}.parent.root']
                    ok_b = _always_through(g, n, inv, recv)
                    chk.ob('b', construct, f'`{recv}.parent = {recv}` (becomes root) is accompanied on every path by invalidating '
                                           f'{recv}\'s own cache', ok_b is None, where,
                           path=pat.path_lines(ok_b) if ok_b else None, discr='own-cache')
                else:
                    targets = [f'{val}.root', f'{recv}.root']
                    exempt = (recv, val)
            elif kind == 'root':
                if val == recv:
                    targets = [recv]
                else:
                    targets = [val]
                    base = val[:-5] if val.endswith('.root') else None
                    if base:
                        exempt = (recv, base)
            bad = None
            for t in targets:
                bad = _always_through(g, n, inv, t, exempt)
                if bad is None:
                    break
            chk.ob('a', construct, f'write of {kind} on `{recv}` is accompanied on every path by invalidating the cache of '
                                   f'{" or ".join("`" + t + "`" for t in targets)}',
                   bad is None, where, path=pat.path_lines(bad) if bad else None, discr=f'{kind}:{recv}')
    if writers < 8 or not {'container', 'parent', 'root'} <= kinds:
        raise AnalysisError(f'C01.a: only {writers} writers of tree/handler state found (kinds {sorted(kinds)}); '
                            'at least 8 over all three kinds were confirmed by hand')


def _mentions_state(func):
    s = func.module.source
    return True if s else False


def _always_through(g, w, inv, target, exempt=None):
    """None if every entry→exit path through node w passes a node invalidating *target*; else a counterexample."""
    is_t = lambda n: target in inv.get(n, ())  # noqa: E731
    avoid = None
    if exempt is not None:
        a, b = exempt

        def avoid(e):
            if e.src.kind != 'test':
                return False
            f = pat.compare_fact(e.src.ast, e.kind)
            return pat.fact_matches(f, a, ('is', '=='), b)
    if is_t(w):
        return None
    before = Q.reachable_without(g, w, avoid_node=is_t, avoid_edge=avoid)
    if before is None:
        return None
    after = Q.escapes(g, [w], is_t, avoid_edge=avoid)
    if after is None:
        return None
    return before + after


def check_delegate_callers(repo, chk, func, param, inval, mgrs):
    """`def _updateRoot(self, root): self.root = root` — every external call site must invalidate what it passes."""
    idx = func.params.index(param) - 1  # minus self
    n_sites = 0
    for caller in repo.all_functions():
        if caller is func:
            continue
        g = None
        for node in walk_no_defs(caller.node):
            if isinstance(node, ast.Call) and isinstance(node.func, ast.Attribute) and node.func.attr == func.name \
                    and len(node.args) > idx:
                if caller.cls is None or caller.cls not in mgrs:
                    continue
                g = g or caller.cfg()
                chk.touch(caller)
                recv = src(node.func.value)
                arg = src(node.args[idx])
                inv = {n: inval.node_invalidates(n, func=caller) for n in g.nodes}
                for cn in g.node_for(node):
                    n_sites += 1
                    targets = [arg]
                    exempt = None
                    if arg.endswith('.root'):
                        exempt = (recv, arg[:-5])
                    bad = _always_through(g, cn, inv, arg, exempt)
                    chk.ob('a' if arg != recv else 'b', caller.ref,
                           f'`{recv}.{func.name}({arg})` re-roots a subtree: the cache of `{arg}` is invalidated on every path',
                           bad is None, loc(caller, node), path=pat.path_lines(bad) if bad else None,
                           discr=f'reroot:{arg}')
    if n_sites < 2:
        raise AnalysisError(f'C01.a: fewer than 2 call sites of {func.ref} found')


def rule_c_d(repo, chk, flag, cache):
    d = repo.func(MANAGER, 'Manager._dispatcher')
    chk.touch(d)
    g = d.cfg()
    reads, stores = [], []
    for n in g.nodes:
        if n.ast is None or n.kind not in ('stmt', 'test'):
            continue
        for w in walk_no_defs(n.ast):
            if isinstance(w, ast.Subscript) and isinstance(w.value, ast.Attribute) and w.value.attr == cache \
                    and src(w.value.value) == 'self':
                (stores if isinstance(w.ctx, ast.Store) else reads).append((n, w))
    need(reads and stores, 'C01.c: dispatcher does not load and store the memo by subscript')
    flag_tests = [n for n in g.nodes if n.kind == 'test' and src(n.ast) == f'self.{flag}']
    # a helper method of the manager that tests the flag and clears the memo counts as the test (extracted refresh)
    helper_calls = []
    mgr = repo.cls(MANAGER, 'Manager')
    for n in g.nodes:
        if n.kind == 'stmt':
            for c in calls_in(n.ast):
                if isinstance(c.func, ast.Attribute) and src(c.func.value) == 'self':
                    hf = mgr.lookup(c.func.attr)
                    if hf is not None and hf is not d:
                        hs = src(hf.node)
                        if f'self.{flag}' in hs and (f'self.{cache}.clear()' in hs or f'self.{cache} = {{}}' in hs):
                            hg = hf.cfg()
                            ht = [m for m in hg.nodes if m.kind == 'test' and src(m.ast) == f'self.{flag}']
                            if ht and Q.escapes(hg, [hg.entry], lambda m: m in ht) is None:
                                helper_calls.append(n)
    flag_tests = flag_tests + helper_calls
    clears = [n for n in g.nodes if n.kind == 'stmt' and (
        any(r == f'self.{cache}' for r, _c in pat.method_calls(n.ast, 'clear')) or
        any(a == cache and recv == 'self' and isinstance(v, ast.Dict) and not v.keys for recv, a, v in pat.attr_store(n.ast)))]
    resets = [n for n in g.nodes if n.kind == 'stmt' and 'self' in pat.stores_attr(n.ast, flag, False)]
    for n, w in reads:
        p = Q.reachable_without(g, n, avoid_node=lambda m: m in flag_tests)
        chk.ob('c', d.ref, 'memo read is dominated by the dirty-flag test', p is None, loc(d, w),
               path=pat.path_lines(p) if p else None, discr='flag-test-dominates-read')
        # on the dirty branch the clear happens before the read
        bad = None
        for t in flag_tests:
            for e in t.succ:
                if e.kind == 'T':
                    q = Q.reachable_without(g, n, start=e.dst, avoid_node=lambda m: m in clears)
                    if q is not None and e.dst not in clears:
                        bad = q
                    elif e.dst in clears:
                        pass
        chk.ob('c', d.ref, 'on the dirty branch the memo is cleared before it is read', bad is None, loc(d, w),
               path=pat.path_lines(bad) if bad else None, discr='clear-before-read')
    for r in resets:
        p = Q.reachable_without(g, r, avoid_node=lambda m: m in clears)
        q = None
        if p is not None:
            for n, w in reads:
                q = Q.reachable_without(g, n, start=r, avoid_node=lambda m: m in clears)
                if q:
                    break
        chk.ob('c', d.ref, 'the flag is reset only together with clearing the memo', p is None or q is None, loc(d, r.ast),
               path=pat.path_lines(q) if (p and q) else None, discr='reset-with-clear')
    if not resets and not helper_calls:
        chk.ob('c', d.ref, 'the dispatcher consumes the dirty flag (test, clear the memo, reset) itself or through a helper it calls per event', False,
               loc(d, d.node), discr='flag-consumed')
    # d: key completeness
    keys = {src(w.slice) for _n, w in reads + stores}
    chk.ob('d', d.ref, 'memo load and store use the same key expression', len(keys) == 1, loc(d, reads[0][1]),
           detail=f'keys: {sorted(keys)}', discr='same-key')
    params = d.params
    for _n, w in reads + stores:
        used = Q.names_used(w.slice)
        name_ok = any(u.endswith('.name') and u.split('.')[0] == params[1] for u in used) or _derived_from(d, used, f'{params[1]}.name')
        chan_ok = params[2] in used or _derived_from(d, used, params[2])
        chk.ob('d', d.ref, 'memo key depends on the event name and on the channels', name_ok and chan_ok, loc(d, w),
               detail=f'key {src(w.slice)}', discr=f'key-complete:{"store" if isinstance(w.ctx, ast.Store) else "load"}')


def _derived_from(func, used, origin):
    for u in used:
        if '.' in u:
            continue
        for e in pat.flows_from(func, u, depth=2):
            if Q.uses(e, origin):
                return True
    return False


# ---------------------------------------------------------------------------
# e: truth table

SELF = '<self>'
OTHER = '<other instance>'


class _Unsupported(Exception):
    pass


def _eval(e, env):
    if isinstance(e, ast.Constant):
        return e.value
    if isinstance(e, ast.Name):
        if e.id in env:
            return env[e.id]
        if e.id == env['$handler_var']:
            return '$handler'
        raise _Unsupported(f'name {e.id}')
    if isinstance(e, (ast.Tuple, ast.List, ast.Set)):
        return tuple(_eval(x, env) for x in e.elts)
    if isinstance(e, ast.Attribute):
        base = src(e.value)
        if (base == env['$handler_var'] or (isinstance(e.value, ast.Name) and env.get(e.value.id) == '$handler')) and e.attr == 'channel':
            return env['$declared']
        if (base == env['$handler_var'] or (isinstance(e.value, ast.Name) and env.get(e.value.id) == '$handler')) and e.attr in ('__self__', 'im_self'):
            return '$owner'
        raise _Unsupported(src(e))
    if isinstance(e, ast.Call):
        name = call_name(e)
        if name == 'getattr' and len(e.args) == 3 and pat.is_const(e.args[1], 'channel'):
            # getattr(<the component owning the handler>, 'channel', default)
            inner = e.args[0]
            if _is_owner_expr(inner, env['$handler_var']) or _is_owner_alias(inner, env) or (isinstance(inner, ast.Name) and env.get(inner.id) == '$owner'):
                v = env['$component']
                return v if v != '<absent>' else _eval(e.args[2], env)
        if _is_owner_expr(e, env['$handler_var']) or _is_owner_alias(e, env):
            return '$owner'          # the object the handler is bound to (only ever asked for its channel)
        # a module-level helper that is handed the handler: interpreted on the same tokens
        helper = env.get('$helpers', {}).get(name)
        if helper is not None and len(e.args) == 1 and isinstance(e.args[0], ast.Name) and e.args[0].id == env['$handler_var'] and len(helper.params) == 1 \
                and env.get('$depth', 0) < 2:
            env2 = {k: v for k, v in env.items() if k.startswith('$') or k in ('self', '_dummy')}
            env2['$handler_var'] = helper.params[0]
            env2['$depth'] = env.get('$depth', 0) + 1
            return _run_function(helper, env2)
        raise _Unsupported(src(e))
    if isinstance(e, ast.Compare):
        left = _eval(e.left, env)
        res = True
        for op, c in zip(e.ops, e.comparators):
            right = _eval(c, env)
            if isinstance(op, ast.Eq):
                r = left == right
            elif isinstance(op, ast.NotEq):
                r = left != right
            elif isinstance(op, ast.Is):
                r = left is right if (left is None or right is None) else left == right
            elif isinstance(op, ast.IsNot):
                r = not (left is right if (left is None or right is None) else left == right)
            elif isinstance(op, ast.In):
                r = left in right
            elif isinstance(op, ast.NotIn):
                r = left not in right
            else:
                raise _Unsupported(src(e))
            res = res and r
            left = right
        return res
    if isinstance(e, ast.BoolOp):
        vals = [_eval(v, env) for v in e.values]
        return all(vals) if isinstance(e.op, ast.And) else any(vals)
    if isinstance(e, ast.UnaryOp) and isinstance(e.op, ast.Not):
        return not _eval(e.operand, env)
    raise _Unsupported(src(e))


def _run_function(f, env):
    """Concrete run of a small helper on the finite tokens; the value of its return."""
    g = f.cfg()
    node = g.entry
    steps = 0
    while node is not None and steps < 200:
        steps += 1
        nxt = None
        if node.kind == 'test':
            v = bool(_eval(node.ast, env))
            for e in node.succ:
                if e.kind == ('T' if v else 'F'):
                    nxt = e.dst
        elif node.kind == 'stmt':
            a = node.ast
            if isinstance(a, ast.Return):
                return _eval(a.value, env) if a.value is not None else None
            if isinstance(a, ast.Assign) and len(a.targets) == 1 and isinstance(a.targets[0], ast.Name):
                env[a.targets[0].id] = _eval(a.value, env)
            elif isinstance(a, ast.Pass) or (isinstance(a, ast.Expr) and isinstance(a.value, ast.Constant)):
                pass
            else:
                raise _Unsupported(src(a))
            for e in node.succ:
                if e.kind == 'n':
                    nxt = e.dst
        elif node.kind in ('join', 'entry'):
            for e in node.succ:
                if e.kind == 'n':
                    nxt = e.dst
        elif node.kind == 'exit':
            return None
        else:
            raise _Unsupported(node.kind)
        node = nxt
    raise _Unsupported(f'helper {f.name} did not return')


def _is_owner_alias(e, env):
    """The owner expression applied to a local alias of the handler variable."""
    for k, v in env.items():
        if v == '$handler' and not k.startswith('$') and _is_owner_expr(e, k):
            return True
    return False


def _is_owner_expr(e, hv):
    """getattr(h, 'im_self', getattr(h, '__self__', dflt)) or h.__self__ — the object the handler is bound to."""
    if isinstance(e, ast.Attribute) and src(e.value) == hv and e.attr in ('__self__', 'im_self'):
        return True
    if isinstance(e, ast.Call) and call_name(e) == 'getattr' and e.args and src(e.args[0]) == hv and len(e.args) >= 2 \
            and isinstance(e.args[1], ast.Constant) and e.args[1].value in ('im_self', '__self__'):
        return True
    return False


def rule_e(repo, chk):
    f = repo.func(MANAGER, 'Manager.getHandlers')
    chk.touch(f)
    g = f.cfg()
    params = f.params  # self, event, channel, kwargs
    chan = params[2]
    # the loop that filters the candidate handlers: a for-loop whose body adds the loop variable to a set
    loop = None
    for n in g.nodes:
        if n.kind == 'for' and isinstance(n.ast.target, ast.Name):
            hv = n.ast.target.id
            adds = [m for m in g.nodes if m.kind == 'stmt' and any(
                c.func.attr == 'add' and c.args and src(c.args[0]) == hv
                for c in calls_in(m.ast) if isinstance(c.func, ast.Attribute)) and ('loop', n.ast) in m.ctx]
            if adds:
                loop = (n, hv, adds)
                break
    need(loop, 'C01.e: no filtering loop `for h in …: … S.add(h)` in getHandlers')
    head, hv, adds = loop
    rows = 0
    mism = []
    samples = []
    chans = ['*', 'A', 'B', SELF, OTHER]
    decls = [None, '*', 'A', 'B', SELF]
    comps = ['*', 'A', 'B', None]
    for ch, de, co in itertools.product(chans, decls, comps):
        env = {chan: ch, 'self': SELF, '$handler_var': hv, '$declared': de, '$component': co, '_dummy': '<dummy>', '$helpers': dict(f.module.functions)}
        try:
            added = _interp(g, head, adds, env)
        except _Unsupported as u:
            raise AnalysisError(f'C01.e: cannot interpret getHandlers filter: {u}')
        eff = de if de is not None else co
        want = ch == '*' or eff == '*' or eff == ch or ch == SELF
        rows += 1
        if added != want:
            mism.append((ch, de, co, added, want))
        elif len(samples) < 3:
            samples.append((ch, de, co, added))
    chk.ob('e', f.ref, f'matcher truth table over {rows} rows (event channel × declared handler channel × component channel) '
                       f'equals the specification', not mism, loc(f, head.ast),
           detail=('mismatches (event channel, declared, component, added, expected): ' + repr(mism[:6])) if mism
           else f'{rows} rows agree, e.g. {samples}', discr='truth-table')
    chk.stats['truth_table_rows'] = rows


def _interp(g, head, adds, env):
    """Concrete interpretation of one loop iteration over finite tokens; True iff an add node is reached."""
    env = dict(env)
    node = None
    for e in head.succ:
        if e.kind == 'T':
            node = e.dst
    steps = 0
    while node is not None and steps < 200:
        steps += 1
        if node in adds:
            return True
        if node is head or node.kind in ('exit', 'raise'):
            return False
        nxt = None
        if node.kind == 'test':
            v = bool(_eval(node.ast, env))
            for e in node.succ:
                if e.kind == ('T' if v else 'F'):
                    nxt = e.dst
        elif node.kind == 'stmt':
            a = node.ast
            if isinstance(a, ast.Assign) and len(a.targets) == 1 and isinstance(a.targets[0], ast.Name):
                env[a.targets[0].id] = _eval(a.value, env)
            elif isinstance(a, (ast.Pass, ast.Continue)):
                pass
            elif isinstance(a, ast.Expr) and isinstance(a.value, ast.Constant):
                pass
            else:
                raise _Unsupported(src(a))
            for e in node.succ:
                if e.kind == 'n':
                    nxt = e.dst
        elif node.kind == 'join':
            for e in node.succ:
                if e.kind == 'n':
                    nxt = e.dst
        else:
            raise _Unsupported(node.kind)
        node = nxt
    return False


def rule_f(repo, chk):
    f = repo.func(MANAGER, 'Manager.getHandlers')
    params = f.params
    ev, chan = params[1], params[2]
    rets = [n for n in walk_no_defs(f.node) if isinstance(n, ast.Return) and n.value is not None]
    need(rets, 'C01.f: getHandlers has no return value')
    ok_all = True
    for r in rets:
        if not isinstance(r.value, ast.Name):
            raise AnalysisError('C01.f: getHandlers returns a non-name expression')
        rv = r.value.id
        exprs = pat.flows_from(f, rv, depth=4)
        texts = [src(e) for e in exprs]
        # name variable(s) derived from event.name
        name_vars = {ev + '.name'}
        for n in walk_no_defs(f.node):
            if isinstance(n, ast.Assign) and src(n.value) == f'{ev}.name':
                name_vars.update(src(t) for t in n.targets)
        star = any(_is_table_get(e, lambda k: pat.is_const(k, '*')) for e in exprs)
        named = any(_is_table_get(e, lambda k: src(k) in name_vars) for e in exprs)
        chk.ob('f', f.ref, 'result is fed by the "*" entry of the handler table', star, loc(f, r), discr='source:star')
        chk.ob('f', f.ref, 'result is fed by the entry for the event name', named, loc(f, r), discr='source:name')
        # globals unless excluded
        gl_nodes = [n for n in f.cfg().nodes if n.kind == 'stmt' and any(
            src(a) == 'self._globals' for _r, c in pat.method_calls(n.ast, 'update') for a in c.args)]
        gl_ok = bool(gl_nodes)
        detail = ''
        if gl_ok:
            g = f.cfg()
            # reachable when exclude_globals is absent/false: the only tests on the way mention exclude_globals
            for n in gl_nodes:
                p = Q.reachable_without(g, n, avoid_edge=lambda e: e.src.kind == 'test' and 'exclude_globals' not in src(e.src.ast)
                                        and ('loop', None) == ('x', None))
                if p is None:
                    gl_ok = False
                tests_on_path = [e.src for e in (p or []) if e.src.kind == 'test']
                bad = [t for t in tests_on_path if 'exclude_globals' not in src(t.ast)]
                # tests that only decide loop iteration are fine; a test on anything else gates the globals
                bad = [t for t in bad if not any(k == 'loop' for k, _a in t.ctx)]
                if bad:
                    gl_ok = False
                    detail = f'globals gated by `{src(bad[0].ast)}`'
        chk.ob('f', f.ref, 'result includes the global handlers unless exclude_globals is requested', gl_ok, loc(f, r),
               detail=detail, discr='source:globals')
        # recursion over all children with the same arguments
        rec_ok = False
        rec_detail = 'no recursive call found'
        for n in walk_no_defs(f.node):
            if isinstance(n, ast.For) and 'self.components' in src(n.iter) and isinstance(n.target, ast.Name):
                cv = n.target.id
                for c in calls_in(n):
                    if isinstance(c.func, ast.Attribute) and c.func.attr == f.name and src(c.func.value) == cv:
                        args = [src(a) for a in c.args]
                        kwsplat = any(k.arg is None for k in c.keywords)
                        fed = any(c is w or any(c is x for x in ast.walk(w)) for w in exprs)
                        if args[:2] == [ev, chan] and kwsplat and fed:
                            rec_ok = True
                        else:
                            rec_detail = f'recursive call `{src(c)}` does not pass ({ev}, {chan}, **kwargs) or its result is dropped'
                # iterating a filtered view of the children would skip some
                if isinstance(n.iter, (ast.ListComp, ast.GeneratorExp, ast.Subscript)):
                    rec_ok = False
                    rec_detail = 'children are iterated through a filter/slice'
        chk.ob('f', f.ref, 'result includes the result of the same query on every child', rec_ok, loc(f, r),
               detail='' if rec_ok else rec_detail, discr='source:children')
        ok_all = ok_all and star and named and gl_ok and rec_ok
    return ok_all


def _is_table_get(e, keypred):
    for c in calls_in(e):
        if isinstance(c.func, ast.Attribute) and c.func.attr == 'get' and src(c.func.value) == 'self._handlers' and c.args \
                and keypred(c.args[0]):
            return True
    for w in ast.walk(e):
        if isinstance(w, ast.Subscript) and src(w.value) == 'self._handlers' and keypred(w.slice):
            return True
    return False


def rule_g(repo, chk):
    """Handlers inherited from base classes are worked out per instantiation from the class being instantiated; a memo stored
    on a class is inherited by its subclasses (attribute lookup follows the MRO) and hands them the wrong set."""
    chk.rule('C01.g', 'BaseComponent.__new__ derives the inherited handlers from cls.__dict__ / cls.__bases__ of the class being instantiated and '
                      'stores nothing on a class; the override flag of the subclass decides which base handlers are bound')
    f = repo.func(COMPONENTS, 'BaseComponent.__new__')
    chk.touch(f)
    cls_p = f.params[0]
    writes = []
    reads = set()
    for n in ast.walk(f.node):
        if isinstance(n, (ast.Assign, ast.AugAssign)):
            for recv, attr, _v in pat.attr_store(n):
                if recv == cls_p or recv in ('base', 'type(self)', 'self.__class__'):
                    writes.append(n)
        if isinstance(n, ast.Call) and call_name(n) == 'setattr' and n.args and src(n.args[0]) in (cls_p, 'base', 'type(self)'):
            writes.append(n)
        if isinstance(n, ast.Attribute) and src(n.value) == cls_p and isinstance(n.ctx, ast.Load):
            reads.add(n.attr)
        if isinstance(n, ast.Call) and call_name(n) in ('getattr', 'hasattr') and len(n.args) >= 2 and src(n.args[0]) == cls_p:
            reads.add('getattr:' + src(n.args[1]))
    chk.ob('g', f.ref, 'nothing is stored on a class while an instance is being created (no per-class memo of inherited handlers)', not writes, loc(f, (writes or [f.node])[0]),
           detail='; '.join(src(w)[:60] for w in writes), discr='no-class-memo')
    ok_reads = reads <= {'__dict__', '__bases__', '__name__', '__mro__'}
    chk.ob('g', f.ref, 'the class being instantiated is consulted only through its own __dict__ and __bases__ (no attribute lookup that follows the MRO)', ok_reads,
           loc(f, f.node), detail=f'reads: {sorted(reads)}', discr='own-dict-only')
    binds = [c for c in calls_in(f.node, include_nested_defs=True) if call_name(c) == 'setattr' and c.args and src(c.args[0]) == 'self']
    ov = f.nested.get('overridden')
    uses_override = ov is not None and '.override' in src(ov.node) and any(call_name(c) == 'overridden' for c in calls_in(f.node))
    chk.ob('g', f.ref, 'base-class handlers are bound on the instance unless the subclass overrides them (override flag consulted)', bool(binds) and uses_override,
           loc(f, f.node), discr='override-consulted')
    # all base classes, not only the direct ones: the loop runs over the MRO of the class (a local holding `cls.__mro__`, possibly sliced / enumerated)
    def over_mro(e, depth=0):
        t = src(e).replace(' ', '')
        if f'{cls_p}.__mro__' in t:
            return True
        return depth < 2 and any(isinstance(w, ast.Name) and any(over_mro(v, depth + 1) for v in pat.local_feeds(f, w.id)) for w in ast.walk(e))
    loops = [n for n in walk_no_defs(f.node) if isinstance(n, ast.For) and over_mro(n.iter)]
    direct = [n for n in walk_no_defs(f.node) if isinstance(n, ast.For) and f'{cls_p}.__bases__' in src(n.iter)]
    chk.ob('g', f.ref, 'every base class is visited, at any depth of the hierarchy (the method resolution order, not only the direct bases)', bool(loops) and not direct,
           loc(f, (direct or loops or [f.node])[0]), discr='all-bases')
    # a handler of a base class is hidden only by an override=True declaration in a class between it and the class being instantiated
    if ov is not None and loops:
        okd = len(ov.params) >= 2 or '__mro__' in src(ov.node) or any('mro' in src(w) for w in ast.walk(ov.node) if isinstance(w, ast.Name))
        chk.ob('g', f.ref, 'whether a base handler is overridden is decided over the classes between the declaring base and the class being instantiated', okd, loc(ov, ov.node),
               discr='override-along-mro')


def rule_once(repo, chk):
    """An event fired on several channels is one event: a handler that matches more than one of the channels still runs once."""
    chk.rule('C01.i', 'the dispatcher unites the handler sets of the channels an event is fired on (set / dict.fromkeys), it does not concatenate them')
    d = repo.func(MANAGER, 'Manager._dispatcher')
    chk.touch(d)
    sorts = [(c, c.args[0]) for c in calls_in(d.node) if call_name(c) == 'sorted' and c.args]
    # (the in-place spelling: `found.sort(key=…)`)
    sorts += [(c, c.func.value) for c in calls_in(d.node) if isinstance(c.func, ast.Attribute) and c.func.attr == 'sort' and isinstance(c.func.value, ast.Name)]
    need(sorts, 'C01.i: the dispatcher does not sort the handlers')
    for c, sorted_expr in sorts:
        exprs = list(pat.deref(d, sorted_expr))
        more = []
        for e in exprs:
            for w in ast.walk(e):
                if isinstance(w, ast.Name):
                    more += [v for v in pat.local_feeds(d, w.id) if not isinstance(v, ast.Name)]
        texts = [src(e).replace(' ', '') for e in exprs + more]
        per_channel = any('chain(' in t or 'forchannelin' in t.replace(' ', '') for t in texts)
        united = any(t.startswith(('set(', 'frozenset(', 'list(dict.fromkeys(', 'dict.fromkeys(', 'list(set(')) or 'set().union(' in t or '.union(' in t for t in texts)
        chk.ob('i', d.ref, 'a handler that matches several of the channels of an event is invoked once (the per-channel handler sets are united before sorting)',
               united or not per_channel, loc(d, c), detail='; '.join(t[:60] for t in texts[:3]), discr='handlers-united')


def rule_h(repo, chk):
    """How handlers get into and out of the tables."""
    chk.rule('C01.h', 'addHandler files a handler under every name it declares ("*" table for catch-all handlers, the globals for channel "*"); '
                      'removeHandler takes it out of every name; handler() records names/channel/priority/override as given; Component methods '
                      'become handlers named after themselves')
    from .common import HANDLERS
    a = repo.func(MANAGER, 'Manager.addHandler')
    chk.touch(a)
    g = a.cfg()
    # the bound handler: what addHandler returns (and files into the tables)
    mv = 'method'
    for n_ in walk_no_defs(a.node):
        if isinstance(n_, ast.Return) and isinstance(n_.value, ast.Name):
            mv = n_.value.id

    def files(n, table, key):
        """statement *n* puts the handler into `table` under `key` (setdefault(...).add / [key].add / |= forms)."""
        if n.kind != 'stmt' or n.ast is None:
            return False
        for c in calls_in(n.ast):
            if isinstance(c.func, ast.Attribute) and c.func.attr == 'add' and [src(x) for x in c.args] == [mv]:
                r = pat.expand_alias(a, n, src(c.func.value))
                if table in r and (key is None or key in r):
                    return True
        return False

    loops = [n for n in g.nodes if n.kind == 'for' and src(n.ast.iter) == f'{mv}.names']
    ok = False
    for lp in loops:
        nv = src(lp.ast.target)
        adds = [n for n in g.nodes if ('loop', lp.ast) in n.ctx and files(n, 'self._handlers', nv)]
        tests = [n for n in g.nodes if n.kind == 'test' and ('loop', lp.ast) in n.ctx]
        brk = [n for n in g.nodes if n.kind == 'stmt' and ('loop', lp.ast) in n.ctx and isinstance(n.ast, (ast.Break, ast.Continue, ast.Return))]
        swallowed = [e for n in g.nodes if ('loop', lp.ast) in n.ctx for e in n.succ if e.kind == 'x' and e.dst.kind != 'raise' and e.dst is not g.raise_exit
                     and ('loop', lp.ast) not in e.dst.ctx]
        ok = bool(adds) and not tests and not brk and not swallowed
    chk.ob('h', a.ref, 'a handler is filed under every event name it declares (no name skipped)', ok, loc(a, a.node), discr='all-names-added')
    star = [n for n in g.nodes if files(n, 'self._handlers', "'*'")]
    glob = [n for n in g.nodes if files(n, 'self._globals', None)]
    nonames = pat.test_edge(lambda tt, pol: (pol == 'F' and src(tt) == f'{mv}.names') or (pol == 'T' and src(tt) in (f'not {mv}.names',)))
    okg = bool(glob) and all(pat.guarded_by(g, n, pat.test_edge(lambda tt, pol: pat.fact_matches(pat.compare_fact(tt, pol), f'{mv}.channel', ('==',), "'*'"))) is None and
                             pat.guarded_by(g, n, nonames) is None for n in glob)
    oks = bool(star) and all(pat.guarded_by(g, n, nonames) is None for n in star)
    chk.ob('h', a.ref, 'a handler without names goes to the "*" table, or to the globals exactly when it also listens on channel "*"', okg and oks, loc(a, a.node),
           discr='catch-all-placement')
    p = Q.escapes(g, [g.entry], lambda n: n in star or n in glob or any(n.kind == 'for' and n in loops for _ in [0]))
    chk.ob('h', a.ref, 'every handler is filed somewhere', p is None, loc(a, a.node), path=pat.path_lines(p) if p else None, discr='always-filed')
    r = repo.func(MANAGER, 'Manager.removeHandler')
    chk.touch(r)
    gr = r.cfg()
    names_def = [n for n in gr.nodes if n.kind == 'stmt' and isinstance(n.ast, ast.Assign) and isinstance(n.ast.targets[0], ast.Name)
                 and f'{r.params[1]}.names' in src(n.ast.value)]
    nmv = src(names_def[0].ast.targets[0]) if names_def else 'names'
    # the names to remove from: the one given, else all the handler declares — as a conditional expression or as branches
    evp = r.params[2]
    all_defs = [n for n in gr.nodes if n.kind == 'stmt' and isinstance(n.ast, ast.Assign) and src(n.ast.targets[0]) == nmv]
    given_T = pat.test_edge(lambda tt, pol: pat.fact_matches(pat.compare_fact(tt, pol), evp, ('is not', '!='), 'None'))
    given_F = pat.test_edge(lambda tt, pol: pat.fact_matches(pat.compare_fact(tt, pol), evp, ('is', '=='), 'None'))
    okn = bool(names_def)
    saw_given = saw_all = False
    for n in all_defs:
        v = n.ast.value
        if isinstance(v, ast.IfExp):
            t_none = pat.fact_matches(pat.compare_fact(v.test, 'T'), evp, ('is', '=='), 'None')
            t_given = pat.fact_matches(pat.compare_fact(v.test, 'T'), evp, ('is not', '!='), 'None')
            a_, b_ = (v.body, v.orelse) if t_none else (v.orelse, v.body)
            if (t_none or t_given) and src(a_) == f'{r.params[1]}.names' and src(b_).replace(' ', '') in (f'[{evp}]', f'({evp},)'):
                saw_given = saw_all = True
            else:
                okn = False
        elif src(v).replace(' ', '') in (f'[{evp}]', f'({evp},)'):
            saw_given = True
            okn = okn and pat.guarded_by(gr, n, given_T) is None
        elif src(v) == f'{r.params[1]}.names':
            saw_all = True
            okn = okn and pat.guarded_by(gr, n, given_F) is None
    okn = okn and saw_given and saw_all
    loops = [n for n in gr.nodes if n.kind == 'for' and src(n.ast.iter) == nmv]
    okr = False
    for lp in loops:
        nv = src(lp.ast.target)
        def recv_of(n, c):
            return pat.expand_alias(r, n, src(c.func.value))     # `s = self._handlers[name]; s.remove(method)`
        rem = [n for n in gr.nodes if n.kind == 'stmt' and ('loop', lp.ast) in n.ctx and
               any(isinstance(c.func, ast.Attribute) and c.func.attr in ('remove', 'discard') and [src(x) for x in c.args] == [r.params[1]] and
                   'self._handlers' in recv_of(n, c) and nv in recv_of(n, c) for c in calls_in(n.ast))]
        first = [e.dst for e in lp.succ if e.kind == 'T']
        rest = [f for f in first if f not in rem]
        p = Q.escapes(gr, rest, lambda n: n in rem, extra_exit=lambda n: n is lp) if rest else None
        brk = [n for n in gr.nodes if n.kind == 'stmt' and ('loop', lp.ast) in n.ctx and isinstance(n.ast, (ast.Break, ast.Return))]
        # … nor does an exception of one iteration end the loop quietly (caught or suppressed around the loop instead of inside it): the names that follow
        # would stay filed
        swallowed = [e for n in gr.nodes if ('loop', lp.ast) in n.ctx for e in n.succ if e.kind == 'x' and e.dst.kind != 'raise' and e.dst is not gr.raise_exit
                     and ('loop', lp.ast) not in e.dst.ctx]
        okr = bool(rem) and p is None and not brk and not swallowed
    chk.ob('h', r.ref, 'removeHandler removes the handler from every name it was filed under (or from the one name given)', okr and okn, loc(r, r.node),
           discr='all-names-removed')
    # mirror of addHandler for handlers without names: they are filed in the "*" table or in the globals, and removeHandler must look there
    mp = r.params[1]
    grem = [n for n in gr.nodes if n.kind == 'stmt' and any(isinstance(c.func, ast.Attribute) and c.func.attr in ('remove', 'discard') and src(c.func.value) == 'self._globals'
                                                           and [src(x) for x in c.args] == [mp] for c in calls_in(n.ast))]
    star_names = [n for n in gr.nodes if n.kind == 'stmt' and isinstance(n.ast, ast.Assign) and src(n.ast.targets[0]) == nmv and src(n.ast.value).replace('"', "'") in ("['*']", "('*',)")]
    nameless = pat.test_edge(lambda tt, pol: (pol == 'F' and src(tt) == f'{mp}.names') or (pol == 'T' and src(tt) == f'not {mp}.names'))
    okm = bool(grem) and bool(star_names) and all(pat.guarded_by(gr, n, nameless) is None for n in grem + star_names) and \
        all(pat.guarded_by(gr, n, pat.test_edge(lambda tt, pol: pat.fact_matches(pat.compare_fact(tt, pol), f'{mp}.channel', ('==',), "'*'"))) is None for n in grem) and \
        all(pat.guarded_by(gr, n, pat.test_edge(lambda tt, pol: pat.fact_matches(pat.compare_fact(tt, pol), f'{mp}.channel', ('!=',), "'*'"))) is None for n in star_names)
    chk.ob('h', r.ref, 'a handler without names is removed from where addHandler filed it: the globals when it listens on channel "*", else the "*" table', okm,
           loc(r, r.node), discr='nameless-removed')
    w = repo.func(HANDLERS, 'handler.wrapper')
    chk.touch(w)
    defaults = {'channel': ('None', None), 'override': ('False',), 'priority': ('0',)}
    got = {}
    for n in walk_no_defs(w.node):
        if isinstance(n, ast.Assign) and len(n.targets) == 1 and isinstance(n.targets[0], ast.Attribute) and src(n.targets[0].value) == w.params[0]:
            got.setdefault(n.targets[0].attr, []).append(n.value)
    okw = any(src(v) == 'names' for v in got.get('names', [])) and any(src(v) == 'True' for v in got.get('handler', []))
    for k, dfl in defaults.items():
        vs = [v for v in got.get(k, []) if isinstance(v, ast.Call) and src(v.func) == 'kwargs.get' and v.args and src(v.args[0]) == repr(k)]
        okw = okw and bool(vs) and all((src(v.args[1]) if len(v.args) > 1 else None) in dfl for v in vs)
    chk.ob('h', w.ref, 'handler() records names, channel, priority and override exactly as given (defaults: no channel, 0, False)', okw, loc(w, w.node),
           detail=str({k: [src(v) for v in vs] for k, vs in got.items()}), discr='decorator-attributes')
    m = repo.func(HANDLERS, 'HandlerMetaClass.__init__')
    chk.touch(m)
    sets = [c for c in calls_in(m.node) if call_name(c) == 'setattr']
    okm = bool(sets) and any(src(c.args[2]).replace(' ', '') == 'handler(name)(callable)' and src(c.args[1]) == 'name' for c in sets) and \
        "name.startswith('_')" in src(m.node) and "hasattr(callable, 'handler')" in src(m.node)
    chk.ob('h', m.ref, 'public methods of Component subclasses that are not handlers yet become handlers for the event named like the method', okm, loc(m, m.node),
           discr='implicit-handlers')
    ini = repo.func(COMPONENTS, 'BaseComponent.__init__')
    chk.touch(ini)
    oki = any(isinstance(n, ast.For) and 'getmembers(self)' in src(n.iter) and any(r_ == 'self' and src(c.args[0]) == src(n.target.elts[1]) for r_, c in pat.method_calls(n, 'addHandler'))
              for n in walk_no_defs(ini.node) if isinstance(n, ast.For) and isinstance(n.target, ast.Tuple))
    chk.ob('h', ini.ref, 'a component registers every member marked as handler when it is created', oki, loc(ini, ini.node), discr='members-registered')
