"""C16 — static files: only contents from inside the document root, exact byte ranges.

a  containment: every file-system access of Static._on_request (exists/isfile/isdir/listdir/open/serve_file) uses a
   location that is the normalised join of the docroot and the request path, and is dominated by an accepted containment
   test of that location against the docroot itself
b  no ValueError escapes get_ranges(): every parsing step (int(), tuple-unpacking of split) is inside a handler for it
c  byte ranges are clamped to the entity before they are used: last-byte-pos ≤ length − 1, suffix start ≥ 0
d  serve_file: empty range list ⇒ 416 with `bytes */length`; a single range sets 206, Content-Range start-(stop−1)/length,
   Content-Length stop−start, and reads exactly that slice
"""

import ast

from sa import AnalysisError, pat
from sa import query as Q
from sa.cfg import ExcOracle, handler_names
from sa.model import call_name, calls_in, src, walk_no_defs

from .common import http_func, WEB_STATIC, WEB_TOOLS, WEB_UTILS, loc, need

MIN_OBLIGATIONS = 16
FS_SINKS = {'os.path.exists', 'os.path.isfile', 'os.path.isdir', 'os.listdir', 'open', 'serve_file', 'os.stat', 'os.path.getsize', 'os.scandir'}
NORMALISERS = ('os.path.abspath', 'os.path.normpath', 'os.path.realpath')


def run(repo, chk):
    chk.not_decided = ['symbolic links inside the document root', 'that the bytes served equal the file contents',
                       'multi-range (multipart/byteranges) bodies beyond the clamping of each range']
    chk.rule('C16.a', 'every file-system sink in Static._on_request takes a normalised docroot+path location and is dominated by '
                      '`loc == root or loc.startswith(root + sep)` (or commonpath / is_relative_to) against the docroot itself')
    chk.rule('C16.b', 'ValueError cannot escape get_ranges()')
    chk.rule('C16.c', 'every range appended to the result has stop ≤ content_length and start ≥ 0 by construction (min / max clamps)')
    chk.rule('C16.d', 'serve_file maps [] to 416 `bytes */len` and a single range to an exact 206 slice')
    chk.rule('C16.e', 'the HTTP front end fires request only for a path equal to its sanitised form (raw or quoted), else redirects')
    rule_a(repo, chk)
    rule_b(repo, chk)
    rule_c(repo, chk)
    rule_d(repo, chk)
    rule_e(repo, chk)
    rule_f(repo, chk)
    rule_g(repo, chk)


def _is_docroot_join(e, pathvars):
    """abspath(join(self.docroot, <path var>[, …])) → the path var used, else None ('' when no path component)."""
    if not (isinstance(e, ast.Call) and call_name(e) in NORMALISERS and e.args):
        return None
    j = e.args[0]
    if not (isinstance(j, ast.Call) and call_name(j) == 'os.path.join' and j.args and src(j.args[0]) == 'self.docroot'):
        return None
    def comp(a):
        # `path or '.'`: the path variable, or a constant when it is empty
        if isinstance(a, ast.BoolOp) and isinstance(a.op, ast.Or) and src(a.values[0]) in pathvars and all(isinstance(v, ast.Constant) for v in a.values[1:]):
            return src(a.values[0])
        return src(a)
    rest = [comp(a) for a in j.args[1:]]
    used = [r for r in rest if r in pathvars]
    if used:
        return used[0]
    if all(isinstance(a, ast.Constant) for a in j.args[1:]):
        return ''
    return None


def _contained_edge(locv):
    """Edge predicate: the edge establishes that `locv` is the docroot or lies below it."""
    root_forms = ('self.docroot', 'self.docroot.rstrip(os.sep)', 'self.docroot.rstrip(os.path.sep)', "self.docroot.rstrip('/')")
    seps = ('os.sep', 'os.path.sep', "'/'")

    def pred(t, pol):
        f = pat.compare_fact(t, pol)
        if f and pat.fact_matches(f, locv, ('==',), 'self.docroot'):
            return True
        if f and f[1] == '==' and 'os.path.commonpath' in f[0] + f[2] and 'self.docroot' in (f[0], f[2]):
            other = f[0] if f[2] == 'self.docroot' else f[2]
            return other.replace(' ', '') in (f'os.path.commonpath([self.docroot,{locv}])', f'os.path.commonpath([{locv},self.docroot])',
                                              f'os.path.commonpath((self.docroot,{locv}))')
        if pol == 'T' and isinstance(t, ast.Call) and isinstance(t.func, ast.Attribute):
            if t.func.attr == 'startswith' and src(t.func.value) == locv and len(t.args) == 1:
                a = t.args[0]
                if isinstance(a, ast.BinOp) and isinstance(a.op, ast.Add) and src(a.left) in root_forms and src(a.right) in seps:
                    return True
                if isinstance(a, ast.Call) and call_name(a) == 'os.path.join' and [src(x) for x in a.args] == ['self.docroot', "''"]:
                    return True
            if t.func.attr == 'is_relative_to' and len(t.args) == 1 and src(t.args[0]) == 'self.docroot':
                return True
        return False
    return pat.test_edge(pred)


def rule_a(repo, chk):
    f = repo.func(WEB_STATIC, 'Static._on_request')
    chk.touch(f)
    g = f.cfg()
    req = f.params[2]
    # variables derived from the request path
    pathvars = set()
    changed = True
    while changed:
        changed = False
        for n in g.nodes:
            if n.kind == 'stmt' and isinstance(n.ast, ast.Assign) and isinstance(n.ast.targets[0], ast.Name):
                used = Q.names_used(n.ast.value)
                if (f'{req}.path' in used or used & pathvars) and n.ast.targets[0].id not in pathvars and not _is_docroot_join(n.ast.value, pathvars | {'path'}) is not None:
                    pathvars.add(n.ast.targets[0].id)
                    changed = True
    need(pathvars, 'C16.a: no variable derives from request.path')
    # locations: normalised joins
    locdefs = {}
    for n in g.nodes:
        if n.kind == 'stmt' and isinstance(n.ast, ast.Assign) and isinstance(n.ast.targets[0], ast.Name):
            pv = _is_docroot_join(n.ast.value, pathvars)
            if pv is not None:
                locdefs.setdefault(n.ast.targets[0].id, []).append((n, pv))
    need(locdefs, 'C16.a: no normalised docroot+path location')
    pathvars -= set(locdefs)
    # the guarded location: the one tested against the docroot
    guarded = None
    for lv in locdefs:
        if any(_contained_edge(lv)(e) for n in g.nodes if n.kind == 'test' for e in n.succ):
            guarded = lv
    chk.ob('a', f.ref, 'the normalised location is tested for containment in the document root with an accepted idiom', guarded is not None, loc(f, f.node),
           detail=f'locations: {sorted(locdefs)}', discr='containment-test-exists')
    sinks = []
    for n in g.nodes:
        if n.kind not in ('stmt', 'test', 'iter'):
            continue
        for c in pat.node_calls(n):
            if call_name(c) in FS_SINKS:
                sinks.append((n, c))
    if len(sinks) < 5:
        raise AnalysisError(f'C16.a: only {len(sinks)} file-system sinks in Static._on_request, 8 confirmed by hand')
    seen = set()
    for n, c in sinks:
        key = (call_name(c), src(c.args[-1] if call_name(c) == 'serve_file' else c.args[0]))
        arg = c.args[-1] if call_name(c) == 'serve_file' else c.args[0]
        av = src(arg)
        ok_arg = av in locdefs
        detail = ''
        if not ok_arg:
            detail = f'argument `{av}` is not a normalised docroot+path location'
        else:
            # all definitions reaching the sink are docroot joins over the same request-path variable as the guarded one
            defs = Q.reaching_defs(g, n, av)
            for d in defs:
                if d.kind != 'stmt' or _is_docroot_join(getattr(d.ast, 'value', None), pathvars) is None:
                    ok_arg = False
                    detail = f'`{av}` may be defined by `{d.text[:60]}`'
        q = pat.guarded_by(g, n, _contained_edge(guarded)) if guarded else []
        idx = sum(1 for k in seen if k[:2] == key)
        seen.add(key + (n.id,))
        chk.ob('a', f.ref, f'`{call_name(c)}({av})` uses a normalised docroot+path location', ok_arg, loc(f, c), detail=detail,
               discr=f'sink-arg:{call_name(c)}:{av}:{idx}')
        chk.ob('a', f.ref, f'`{call_name(c)}({av})` is reached only after the location was found inside the document root', q is None, loc(f, c),
               path=pat.path_lines(q) if q else None, discr=f'sink-guarded:{call_name(c)}:{av}:{idx}')
    # the guarded location and the others are built from the same path variable (no second, unchecked path)
    pvs = {pv for lst in locdefs.values() for _n, pv in lst if pv}
    chk.ob('a', f.ref, 'all locations are built from the one request-path variable that the containment test covers', len(pvs) <= 1, loc(f, f.node),
           detail=f'path variables: {sorted(pvs)}', discr='single-path-variable')
    # the path variable is not re-bound between the guard and the later joins
    if guarded and pvs:
        pv = sorted(pvs)[0]
        gdefs = [n for n, _pv in locdefs[guarded]]
        rebinds = [n for n in g.nodes if n.kind in ('stmt', 'for') and pv in Q.node_defs(n)]
        bad = [r for r in rebinds if any(Q.reaches(gd, r) for gd in gdefs)]
        chk.ob('a', f.ref, 'the request-path variable is not changed after the location was checked', not bad, loc(f, (bad[0].ast if bad else f.node)),
               discr='path-not-rebound')
    # the path joined to the docroot is relative: '/' is stripped from the *decoded* text (an encoded slash that survives a strip done first would make it absolute,
    # and os.path.join drops everything before an absolute component)
    joined = sorted({pv for lst in locdefs.values() for _n, pv in lst if pv})
    for pv in joined:
        defs = [n for n in g.nodes if n.kind == 'stmt' and isinstance(n.ast, ast.Assign) and src(n.ast.targets[0]) == pv]
        dec = [n for n in defs if any(call_name(c) in ('unquote', 'urllib.parse.unquote', 'unquote_plus') for c in calls_in(n.ast.value))]
        last_defs = [n for n in defs if not any(Q.reaches(n, m) and m is not n for m in defs)]

        def stripped_after_decode(e):
            # <…unquote(X)…>.strip('/') / .lstrip('/'): the strip is applied to the result of the decoding
            return isinstance(e, ast.Call) and isinstance(e.func, ast.Attribute) and e.func.attr in ('strip', 'lstrip') and len(e.args) == 1 and pat.is_const(e.args[0], '/') \
                and any(call_name(c) in ('unquote', 'urllib.parse.unquote', 'unquote_plus') for c in calls_in(e.func.value) + ([e.func.value] if isinstance(e.func.value, ast.Call) else []))
        ok = bool(dec) and all(stripped_after_decode(n.ast.value) for n in dec) and all(n in dec or any(Q.reaches(n, d) for d in dec) for n in defs)
        chk.ob('a', f.ref, f'`{pv}` is made relative after it was decoded: the leading "/" is stripped from the decoded text, and nothing decodes it again afterwards', ok,
               loc(f, (dec or defs or [g.entry])[0].ast) if (dec or defs) else loc(f, f.node), detail='; '.join(src(n.ast)[:60] for n in dec), discr='relative-after-decoding')
    # a dispatcher mounted under a prefix answers the mount point and what lies below it, nothing that merely starts with the same characters
    mount_tests = [n for n in g.nodes if n.kind == 'test' and isinstance(n.ast, ast.Call) and isinstance(n.ast.func, ast.Attribute) and n.ast.func.attr == 'startswith'
                   and src(n.ast.func.value) == f'{req}.path' and n.ast.args and 'self.path' in src(n.ast.args[0])]
    if mount_tests or any(n.kind == 'test' and 'self.path' in src(n.ast) for n in g.nodes):
        okm = bool(mount_tests) and all(src(n.ast.args[0]).replace(' ', '').replace('"', "'") in ("self.path.rstrip('/')+'/'", "self.path+'/'") for n in mount_tests)
        chk.ob('a', f.ref, 'the mount test respects segment boundaries (the prefix followed by "/", or the mount point itself)', okm,
               loc(f, mount_tests[0].ast) if mount_tests else loc(f, f.node), detail='; '.join(src(n.ast) for n in mount_tests), discr='mount-boundary')
    # docroot is absolute and normalised
    init = repo.func(WEB_STATIC, 'Static.__init__')
    chk.touch(init)
    st = [n for n in walk_no_defs(init.node) if isinstance(n, ast.Assign) and 'self' in pat.stores_attr(n, 'docroot')]
    ok = bool(st) and all('os.path.abspath(' in src(n.value) for n in st)
    chk.ob('a', init.ref, 'the document root is stored as an absolute, normalised path', ok, loc(init, init.node), discr='docroot-normalised')


def _caught(func, node, exc='ValueError'):
    oracle = ExcOracle(func.module.repo, func.module)
    p = getattr(node, '_parent', None)
    cur = node
    while p is not None and p is not func.node:
        if isinstance(p, ast.Try) and cur in p.body:
            for h in p.handlers:
                if oracle.match(exc, handler_names(h)) == 'yes':
                    return True
        if isinstance(p, (ast.With,)) and cur in p.body:
            for it in p.items:
                if isinstance(it.context_expr, ast.Call) and (call_name(it.context_expr) or '').endswith('suppress') and \
                        any(src(a) in ('ValueError', 'Exception') for a in it.context_expr.args):
                    return True
        cur = p
        p = getattr(p, '_parent', None)
    return False


def _value_raisers(func):
    out = []
    for n in walk_no_defs(func.node):
        if isinstance(n, ast.Name) and n.id in ('int', 'float') and isinstance(n.ctx, ast.Load):
            out.append(n)
        elif isinstance(n, ast.Assign) and any(isinstance(t, (ast.Tuple, ast.List)) for t in n.targets) and not isinstance(n.value, (ast.Tuple, ast.List)):
            out.append(n)
        elif isinstance(n, ast.Raise) and n.exc is not None and 'ValueError' in src(n.exc):
            out.append(n)
    return out


def rule_b(repo, chk):
    m = repo.module(WEB_UTILS)
    entry = repo.func(WEB_UTILS, 'get_ranges')
    chk.touch(entry)
    may = {}   # function name -> first uncaught raiser

    def analyse(f, depth=0):
        if f.name in may:
            return may[f.name]
        may[f.name] = None
        for r in _value_raisers(f):
            if not _caught(f, r):
                may[f.name] = (f, r, 'parses')
                break
        if may[f.name] is None and depth < 3:
            for c in calls_in(f.node):
                nm = call_name(c)
                if nm in m.functions and nm != f.name:
                    sub = analyse(m.functions[nm], depth + 1)
                    if sub is not None and not _caught(f, c):
                        may[f.name] = (f, c, f'calls {nm}')
                        break
        return may[f.name]
    res = analyse(entry)
    # every function of the module reachable from the entry takes part in the parsing (whether or not the first uncaught raiser was found before it)
    reach, todo = {entry.name}, [entry]
    while todo:
        f_ = todo.pop()
        for c in calls_in(f_.node):
            nm = call_name(c)
            if nm in m.functions and nm not in reach:
                reach.add(nm)
                todo.append(m.functions[nm])
    parsing = [f for f in m.functions.values() if f.name in reach]
    n_raisers = sum(len(_value_raisers(f)) for f in parsing)
    for f in parsing:
        chk.touch(f)
    need(n_raisers >= 3, f'C16.b: only {n_raisers} parsing steps found under get_ranges, 4 confirmed by hand')
    detail = ''
    if res is not None:
        f, node, why = res
        detail = f'{f.ref}:{getattr(node, "lineno", "?")} {why}: `{src(node)[:60]}` is not inside a handler for ValueError'
    chk.ob('b', entry.ref, f'none of the {n_raisers} parsing steps reachable from get_ranges() lets ValueError escape', res is None, loc(entry, entry.node),
           detail=detail, discr='valueerror-contained')
    # the handler turns it into "no usable header" (None), not into an empty list (416)
    g = entry.cfg()
    for h in pat.except_nodes(g):
        if handler_names(h.ast) and 'ValueError' in handler_names(h.ast):
            reg = pat.region(g, 'except', h.ast)
            rets = [n for n in reg if n.kind == 'stmt' and isinstance(n.ast, ast.Return)]
            ok = bool(rets) and all(n.ast.value is None or pat.is_const(n.ast.value, None) for n in rets)
            chk.ob('b', entry.ref, 'a syntactically invalid Range header is treated as absent (None → full entity)', ok, loc(entry, h.ast), discr='invalid-is-none')


def rule_c(repo, chk):
    m = repo.module(WEB_UTILS)
    f = m.functions.get('_get_ranges') or m.functions.get('get_ranges')
    need(f, 'C16.c: range parser missing')
    chk.touch(f)
    g = f.cfg()
    clen = f.params[1]
    # appended ranges: `result.append((a, b))`, or `span = (a, b)` … `result.append(span)` (then the obligations are stated where the pair is built)
    apps = []
    for n in g.nodes:
        if n.kind != 'stmt':
            continue
        for _r, c in pat.method_calls(n.ast, 'append'):
            if not c.args:
                continue
            if isinstance(c.args[0], ast.Tuple) and len(c.args[0].elts) == 2:
                apps.append((n, c.args[0], c))
            elif isinstance(c.args[0], ast.Name):
                for d in Q.reaching_defs(g, n, c.args[0].id):
                    if d.kind == 'stmt' and isinstance(d.ast, ast.Assign) and isinstance(d.ast.value, ast.Tuple) and len(d.ast.value.elts) == 2:
                        apps.append((d, d.ast.value, d.ast))
                    else:
                        chk.ob('c', f.ref, 'what is appended to the result is a (start, stop) pair built in this function', False, loc(f, c),
                               detail=f'`{d.text[:60]}`', discr='appended-is-pair')
    need(len(apps) >= 2, 'C16.c: the range parser appends fewer than two kinds of ranges')

    def values_at(n, e, depth=0):
        """The expressions whose value *e* may have at node n (names are followed through their reaching definitions)."""
        if isinstance(e, ast.Name) and depth < 4:
            out = []
            for d in Q.reaching_defs(g, n, e.id):
                if d.kind == 'stmt' and isinstance(d.ast, ast.Assign) and len(d.ast.targets) == 1 and isinstance(d.ast.targets[0], ast.Name):
                    out += values_at(d, d.ast.value, depth + 1)
                else:
                    out.append(None)
            return out or [None]
        return [(n, e)]

    def at_most_last(n, e, depth=0):
        """e <= clen - 1 at node n: `clen - 1`, min(…) with such an argument, a conditional expression of such values, a name all of whose definitions are such"""
        if depth > 5 or e is None:
            return False
        if isinstance(e, ast.BinOp) and isinstance(e.op, ast.Sub) and src(e.left) == clen and pat.is_const(e.right, 1):
            return True
        if isinstance(e, ast.Call) and call_name(e) == 'min' and not e.keywords and len(e.args) >= 2:
            return any(at_most_last(n, x, depth + 1) for x in e.args)
        if isinstance(e, ast.IfExp):
            return at_most_last(n, e.body, depth + 1) and at_most_last(n, e.orelse, depth + 1)
        if isinstance(e, ast.Name):
            vals = values_at(n, e)
            return all(v is not None and not isinstance(v[1], ast.Name) and at_most_last(v[0], v[1], depth + 1) for v in vals)
        return False
    for n, pair, c in apps:
        a, b = pair.elts
        kind = 'suffix' if src(b) == clen else 'explicit'
        # upper bound
        if src(b) == clen:
            ok_b, det_b = True, 'stop is the entity length'
        elif isinstance(b, ast.BinOp) and isinstance(b.op, ast.Add) and pat.is_const(b.right, 1) and isinstance(b.left, ast.Name):
            ok_b = at_most_last(n, b.left)
            det_b = '; '.join(d.text[:50] for d in Q.reaching_defs(g, n, b.left.id))
        else:
            ok_b, det_b = False, f'stop expression `{src(b)}`'
        chk.ob('c', f.ref, f'{kind} range: the stop index cannot exceed the entity length', ok_b, loc(f, c), detail=det_b, discr=f'stop-clamped:{kind}')
        # lower bound
        if kind == 'suffix':
            vals = values_at(n, a)
            ok_a = all(v is not None and _is_max_zero(v[1]) for v in vals)
            det_a = '; '.join(src(v[1])[:50] for v in vals if v is not None)
            # … and at most the length: the suffix length subtracted is known to be positive
            for v in vals:
                if not ok_a:
                    break
                sub = [x for x in v[1].args if not pat.is_const(x, 0)][0]
                sv_ = src(sub.right) if isinstance(sub, ast.BinOp) and isinstance(sub.op, ast.Sub) and src(sub.left) == clen else None
                if sv_ is None:
                    ok_a = False
                    break
                nonneg = pat.guarded_by(g, v[0], pat.test_edge(lambda tt, pol: pat.fact_matches(pat.compare_fact(tt, pol), sv_, ('>=', '>'), '0') or
                                                               pat.fact_matches(pat.compare_fact(tt, pol), sv_, ('>=',), '1')))
                nonzero = pat.guarded_by(g, v[0], pat.test_edge(lambda tt, pol: pat.fact_matches(pat.compare_fact(tt, pol), sv_, ('!=', '>'), '0') or
                                                                pat.fact_matches(pat.compare_fact(tt, pol), sv_, ('>=',), '1')))
                chk.ob('c', f.ref, 'suffix range: the suffix length is known to be positive (a signed or zero suffix is not served)', nonneg is None and nonzero is None,
                       loc(f, c), path=pat.path_lines(nonneg or nonzero) if (nonneg or nonzero) else None, discr='suffix-positive')
        elif isinstance(a, ast.Name):
            # explicit first-byte-pos: parsed by int() from a non-empty token; satisfiable ranges only (start < length checked)
            q = pat.guarded_by(g, n, pat.test_edge(lambda tt, pol: pat.fact_matches(pat.compare_fact(tt, pol), a.id, ('<',), clen)))
            ok_a = q is None
            det_a = '; '.join(d.text[:50] for d in Q.reaching_defs(g, n, a.id))
        else:
            ok_a, det_a = False, f'start expression `{src(a)}`'
        chk.ob('c', f.ref, f'{kind} range: the start index is inside the entity', ok_a, loc(f, c), detail=det_a, discr=f'start-bounded:{kind}')
        if kind == 'explicit':
            q = pat.guarded_by(g, n, pat.test_edge(lambda tt, pol: pat.fact_matches(pat.compare_fact(tt, pol), b.left.id if isinstance(b, ast.BinOp) else '?', ('>=',), a.id if isinstance(a, ast.Name) else '?')))
            if q is not None and isinstance(a, ast.Name) and isinstance(b, ast.BinOp) and isinstance(b.left, ast.Name):
                # no test of the final values, but it follows: start < length (tested), and every definition of stop is either length - 1 (open range) or
                # min(last as written, length - 1) with last >= start tested on the written value
                sv_, av_ = b.left.id, a.id
                inside = pat.guarded_by(g, n, pat.test_edge(lambda tt, pol: pat.fact_matches(pat.compare_fact(tt, pol), av_, ('<',), clen))) is None
                follows = inside
                for d in Q.reaching_defs(g, n, sv_):
                    v = getattr(d.ast, 'value', None) if d.kind == 'stmt' and isinstance(d.ast, ast.Assign) else None
                    if v is None:
                        follows = False
                    elif isinstance(v, ast.Call) and call_name(v) == 'min' and any(isinstance(x, ast.Name) and x.id == sv_ for x in v.args) and \
                            any(at_most_last(d, x) for x in v.args if not (isinstance(x, ast.Name) and x.id == sv_)):
                        written_ok = pat.guarded_by(g, d, pat.test_edge(lambda tt, pol: pat.fact_matches(pat.compare_fact(tt, pol), sv_, ('>=',), av_))) is None
                        follows = follows and written_ok
                    elif isinstance(v, (ast.BinOp, ast.Name)) and at_most_last(d, v) and not any(isinstance(w_, ast.Call) for w_ in ast.walk(v)) and \
                            (not isinstance(v, ast.Name) or all(x is not None and isinstance(x[1], ast.BinOp) for x in values_at(d, v))):
                        # exactly length - 1 (through a local): at_most_last of a non-min expression means the value is `length - 1`
                        pass
                    else:
                        follows = False
                if follows:
                    q = None
            chk.ob('c', f.ref, 'explicit range: a reversed range is never appended', q is None, loc(f, c), discr='not-reversed')
            # "reversed ⇒ ignore the header" may only be concluded for a range that starts inside the entity: an open range  gets
            # length-1 as its end, so for N ≥ length it would look reversed although it is unsatisfiable (416)
            if isinstance(a, ast.Name) and isinstance(b, ast.BinOp):
                rev_edges = [e for tn in g.nodes if tn.kind == 'test' for e in tn.succ
                             if pat.fact_matches(pat.compare_fact(tn.ast, e.kind), b.left.id, ('<',), a.id)]
                okr = bool(rev_edges)
                for e in rev_edges:
                    q2 = pat.guarded_by(g, e.src, pat.test_edge(lambda tt, pol: pat.fact_matches(pat.compare_fact(tt, pol), a.id, ('<',), clen)))
                    # … or the test compares the positions as the client wrote them (both parsed from their tokens, neither clamped nor defaulted): a
                    # last-byte-pos below the first-byte-pos is invalid wherever the two lie
                    as_written = all(d.kind == 'stmt' and isinstance(d.ast, ast.Assign) and isinstance(d.ast.value, ast.Call) and call_name(d.ast.value) in ('_position', 'int')
                                     for v_ in (b.left.id, a.id) for d in Q.reaching_defs(g, e.src, v_))
                    if q2 is not None and not as_written:
                        okr = False
                chk.ob('c', f.ref, 'the reversed-range test (ignore the header) is applied only to ranges that start inside the entity; an unsatisfiable start is '
                                   'recognised first', okr, loc(f, c), discr='unsatisfiable-before-reversed')
    rule_grammar(repo, chk, f, g, clen)


def rule_grammar(repo, chk, f, g, clen):
    """What the parser accepts is the byte-ranges grammar: unit `bytes`, positions 1*DIGIT, last >= first as written; a header outside it is ignored (None), and a
    header inside it is never refused by the parser itself."""
    m = repo.module(WEB_UTILS)
    rets_none = [n for n in g.nodes if n.kind == 'stmt' and isinstance(n.ast, ast.Return) and (n.ast.value is None or pat.is_const(n.ast.value, None))]
    # unit
    unitv = None
    for n in g.nodes:
        if n.kind == 'stmt' and isinstance(n.ast, ast.Assign) and isinstance(n.ast.targets[0], ast.Tuple) and len(n.ast.targets[0].elts) == 2 \
                and src(n.ast.value).replace('"', "'").endswith(".split('=', 1)") and isinstance(n.ast.targets[0].elts[0], ast.Name):
            unitv = n.ast.targets[0].elts[0].id
    edges = [e for n in g.nodes if n.kind == 'test' for e in n.succ
             if unitv and (lambda fc: fc is not None and unitv in fc[0] and fc[1] == '!=' and fc[2].replace('"', "'") == "'bytes'")(pat.compare_fact(n.ast, e.kind))]
    oku = bool(edges) and all(e.dst in rets_none or Q.escapes(g, [e.dst], lambda n: n in rets_none) is None for e in edges)
    chk.ob('c', f.ref, 'a Range header whose unit is not `bytes` is ignored (the ranges of another unit are not byte ranges)', oku, loc(f, f.node), discr='unit-is-bytes')
    # positions: every int() over a token is guarded by "ASCII digits only"
    n_int = 0
    funcs = [f] + [m.functions[nm] for nm in sorted({call_name(c) for c in calls_in(f.node)} & set(m.functions)) if nm != f.name]
    for fn in funcs:
        gf = fn.cfg()
        for n in gf.nodes:
            if n.ast is None or n.kind not in ('stmt', 'test'):
                continue
            for c in pat.node_calls(n):
                if call_name(c) == 'int' and len(c.args) == 1:
                    n_int += 1
                    x = src(c.args[0])
                    q1 = pat.guarded_by(gf, n, pat.test_edge(lambda tt, pol: pol == 'T' and src(tt) == f'{x}.isdigit()'))
                    q2 = pat.guarded_by(gf, n, pat.test_edge(lambda tt, pol: pol == 'T' and src(tt) == f'{x}.isascii()'))
                    chk.ob('c', fn.ref, 'a position is converted with int() only after it was found to consist of ASCII digits (int() alone also takes signs, blanks, "_" and '
                                        'non-ASCII digits)', q1 is None and q2 is None, loc(fn, c), discr=f'digits-only:{fn.name}')
    chk.ob('c', f.ref, 'the positions of a byte-range-spec are converted somewhere', n_int >= 1, loc(f, f.node), discr='positions-converted', nontrivial=False)
    # reversed as written
    aw = []
    for n in g.nodes:
        if n.kind != 'test' or not isinstance(n.ast, ast.Compare) or len(n.ast.ops) != 1 or not isinstance(n.ast.left, ast.Name) or not isinstance(n.ast.comparators[0], ast.Name):
            continue
        both = all(d.kind == 'stmt' and isinstance(d.ast, ast.Assign) and isinstance(d.ast.value, ast.Call) and call_name(d.ast.value) in ('_position', 'int')
                   for v_ in (n.ast.left.id, n.ast.comparators[0].id) for d in Q.reaching_defs(g, n, v_))
        if both and isinstance(n.ast.ops[0], (ast.Lt, ast.Gt, ast.LtE, ast.GtE)):
            for e in n.succ:
                fc = pat.compare_fact(n.ast, e.kind)
                if fc and fc[1] in ('<', '>') and (e.dst in rets_none or Q.escapes(g, [e.dst], lambda m_: m_ in rets_none) is None):
                    aw.append(n)
    chk.ob('c', f.ref, 'a spec whose last position is below its first, as the client wrote them (before any clamping), makes the header invalid: it is ignored', bool(aw),
           loc(f, aw[0].ast) if aw else loc(f, f.node), discr='reversed-as-written')
    # whitespace: the two sides of a spec are not stripped individually (blanks inside a spec are not part of the grammar)
    inner_strip = [c for c in calls_in(f.node) if isinstance(c.func, ast.Attribute) and c.func.attr == 'strip' and isinstance(getattr(c, '_parent', None), ast.GeneratorExp)]
    chk.ob('c', f.ref, 'blanks inside a byte-range-spec are not removed before the positions are checked', not inner_strip, loc(f, inner_strip[0]) if inner_strip else loc(f, f.node),
           discr='no-inner-strip')
    # the parser itself never refuses a header it has understood: unsatisfiable is the caller's conclusion from an empty result
    refusals = [n for n in g.nodes if n.kind == 'stmt' and isinstance(n.ast, ast.Raise) and n.ast.exc is not None and 'ValueError' not in src(n.ast.exc)]
    chk.ob('c', f.ref, 'a well-formed range set is never refused by the parser (no exception other than the ValueError of a malformed header): what cannot be satisfied '
                       'is left out, and an empty result means 416', not refusals, loc(f, refusals[0].ast) if refusals else loc(f, f.node),
           detail='; '.join(src(n.ast)[:60] for n in refusals), discr='no-refusal-of-satisfiable-sets')


def _is_min_clamp(v, sv, clen):
    if isinstance(v, ast.Call) and call_name(v) == 'min' and len(v.args) == 2:
        a = {src(x).replace(' ', '') for x in v.args}
        return a == {sv, f'{clen}-1'}
    if isinstance(v, ast.BinOp) and isinstance(v.op, ast.Sub) and src(v.left) == clen and pat.is_const(v.right, 1):
        return True   # "stop = content_length - 1" for an open range
    return False


def _is_max_zero(v):
    return isinstance(v, ast.Call) and call_name(v) == 'max' and len(v.args) == 2 and any(pat.is_const(x, 0) for x in v.args)


def rule_d(repo, chk):
    f = repo.func(WEB_TOOLS, 'serve_file')
    chk.touch(f)
    g = f.cfg()
    calls = [n for n in g.nodes if n.kind == 'stmt' and isinstance(n.ast, ast.Assign) and isinstance(n.ast.value, ast.Call) and call_name(n.ast.value) == 'get_ranges']
    need(calls, 'C16.d: serve_file does not call get_ranges')
    rv = src(calls[0].ast.targets[0])
    c = calls[0].ast.value
    lenv = src(c.args[1])
    ldefs = [n for n in g.nodes if n.kind == 'stmt' and isinstance(n.ast, ast.Assign) and src(n.ast.targets[0]) == lenv]
    chk.ob('d', f.ref, 'ranges are computed against the size of the file being served', bool(ldefs) and all('st_size' in src(n.ast.value) for n in ldefs),
           loc(f, c), discr='length-is-file-size')
    empties = [e for n in g.nodes if n.kind == 'test' for e in n.succ if pat.fact_matches(pat.compare_fact(n.ast, e.kind), rv, ('==',), '[]')]
    chk.ob('d', f.ref, 'serve_file distinguishes the unsatisfiable case (empty list)', bool(empties), loc(f, f.node), discr='empty-case', nontrivial=False)
    for e in empties:
        cr = [n for n in g.nodes if n.kind == 'stmt' and isinstance(n.ast, ast.Assign) and src(n.ast.targets[0]) == "response.headers['Content-Range']"
              and src(n.ast.value).replace(' ', '') in (f"'bytes*/%s'%{lenv}", f"f'bytes*/{{{lenv}}}'")]
        r416 = [n for n in g.nodes if n.kind == 'stmt' and isinstance(n.ast, ast.Return) and n.ast.value is not None and 'httperror(' in src(n.ast.value)
                and '416' in src(n.ast.value)]
        p1 = Q.escapes(g, [e.dst], lambda n: n in cr) if e.dst not in cr else None
        p2 = Q.escapes(g, [e.dst], lambda n: n in r416)
        chk.ob('d', f.ref, 'an unsatisfiable range is answered with 416 and Content-Range: bytes */length', bool(cr) and bool(r416) and p1 is None and p2 is None,
               loc(f, e.src.ast), discr='416')
    # single range
    unp = [n for n in g.nodes if n.kind == 'stmt' and isinstance(n.ast, ast.Assign) and isinstance(n.ast.targets[0], ast.Tuple) and src(n.ast.value) == f'{rv}[0]']
    chk.ob('d', f.ref, 'a single range is unpacked into (start, stop)', bool(unp), loc(f, f.node), discr='single-unpacked', nontrivial=False)
    for u in unp:
        sv, ev = [src(x) for x in u.ast.targets[0].elts]
        want = {
            'status-206': lambda n: isinstance(n.ast, ast.Assign) and src(n.ast.targets[0]) == 'response.status' and src(n.ast.value) == '206',
            'content-range': lambda n: isinstance(n.ast, ast.Assign) and src(n.ast.targets[0]) == "response.headers['Content-Range']" and
            src(n.ast.value).replace(' ', '') in (f"f'bytes{{{sv}}}-{{{ev}-1}}/{{{lenv}}}'", f"'bytes%s-%s/%s'%({sv},{ev}-1,{lenv})"),
            'seek-start': lambda n: any(r == 'bodyfile' and [src(a) for a in c2.args] == [sv] for r, c2 in pat.method_calls(n.ast, 'seek')),
        }
        lens = [n for n in g.nodes if n.kind == 'stmt' and isinstance(n.ast, ast.Assign) and src(n.ast.value).replace(' ', '') == f'{ev}-{sv}']
        lv = src(lens[0].ast.targets[0]) if lens else None
        want['content-length'] = lambda n: lv is not None and isinstance(n.ast, ast.Assign) and src(n.ast.targets[0]) == "response.headers['Content-Length']" and src(n.ast.value) == lv
        want['read-exact'] = lambda n: lv is not None and isinstance(n.ast, ast.Assign) and src(n.ast.targets[0]) == 'response.body' and src(n.ast.value) == f'bodyfile.read({lv})'
        for label, pred in want.items():
            grp = [n for n in g.nodes if n.kind == 'stmt' and pred(n)]
            p = Q.escapes(g, [u], lambda n: n in grp, exc=())
            if p is not None and label == 'status-206' and Q.reachable_without(g, u, avoid_node=lambda n: n in grp, exc=()) is None:
                p = None        # the status is set on every path that leads to the single-range branch (it does not depend on the range)
            chk.ob('d', f.ref, f'single range response: {label}', bool(grp) and p is None, loc(f, u.ast), path=pat.path_lines(p, u) if p else None,
                   discr=f'single:{label}')
        rd = [n for n in g.nodes if n.kind == 'stmt' and want['read-exact'](n)]
        sk = [n for n in g.nodes if n.kind == 'stmt' and want['seek-start'](n)]
        ok = bool(rd) and bool(sk) and all(Q.reachable_without(g, r_, avoid_node=lambda n: n in sk) is None for r_ in rd)
        chk.ob('d', f.ref, 'the slice is read after seeking to its start', ok, loc(f, u.ast), discr='seek-before-read')
    # multipart/byteranges: every part is read after seeking to its own start (parts may overlap or come in any order)
    fr = f.nested.get('file_ranges')
    if fr is not None:
        chk.touch(fr)
        gf = fr.cfg()
        loops = [n for n in gf.nodes if n.kind == 'for' and isinstance(n.ast.target, ast.Tuple)]
        need(loops, 'C16.d: the multipart generator has no loop over the ranges')
        lp = loops[0]
        sv2, ev2 = [src(x) for x in lp.ast.target.elts]
        rds = [n for n in gf.nodes if n.kind == 'stmt' and ('loop', lp.ast) in n.ctx and any(src(c) == f'bodyfile.read({ev2} - {sv2})' for c in calls_in(n.ast))]
        sks = [n for n in gf.nodes if n.kind == 'stmt' and ('loop', lp.ast) in n.ctx and any(src(c) == f'bodyfile.seek({sv2})' for c in calls_in(n.ast))]
        okm = bool(rds) and bool(sks) and all(Q.reachable_without(gf, r_, start=lp, avoid_node=lambda n: n in sks, weak=True) is None for r_ in rds)
        chk.ob('d', fr.ref, 'each part of a multipart response is read (exactly stop − start bytes) after an unconditional seek to its start', okm, loc(fr, lp.ast),
               discr='multipart-seek-read')
        hdr = [c for n in gf.nodes if n.kind == 'stmt' and ('loop', lp.ast) in n.ctx for c in [n.ast] if 'Content-range' in src(n.ast)]
        okh = bool(hdr) and all(f'({sv2}, {ev2} - 1, {lenv})' in src(h_) for h_ in hdr)
        chk.ob('d', fr.ref, 'each part announces start-(stop−1)/length', okh, loc(fr, lp.ast), discr='multipart-content-range')
    # ranges only for HTTP/1.1
    q = pat.guarded_by(g, calls[0], pat.test_edge(lambda tt, pol: pat.fact_matches(pat.compare_fact(tt, pol), 'request.protocol', ('>=',), '(1, 1)')))
    chk.ob('d', f.ref, 'Range is honoured only for HTTP/1.1 requests', q is None, loc(f, calls[0].ast), discr='http11-only')


def rule_e(repo, chk):
    from .common import WEB_HTTP, WEB_WRAPPERS
    h = http_func(repo, 'HTTP._on_read')
    chk.touch(h)
    g = h.cfg()
    reqv = None
    for n in g.nodes:
        if n.kind == 'stmt' and isinstance(n.ast, ast.Assign) and 'request(' in src(n.ast.value) and isinstance(n.ast.targets[0], ast.Name):
            reqv = n.ast.targets[0].id
    rf = [n for n in g.nodes if n.kind == 'stmt' and any(src(e) == reqv for _c, _r, e in pat.fire_calls(n.ast))]
    need(rf, 'C16.e: _on_read never fires request')
    # variables holding the raw and the sanitised path
    raw = san = None
    for n in g.nodes:
        if n.kind == 'stmt' and isinstance(n.ast, ast.Assign) and isinstance(n.ast.targets[0], ast.Name):
            if src(n.ast.value) == 'req.path':
                raw = n.ast.targets[0].id
            if src(n.ast.value) == 'req.uri._path':
                san = n.ast.targets[0].id
    need(raw and san, 'C16.e: the front end does not compare req.path with req.uri._path')

    def same(tt, pol):
        f = pat.compare_fact(tt, pol)
        if not f or f[1] != '==':
            return False
        sides = {f[0].replace(' ', ''), f[2].replace(' ', '')}
        return san in sides and any(x in sides for x in (f'{raw}.encode(self._encoding)', f'quote({raw}).encode(self._encoding)'))
    for r in rf:
        q = pat.guarded_by(g, r, pat.test_edge(same))
        chk.ob('e', h.ref, 'request is fired only when the path equals its sanitised form (raw or percent-quoted)', q is None, loc(h, r.ast),
               path=pat.path_lines(q) if q else None, discr='front-end-guard')
    red = [n for n in g.nodes if n.kind == 'stmt' and pat.fires(n.ast, 'redirect')]
    chk.ob('e', h.ref, 'a path that differs from its sanitised form is redirected to the sanitised URL', bool(red) and all('req.uri.utf8()' in src(n.ast) for n in red),
           loc(h, h.node), discr='front-end-redirect')
    rq = repo.func(WEB_WRAPPERS, 'Request.__init__')
    chk.touch(rq)
    ok = any(r_ == 'self.uri' for r_, _c in pat.method_calls(rq.node, 'sanitize'))
    chk.ob('e', rq.ref, 'the request URI is sanitised when the Request is built', ok, loc(rq, rq.node), discr='uri-sanitised')


TOTAL_PROBES = {'os.path.exists', 'os.path.isfile', 'os.path.isdir', 'os.path.islink', 'os.path.lexists'}   # return False for any unusable path (OSError and ValueError are caught inside)
RAISING_PROBES = {'os.stat', 'os.lstat', 'os.listdir', 'os.scandir', 'os.path.getsize', 'os.path.getmtime', 'open', 'os.open', 'os.access'}


def rule_f(repo, chk):
    """Not-found is decided by a probe that cannot fail on a hostile path."""
    from sa.cfg import handler_names
    chk.rule('C16.f', 'a path that denotes nothing servable (missing, embedded NUL, over-long) is answered with not-found, not with an internal error: '
                      'every file-system call of Static._on_request that can raise on such a path is dominated by a total os.path predicate being true, '
                      'or enclosed by handlers for both OSError and ValueError')
    f = repo.func(WEB_STATIC, 'Static._on_request')
    g = f.cfg()
    total_T = pat.test_edge(lambda tt, pol: pol == 'T' and any(call_name(c) in TOTAL_PROBES for c in calls_in(tt)) and not isinstance(tt, ast.UnaryOp))
    total_F_of_not = pat.test_edge(lambda tt, pol: pol == 'F' and isinstance(tt, ast.UnaryOp) and isinstance(tt.op, ast.Not) and any(call_name(c) in TOTAL_PROBES for c in calls_in(tt)))
    n_total = sum(1 for n in g.nodes if n.kind == 'test' and any(call_name(c) in TOTAL_PROBES for c in pat.node_calls(n)))
    n_r = 0

    def caught_around(n):
        caught = set()
        for h in pat.enclosing_try_handlers(g, n):
            names = handler_names(h.ast)
            caught |= set(names) if names else {'*'}
        return caught

    def is_safe(caught):
        return '*' in caught or 'Exception' in caught or 'BaseException' in caught or ({'OSError', 'ValueError'} <= caught)
    # a raising probe that is enclosed by both handlers and came back normally has shown the path to be usable
    proven = [n for n in g.nodes if n.kind in ('stmt', 'test') and any(call_name(c) in RAISING_PROBES for c in pat.node_calls(n)) and is_safe(caught_around(n))]
    for n in g.nodes:
        if n.kind not in ('stmt', 'test', 'iter', 'for', 'with'):
            continue
        for c in pat.node_calls(n):
            nm = call_name(c)
            if nm not in RAISING_PROBES:
                continue
            n_r += 1
            dom = pat.guarded_by(g, n, lambda e: total_T(e) or total_F_of_not(e) or (e.src in proven and e.src is not n and e.kind != 'x'))
            caught = caught_around(n)
            safe = is_safe(caught)
            chk.ob('f', f.ref, f'`{nm}` cannot turn an unusable path into an internal error', dom is None or safe, loc(f, c),
                   detail=f'handlers around it: {sorted(caught)}' if dom is not None else '', path=pat.path_lines(dom) if dom and not safe else None,
                   discr=f'probe-total:{nm}')
    chk.ob('f', f.ref, 'existence and kind of the location are decided by total predicates', n_total >= 1 or n_r > 0, loc(f, f.node), discr='has-probes', nontrivial=False)


def rule_g(repo, chk):
    chk.rule('C16.g', 'a satisfiable byte range is left out of the result only when exactly the same range is in it already: every test of the range loop that '
                      'consults the result list is `X (not) in result` for the very tuple X that is appended')
    m = repo.module(WEB_UTILS)
    f = m.functions.get('_get_ranges') or m.functions.get('get_ranges')
    need(f, 'C16.g: range parser missing')
    g = f.cfg()
    apps = [(n, c) for n in g.nodes if n.kind == 'stmt' for r, c in pat.method_calls(n.ast, 'append') if c.args and
            (isinstance(c.args[0], ast.Tuple) or (isinstance(c.args[0], ast.Name) and any(
                d.kind == 'stmt' and isinstance(d.ast, ast.Assign) and isinstance(d.ast.value, ast.Tuple) for d in Q.reaching_defs(g, n, c.args[0].id))))]
    need(apps, 'C16.g: the range parser appends nothing')
    rv = src([c for _n, c in apps][0].func.value)
    tuples = {src(c.args[0]).replace(' ', '') for _n, c in apps}
    n_t = 0
    for n in g.nodes:
        if n.kind != 'test' or not any(k == 'loop' for k, _a in n.ctx):
            continue
        if rv not in Q.names_used(n.ast):
            continue
        n_t += 1
        t = n.ast
        exact = isinstance(t, ast.Compare) and len(t.ops) == 1 and isinstance(t.ops[0], (ast.In, ast.NotIn)) and src(t.comparators[0]) == rv and \
            src(t.left).replace(' ', '') in tuples
        # … and the tuple tested is the one appended under this test
        if exact:
            want = src(t.left).replace(' ', '')
            under = [a for a, c in apps if src(c.args[0]).replace(' ', '') == want and any(e.dst is a or Q.reaches(e.dst, a, stop=lambda x: x.kind == 'for') for e in n.succ
                                                                                             if e.kind == ('T' if isinstance(t.ops[0], ast.NotIn) else 'F'))]
            exact = bool(under)
            if exact and isinstance(t.left, ast.Name):
                # a pair held in a local: the local is not re-bound between the membership test and the append
                exact = all(not (Q.reachable_without(g, a, start=n, avoid_node=lambda x: x is not n and t.left.id in Q.node_defs(x)) is None) for a in under)
        chk.ob('g', f.ref, 'the result list is consulted only to skip an exact duplicate of the range about to be appended', exact, loc(f, t),
               detail=src(t)[:100], discr=f'dedupe-exact:{"suffix" if f.params[1] in src(t) else "explicit"}')
    chk.info(f'C16.g: {n_t} tests of the range loop consult the result list')
