"""C02 — dispatch order: priority then FIFO per pass; handler priority; stop().

a  queue discipline: FIFO only append/extend + popleft; heap only heappush/heappop; entries (priority, tie, payload)
   with an untransformed priority and a tie counter incremented before every append; no writer outside the queue class
b  batch protocol: refill only when the remaining count is 0; amount moved = stored remaining count; per drained
   entry exactly decrement → heappop → dispatcher call
c  fire never dispatches (call-graph non-reachability)
d  the handler list iterated by the dispatcher is sorted by descending priority (every reaching definition)
e  after each handler invocation (normal or through any except clause) the stopped test runs before the next
   handler and its true branch leaves the loop
"""

import ast

from sa import AnalysisError, pat
from sa import query as Q
from sa.callgraph import CallGraph
from sa.model import call_name, calls_in, src, walk_no_defs

from .common import EVENTS, MANAGER, loc, need

MIN_OBLIGATIONS = 20


def run(repo, chk):
    chk.not_decided = [
        'relative order of handlers with equal priority',
        'the fallback idle handler is appended after sorting regardless of its priority',
        'FIFO among events fired by different threads (see C03)',
    ]
    chk.rule('C02.a', 'the event queue is a FIFO (append/extend + popleft) feeding a heap (heappush/heappop) of '
                      '(priority, tie, payload) entries; priority is stored untransformed; the tie counter is incremented '
                      'before every append; nothing outside _EventQueue touches its internals')
    chk.rule('C02.b', 'a pass snapshots the FIFO length, moves exactly that many entries, and dispatches exactly one '
                      'popped entry per decrement, in the order decrement → heappop → dispatch')
    chk.rule('C02.c', 'fireEvent/_fire never reach the dispatcher, a flush, tick or the task stepper in the call graph')
    chk.rule('C02.d', 'every definition of the handler list that reaches the dispatch loop is a descending-priority sort '
                      '(or the memo filled from such a sort)')
    chk.rule('C02.e', 'every path from a handler invocation to the next loop iteration passes the stopped test, whose true '
                      'branch leaves the loop')
    rule_a(repo, chk)
    rule_b(repo, chk)
    rule_c(repo, chk)
    rule_d(repo, chk)
    rule_e(repo, chk)
    rule_f(repo, chk)


def _queue_roles(repo):
    """(class, fifo attr, heap attr, counter attr, batch attr) of the event queue, derived from how they are used."""
    q = repo.cls(MANAGER, '_EventQueue')
    init = need(q.methods.get('__init__'), 'C02: _EventQueue.__init__ missing')
    fifo = heap = None
    for n in walk_no_defs(init.node):
        if isinstance(n, ast.Assign) and len(n.targets) == 1 and isinstance(n.targets[0], ast.Attribute):
            a = n.targets[0].attr
            if isinstance(n.value, ast.Call) and call_name(n.value) == 'deque':
                fifo = a
            elif isinstance(n.value, ast.List) and not n.value.elts:
                heap = a
    need(fifo and heap, 'C02: _EventQueue does not create a deque and a list')
    app = need(q.methods.get('append'), 'C02: _EventQueue.append missing')
    counter = None
    for n in walk_no_defs(app.node):
        if isinstance(n, ast.AugAssign) and isinstance(n.target, ast.Attribute) and isinstance(n.op, ast.Add):
            counter = n.target.attr
    disp = need(q.methods.get('dispatchEvents'), 'C02: _EventQueue.dispatchEvents missing')
    batch = None
    for n in walk_no_defs(disp.node):
        if isinstance(n, ast.AugAssign) and isinstance(n.target, ast.Attribute) and isinstance(n.op, ast.Sub):
            batch = n.target.attr
    need(batch, 'C02: dispatchEvents has no decrement of a remaining counter')
    return q, fifo, heap, counter, batch


def rule_a(repo, chk):
    q, fifo, heap, counter, batch = _queue_roles(repo)
    allowed_fifo = {'append', 'extend', 'popleft', 'clear'}
    for m in q.methods.values():
        chk.touch(m)
        for n in walk_no_defs(m.node):
            if isinstance(n, ast.Attribute) and isinstance(n.value, ast.Attribute) and n.value.attr == fifo:
                p = getattr(n, '_parent', None)
                if isinstance(p, ast.Call) and p.func is n:
                    ok = n.attr in allowed_fifo
                    chk.ob('a', m.ref, f'FIFO `{fifo}` is only used through append/extend/popleft/clear', ok, loc(m, n),
                           detail=f'`{src(p)}`', discr=f'fifo-op:{n.attr}')
            if isinstance(n, ast.Attribute) and isinstance(n.value, ast.Attribute) and n.value.attr == heap:
                p = getattr(n, '_parent', None)
                if isinstance(p, ast.Call) and p.func is n:
                    chk.ob('a', m.ref, f'heap `{heap}` is never used through list methods', False, loc(m, n),
                           detail=f'`{src(p)}`', discr=f'heap-op:{n.attr}')
            if isinstance(n, ast.Call) and call_name(n) in ('heappush', 'heappop', 'heapify', 'heappushpop', 'heapreplace'):
                ok = bool(n.args) and src(n.args[0]).endswith('.' + heap) and call_name(n) in ('heappush', 'heappop')
                chk.ob('a', m.ref, f'heap operations are heappush/heappop on `{heap}`', ok, loc(m, n), detail=f'`{src(n)}`',
                       discr=f'heap-call:{call_name(n)}')
            if isinstance(n, ast.Subscript) and isinstance(n.value, ast.Attribute) and n.value.attr in (fifo, heap):
                chk.ob('a', m.ref, 'queue containers are never indexed or sliced', False, loc(m, n), detail=f'`{src(n)}`',
                       discr='subscript')
            if isinstance(n, (ast.Assign, ast.AugAssign)) and m.name != '__init__':
                for recv, a, _v in pat.attr_store(n):
                    if a in (fifo, heap):
                        chk.ob('a', m.ref, 'queue containers are not rebound outside __init__', False, loc(m, n),
                               detail=f'`{src(n)}`', discr=f'rebind:{a}')
    # producer: append
    app = q.methods['append']
    g = app.cfg()
    pr = app.params[3] if len(app.params) > 3 else None
    need(pr, 'C02.a: _EventQueue.append(event, channel, priority) signature changed')
    appends = [(n, c) for n in g.nodes if n.kind == 'stmt' for r, c in pat.method_calls(n.ast, 'append') if r == f'self.{fifo}']
    appends += [(n, c) for n in g.nodes if n.kind == 'stmt' for r, c in pat.method_calls(n.ast, 'appendleft') if r == f'self.{fifo}']
    need(appends, 'C02.a: _EventQueue.append does not append to the FIFO')
    for n, c in appends:
        e = c.args[0] if c.args else None
        if isinstance(e, ast.Name):
            # the entry built into a local first (or by an extracted helper): the expressions the local stands for
            cands = [v for v in pat.deref(app, e) if isinstance(v, ast.Tuple)]
            e = cands[0] if len(cands) == 1 else e
        shape = isinstance(e, ast.Tuple) and len(e.elts) == 3
        chk.ob('a', app.ref, 'queued entry is a 3-tuple (priority, tie, payload)', shape, loc(app, c), detail=f'`{src(c)}`',
               discr='entry-shape')
        if shape:
            chk.ob('a', app.ref, 'first element of the entry is the priority argument itself', src(e.elts[0]) == pr, loc(app, c),
                   detail=f'first element `{src(e.elts[0])}`', discr='entry-priority')
            tie_ok = counter is not None and src(e.elts[1]) == f'self.{counter}'
            chk.ob('a', app.ref, 'second element of the entry is the tie counter', tie_ok, loc(app, c),
                   detail=f'second element `{src(e.elts[1])}`', discr='entry-tie')
            payload = e.elts[2]
            if isinstance(payload, ast.Name):
                pc = [v for v in pat.deref(app, payload) if isinstance(v, ast.Tuple)]
                payload = pc[0] if len(pc) == 1 else payload
            pl_ok = isinstance(payload, ast.Tuple) and [src(x) for x in payload.elts] == app.params[1:3]
            chk.ob('a', app.ref, 'payload is (event, channel)', pl_ok, loc(app, c), discr='entry-payload')
        incs = [m for m in g.nodes if m.kind == 'stmt' and isinstance(m.ast, ast.AugAssign) and isinstance(m.ast.op, ast.Add)
                and counter and src(m.ast.target) == f'self.{counter}' and isinstance(m.ast.value, ast.Constant)
                and isinstance(m.ast.value.value, int) and m.ast.value.value > 0]
        p = Q.reachable_without(g, n, avoid_node=lambda x: x in incs)
        chk.ob('a', app.ref, 'the tie counter is incremented before the entry is built, on every path', p is None and bool(incs),
               loc(app, c), path=pat.path_lines(p) if p else None, discr='tie-increment')
    # who-may-touch: nothing outside the class reaches into the internals
    internals = {heap, batch} | ({counter} if counter else set())
    outside = []
    for f in repo.all_functions():
        if f.cls is q:
            continue
        for n in walk_no_defs(f.node):
            if isinstance(n, ast.Attribute) and n.attr in internals and isinstance(n.value, ast.Attribute) and n.value.attr == '_queue':
                outside.append((f, n))
            if isinstance(n, ast.Attribute) and n.attr == fifo and isinstance(n.value, ast.Attribute) and n.value.attr == '_queue':
                # self._queue._queue.<mutator>
                outside.append((f, n))
    chk.ob('a', q.ref, 'no function outside _EventQueue touches the FIFO/heap/counters of a manager queue', not outside,
           outside[0][0].loc(outside[0][1]) if outside else q.module.relpath,
           detail='; '.join(f'{f.ref}: `{src(n)}`' for f, n in outside[:4]), discr='outside-access')
    # drainFrom keeps order: extend with the other FIFO, then clear it
    dr = q.methods.get('drainFrom')
    if dr is not None:
        chk.touch(dr)
        other = dr.params[1]
        gd = dr.cfg()
        # entries leave the other FIFO front first and are appended here one by one, in a loop that runs until the other FIFO is empty
        loops = [n for n in gd.nodes if n.kind == 'test' and src(n.ast) in (f'{other}.{fifo}', f'len({other}.{fifo})') and any(e.kind == 'T' and any(k == 'loop' for k, _a in e.dst.ctx)
                                                                                                                           for e in n.succ)]
        pops = [n for n in gd.nodes if n.kind == 'stmt' and any(r == f'{other}.{fifo}' for r, _c in pat.method_calls(n.ast, 'popleft'))]
        apps = [n for n in gd.nodes if n.kind == 'stmt' and any(r == f'self.{fifo}' for r, _c in pat.method_calls(n.ast, 'append'))]
        fifo_apps = [a for a in apps if any(Q.reaches(p_, a) for p_ in pops)]
        ok = bool(loops) and bool(pops) and bool(fifo_apps) and all(Q.escapes(gd, [p_], lambda n: n in fifo_apps, exits=('exit',), extra_exit=lambda n: n in loops) is None for p_ in pops)
        chk.ob('a', dr.ref, 'drainFrom takes the other FIFO front first and appends entry by entry (order kept, nothing a concurrent fire() adds is lost)', ok, loc(dr, dr.node),
               discr='drain-extend')
        # the other queue counted on its own: every entry that comes over gets the next sequence number of this queue (else it ties with, overtakes or falls behind
        # events of the same priority queued here)
        stamped = True
        sinks = apps + [n for n in gd.nodes if n.kind == 'stmt' and any(call_name(c) == 'heappush' and c.args and src(c.args[0]).startswith('self.') for c in calls_in(n.ast))]
        for a in sinks:
            tup = None
            for c in calls_in(a.ast):
                if c.args and isinstance(c.args[-1], ast.Tuple) and len(c.args[-1].elts) == 3:
                    tup = c.args[-1]
                elif c.args and isinstance(c.args[-1], ast.Name):
                    # built into a local just before (an extracted "stamp" helper): every reaching definition is such a tuple
                    dfs = Q.reaching_defs(gd, a, c.args[-1].id)
                    tv = [d.ast.value for d in dfs if d.kind == 'stmt' and isinstance(d.ast, ast.Assign) and isinstance(d.ast.value, ast.Tuple) and len(d.ast.value.elts) == 3]
                    if dfs and len(tv) == len(dfs) and all(src(t_.elts[1]) == 'self._counter' for t_ in tv):
                        tup = tv[0]
            incs = [n for n in gd.nodes if n.kind == 'stmt' and isinstance(n.ast, ast.AugAssign) and src(n.ast.target) == 'self._counter' and isinstance(n.ast.op, ast.Add)
                    and pat.is_const(n.ast.value, 1)]
            fresh = tup is not None and src(tup.elts[1]) == 'self._counter' and Q.reachable_without(gd, a, avoid_node=lambda n: n in incs) is None
            for a2 in sinks:
                for e in a2.succ:
                    if e.kind == 'n' and e.dst not in incs and e.dst is not a and Q.reachable_without(gd, a, start=e.dst, avoid_node=lambda n: n in incs) is not None:
                        fresh = False
                    if e.kind == 'n' and e.dst is a:
                        fresh = False
            stamped = stamped and fresh
        bulk = [c for r, c in pat.method_calls(dr.node, 'extend') if r.startswith('self.')]
        chk.ob('a', dr.ref, 'every entry taken over is numbered by this queue (a fresh sequence number per entry)', stamped and bool(sinks) and not bulk, loc(dr, dr.node),
               detail='bulk copy: ' + '; '.join(src(c) for c in bulk) if bulk else '', discr='drain-restamped')
        # the rest of a batch the other queue was flushing was queued before the pass began: it joins the batch here (heap + batch size), not the pending FIFO
        hpops = [n for n in gd.nodes if n.kind == 'stmt' and any(call_name(c) == 'heappop' and c.args and src(c.args[0]).startswith(other + '.') for c in calls_in(n.ast))]
        hpush = [n for n in gd.nodes if n.kind == 'stmt' and any(call_name(c) == 'heappush' and c.args and src(c.args[0]).startswith('self.') for c in calls_in(n.ast))]
        grow = [n for n in gd.nodes if n.kind == 'stmt' and isinstance(n.ast, ast.AugAssign) and src(n.ast.target) == 'self._flush_batch' and isinstance(n.ast.op, ast.Add)
                and pat.is_const(n.ast.value, 1)]
        okb = bool(hpops) and bool(hpush) and bool(grow)
        for hp in hpops:
            heads = [n for n in gd.nodes if n.kind == 'test' and Q.reaches(hp, n) and Q.reaches(n, hp)]
            for grp in (hpush, grow):
                if Q.escapes(gd, [hp], lambda n: n in grp, exits=('exit',), extra_exit=lambda n: n in heads) is not None:
                    okb = False
            if any(Q.reachable_without(gd, a, start=hp, avoid_node=lambda n: n in heads) is not None for a in fifo_apps if a not in hpush):
                okb = False
        chk.ob('a', dr.ref, 'the rest of a batch the other queue was flushing joins the batch of this queue (pushed on the heap, batch size raised per entry): it was queued '
                            'before the pass began and must not be sorted together with what handlers fired since', okb, loc(dr, dr.node), discr='drain-batch-joins-batch')


def rule_b(repo, chk):
    q, fifo, heap, counter, batch = _queue_roles(repo)
    d = q.methods['dispatchEvents']
    chk.touch(d)
    g = d.cfg()
    disp_param = d.params[1]
    # refill: statements moving FIFO entries into the heap
    movers = [n for n in g.nodes if n.kind == 'stmt' and any(call_name(c) == 'heappush' for c in calls_in(n.ast))]
    need(movers, 'C02.b: dispatchEvents never pushes onto the heap')
    for mv in movers:
        push = [c for c in calls_in(mv.ast) if call_name(c) == 'heappush'][0]
        arg_ok = len(push.args) == 2 and src(push.args[1]) == f'self.{fifo}.popleft()'
        chk.ob('b', d.ref, 'the entry pushed onto the heap is the oldest FIFO entry (popleft)', arg_ok, loc(d, push),
               detail=f'`{src(push)}`', discr='move-popleft')
        p = pat.guarded_by(g, mv, pat.test_edge(lambda t, pol: pat.fact_matches(pat.compare_fact(t, pol), f'self.{batch}', ('==', '<='), '0')
                                                or (pol == 'F' and src(t) == f'self.{batch}')))      # `if not self.<remaining>:`
        chk.ob('b', d.ref, 'refilling the heap happens only when the remaining count of the current pass is 0', p is None,
               loc(d, push), path=pat.path_lines(p) if p else None, discr='refill-guard')
        # the loop that moves entries is bounded by a count taken from len(FIFO), which is also stored as remaining
        loops = [a for (k, a) in mv.ctx if k == 'loop']
        ok = False
        detail = 'mover is not inside a counting loop'
        if loops and isinstance(loops[-1], ast.While):
            cv = src(loops[-1].test)
            snaps = [n for n in g.nodes if n.kind == 'stmt' and isinstance(n.ast, ast.Assign) and src(n.ast.value) == f'len(self.{fifo})']
            for s in snaps:
                tg = [src(t) for t in s.ast.targets]
                if cv in tg and f'self.{batch}' in tg:
                    ok = True
            if not ok:
                # two separate assignments from the same snapshot variable
                for s in snaps:
                    tg = [src(t) for t in s.ast.targets]
                    if cv in tg:
                        for s2 in g.nodes:
                            if s2.kind == 'stmt' and isinstance(s2.ast, ast.Assign) and f'self.{batch}' in [src(t) for t in s2.ast.targets] \
                                    and src(s2.ast.value) == cv:
                                ok = True
            decs = [n for n in g.nodes if n.kind == 'stmt' and isinstance(n.ast, ast.AugAssign) and src(n.ast.target) == cv
                    and isinstance(n.ast.op, ast.Sub) and pat.is_const(n.ast.value, 1) and ('loop', loops[-1]) in n.ctx]
            if not decs:
                ok = False
            detail = f'loop variable `{cv}`'
        if loops and isinstance(loops[-1], ast.For) and isinstance(loops[-1].iter, ast.Call) and call_name(loops[-1].iter) == 'range' and len(loops[-1].iter.args) == 1:
            # `for _ in range(n)`: n is the snapshot of the FIFO length, which is also what is stored as remaining count
            cv = src(loops[-1].iter.args[0])
            snaps = [n for n in g.nodes if n.kind == 'stmt' and isinstance(n.ast, ast.Assign) and src(n.ast.value) == f'len(self.{fifo})' and cv in [src(t) for t in n.ast.targets]]
            stored = [n for n in g.nodes if n.kind == 'stmt' and isinstance(n.ast, ast.Assign) and f'self.{batch}' in [src(t) for t in n.ast.targets]
                      and (src(n.ast.value) == cv or (src(n.ast.value) == f'len(self.{fifo})' and cv in [src(t) for t in n.ast.targets]))]
            rebound = [n for n in g.nodes if n.kind == 'stmt' and cv in Q.node_defs(n) and n not in snaps]
            ok = bool(snaps) and bool(stored) and not rebound
            detail = f'loop over range({cv})'
        chk.ob('b', d.ref, 'the number of entries moved equals the snapshot of the FIFO length stored as remaining count', ok,
               loc(d, push), detail=detail, discr='move-count')
    # drain loop
    decs = [n for n in g.nodes if n.kind == 'stmt' and isinstance(n.ast, ast.AugAssign) and src(n.ast.target) == f'self.{batch}'
            and isinstance(n.ast.op, ast.Sub) and pat.is_const(n.ast.value, 1)]
    pops = [n for n in g.nodes if n.kind == 'stmt' and any(call_name(c) == 'heappop' for c in calls_in(n.ast))]
    calls = [n for n in g.nodes if n.kind == 'stmt' and any(call_name(c) == disp_param for c in calls_in(n.ast))]
    need(decs and pops and calls, 'C02.b: drain loop lacks decrement / heappop / dispatcher call')
    for cn in calls:
        loops = [a for (k, a) in cn.ctx if k == 'loop']
        need(loops, 'C02.b: dispatcher call is not inside a loop')
        lp = loops[-1]
        heads = [n for n in g.nodes if n.kind == 'join' and n.ast is lp]
        head = need(heads, 'C02.b: loop head not found')[0]
        guard_ok = isinstance(lp, ast.While) and (
            pat.fact_matches(pat.compare_fact(lp.test, 'T'), f'self.{batch}', ('>', '!='), '0') or src(lp.test) == f'self.{batch}')
        chk.ob('b', d.ref, 'the drain loop runs while the remaining count is positive', guard_ok, loc(d, lp),
               detail=f'`while {src(lp.test)}`', discr='drain-guard')
        p1 = Q.reachable_without(g, cn, start=head, avoid_node=lambda n: n in decs)
        chk.ob('b', d.ref, 'each dispatch is preceded in its iteration by the decrement of the remaining count', p1 is None,
               loc(d, cn.ast), path=pat.path_lines(p1) if p1 else None, discr='decrement-before-dispatch')
        p2 = Q.reachable_without(g, cn, start=head, avoid_node=lambda n: n in pops)
        chk.ob('b', d.ref, 'each dispatch is preceded in its iteration by one heappop', p2 is None, loc(d, cn.ast),
               path=pat.path_lines(p2) if p2 else None, discr='pop-before-dispatch')
        for pn in pops:
            p3 = Q.reachable_without(g, pn, start=head, avoid_node=lambda n: n in decs)
            chk.ob('b', d.ref, 'the decrement comes before the heappop', p3 is None, loc(d, pn.ast),
                   path=pat.path_lines(p3) if p3 else None, discr='decrement-before-pop')
            p4 = Q.escapes(g, [pn], lambda n: n in calls, extra_exit=lambda n: n is head)
            chk.ob('b', d.ref, 'every popped entry is handed to the dispatcher before the next iteration', p4 is None,
                   loc(d, pn.ast), path=pat.path_lines(p4) if p4 else None, discr='pop-then-dispatch')
        # one decrement, one pop, one dispatch per iteration: no second occurrence reachable without passing the head
        for group, label in ((decs, 'decrement'), (pops, 'heappop'), (calls, 'dispatch')):
            dup = None
            for a in group:
                for e in a.succ:
                    if e.dst is head or e.kind == 'x':
                        continue
                    seen, _ = Q.search([e.dst], avoid_node=lambda n: n is head)
                    if any(b in seen for b in group) or e.dst in group:
                        dup = a
            chk.ob('b', d.ref, f'at most one {label} per loop iteration', dup is None, loc(d, (dup or group[0]).ast),
                   discr=f'single-{label}')
        call = [c for c in calls_in(cn.ast) if call_name(c) == disp_param][0]
        rem_ok = len(call.args) == 3 and src(call.args[2]) == f'self.{batch}'
        chk.ob('b', d.ref, 'the dispatcher is told the remaining count of the pass', rem_ok, loc(d, call), detail=f'`{src(call)}`',
               discr='remaining-arg')
    # payload taken from the popped entry's third component
    for pn in pops:
        pop = [c for c in calls_in(pn.ast) if call_name(c) == 'heappop'][0]
        par = getattr(pop, '_parent', None)
        ok = isinstance(par, ast.Subscript) and pat.is_const(par.slice, 2) and src(pop.args[0]) == f'self.{heap}'
        if not ok and isinstance(pn.ast, ast.Assign) and pn.ast.value is pop and len(pn.ast.targets) == 1 and isinstance(pn.ast.targets[0], ast.Tuple) \
                and len(pn.ast.targets[0].elts) == 3 and src(pop.args[0]) == f'self.{heap}':
            # `prio, seq, (event, channels) = heappop(heap)`: the third component is unpacked into what the dispatcher gets
            third = pn.ast.targets[0].elts[2]
            names = [src(x) for x in third.elts] if isinstance(third, ast.Tuple) else [src(third)]
            ok = all(any([src(a) for a in c.args[:len(names)]] == names for c in calls_in(cn.ast) if call_name(c) == disp_param) for cn in calls) and bool(names)
        chk.ob('b', d.ref, 'the dispatched (event, channels) pair is the payload of the popped heap entry', ok, loc(d, pop),
               detail=f'`{src(pn.ast)}`', discr='payload-of-pop')


FORBIDDEN = {'_dispatcher', 'dispatchEvents', '_flush', 'flushEvents', 'tick', 'processTask', 'run'}


def rule_c(repo, chk):
    cg = CallGraph(repo)
    mgr = repo.cls(MANAGER, 'Manager')
    for name in ('fireEvent', '_fire'):
        f = need(mgr.methods.get(name), f'C02.c: Manager.{name} missing')
        chk.touch(f)
        chain = cg.reach(f, lambda t: t.name in FORBIDDEN and t.cls is not None and (t.cls.is_subclass_of('Manager') or t.cls.name == '_EventQueue'))
        path = [f'{a.ref} calls `{src(c)[:80]}` → {t.ref}' for a, c, t in (chain or [])]
        chk.ob('c', f.ref, 'firing an event only enqueues: no call chain reaches dispatching code', chain is None, loc(f, f.node),
               path=path, discr='no-dispatch')
    # _fire appends: every path enqueues exactly through the queue's append
    f = mgr.methods['_fire']
    g = f.cfg()
    apps = [n for n in g.nodes if n.kind == 'stmt' and any(r == 'self._queue' for r, _c in pat.method_calls(n.ast, 'append'))]
    # (or hands the event to the _fire of the tree this manager has meanwhile been registered in)
    apps += [n for n in g.nodes if n.kind == 'stmt' and isinstance(n.ast, ast.Return) and isinstance(n.ast.value, ast.Call) and src(n.ast.value.func) == 'self.root._fire'
             and [src(a) for a in n.ast.value.args[:2]] == f.params[1:3]]
    p = Q.escapes(g, [g.entry], lambda n: n in apps)
    chk.ob('c', f.ref, 'every path of _fire appends the event to the queue', p is None and bool(apps), loc(f, f.node),
           path=pat.path_lines(p) if p else None, discr='always-append')
    for a in apps:
        cs = [c for r, c in pat.method_calls(a.ast, 'append') if r == 'self._queue'] or [a.ast.value]       # (the forwarding call)
        c = cs[0]
        ok = [src(x) for x in c.args] == f.params[1:4]
        chk.ob('c', f.ref, 'the queue receives (event, channel, priority) unchanged', ok, loc(f, c), detail=f'`{src(c)}`',
               discr='append-args')


def _desc_kwargs(e):
    """key=attrgetter('priority'), reverse=True (or the equivalent lambda spellings) on a sorted()/list.sort() call."""
    kw = {k.arg: k.value for k in e.keywords if k.arg}
    key = kw.get('key')
    if key is None:
        return False
    rev = kw.get('reverse')
    rev_true = rev is not None and pat.is_const(rev, True)
    ks = src(key)
    if ks in ("attrgetter('priority')", "operator.attrgetter('priority')"):
        return rev_true
    if isinstance(key, ast.Lambda) and len(key.args.args) == 1:
        v = key.args.args[0].arg
        body = src(key.body)
        if body == f'{v}.priority':
            return rev_true
        if body == f'-{v}.priority':
            return rev is None or pat.is_const(rev, False)
    return False


def _is_desc_sort(e):
    """sorted(xs, key=attrgetter('priority'), reverse=True) and equivalent spellings."""
    if not isinstance(e, ast.Call):
        return False
    if call_name(e) != 'sorted':
        return False
    return _desc_kwargs(e)


def _inplace_sorts(g, name):
    """Nodes `name.sort(key=attrgetter('priority'), reverse=True)`: the in-place spelling of the descending-priority sort."""
    out = []
    for n in g.nodes:
        if n.kind == 'stmt' and isinstance(n.ast, ast.Expr) and isinstance(n.ast.value, ast.Call):
            c = n.ast.value
            if isinstance(c.func, ast.Attribute) and c.func.attr == 'sort' and src(c.func.value) == name and not c.args and _desc_kwargs(c):
                out.append(n)
    return out


def _def_sorted(g, dn, use, name):
    """The list bound to *name* by definition *dn* is in descending priority order when it reaches *use*: built by sorted(..), or sorted in place on every
    path from the definition to the use."""
    v = dn.ast.value if dn.kind == 'stmt' and isinstance(dn.ast, ast.Assign) else None
    if _is_desc_sort(v):
        return True
    ss = _inplace_sorts(g, name)
    return bool(ss) and Q.reachable_without(g, use, start=dn, avoid_node=lambda m: m in ss, weak=True) is None


def _flatten(g, triples):
    """(definition, use, name) triples; a definition that merely copies another local (`handlers = result_of_helper`) stands for the definitions of that
    local at the copy."""
    for _round in range(3):
        more = []
        for dn, use, name in triples:
            v0 = dn.ast.value if dn.kind == 'stmt' and isinstance(dn.ast, ast.Assign) else None
            if isinstance(v0, ast.Name) and v0.id != name:
                more.extend((d2, dn, v0.id) for d2 in Q.reaching_defs(g, dn, v0.id))
            else:
                more.append((dn, use, name))
        if more == triples:
            break
        triples = more
    return triples


def rule_d(repo, chk):
    d = repo.func(MANAGER, 'Manager._dispatcher')
    chk.touch(d)
    g = d.cfg()
    loop = _handler_loop(d)
    it = [n for n in g.nodes if n.kind == 'iter' and n.ast is loop.ast.iter][0]
    if not isinstance(loop.ast.iter, ast.Name):
        raise AnalysisError('C02.d: the dispatcher iterates a non-name expression')
    lv = loop.ast.iter.id
    defs = Q.reaching_defs(g, it, lv)
    need(defs, 'C02.d: no definition of the handler list reaches the loop')
    cache_store_vals = []
    for n in g.nodes:
        if n.kind == 'stmt' and isinstance(n.ast, ast.Assign):
            for t in n.ast.targets:
                if isinstance(t, ast.Subscript) and src(t.value).startswith('self._cache'):
                    cache_store_vals.append((n, n.ast.value))
    triples = _flatten(g, [(dn, it, lv) for dn in defs])
    names = {lv}
    uses_ = [it]
    for dn, use, name in triples:
        names.add(name)
        if dn.kind == 'entry':
            chk.ob('d', d.ref, 'the handler list is defined on every path before the loop', False, loc(d, loop.ast),
                   discr='undefined')
            continue
        v = dn.ast.value if isinstance(dn.ast, ast.Assign) else None
        if v is not None and isinstance(v, ast.Subscript) and src(v.value).startswith('self._cache'):
            # the memo: filled from the same variable — its definitions at the store must be sorts
            ok = bool(cache_store_vals)
            for sn, sv in cache_store_vals:
                if not (isinstance(sv, ast.Name)):
                    ok = False
                    continue
                uses_.append(sn)
                for d2, use2, name2 in _flatten(g, [(d2, sn, sv.id) for d2 in Q.reaching_defs(g, sn, sv.id)]):
                    names.add(name2)
                    if not _def_sorted(g, d2, use2, name2):
                        ok = False
            chk.ob('d', d.ref, 'the memo is only filled with descending-priority sorted lists', ok, loc(d, dn.ast),
                   discr='memo-filled-sorted')
        else:
            chk.ob('d', d.ref, 'the handler list is built by a descending-priority sort', _def_sorted(g, dn, use, name), loc(d, dn.ast),
                   detail=f'`{src(dn.ast)[:120]}`', discr='sorted-desc')

    def resorted(n, name):
        """every way from *n* to the loop (or into the memo) sorts the list in place again"""
        ss = _inplace_sorts(g, name)
        return bool(ss) and all(Q.reachable_without(g, u, start=n, avoid_node=lambda m: m in ss, weak=True) is None for u in uses_ if u is not n)

    # no re-ordering of the list between its definition and the loop
    for n in g.nodes:
        if n.kind == 'stmt':
            for r, c in pat.method_calls(n.ast, 'sort') + pat.method_calls(n.ast, 'reverse') + pat.method_calls(n.ast, 'insert'):
                if r in names and n not in _inplace_sorts(g, r) and not resorted(n, r):
                    chk.ob('d', d.ref, 'the sorted list is not re-ordered afterwards', False, loc(d, c), detail=f'`{src(c)}`',
                           discr='reordered')
    # … and nothing is added to it unless it is empty (a fall-back appended to a non-empty sorted list runs after handlers of lower priority than its own)
    for n in g.nodes:
        if n.kind == 'stmt':
            for r, c in pat.method_calls(n.ast, 'append') + pat.method_calls(n.ast, 'extend'):
                if r in names and not resorted(n, r):
                    q_ = pat.guarded_by(g, n, pat.test_edge(lambda tt, pol: pat.fact_matches(pat.compare_fact(tt, pol), f'len({r})', ('==',), '0') or
                                                            (pol == 'F' and src(tt) == r)), weak=True)      # (the memo miss is an implicit KeyError)
                    chk.ob('d', d.ref, 'a handler is added to the sorted list only when the list is empty', q_ is None, loc(d, c), detail=f'`{src(c)[:80]}`',
                           path=pat.path_lines(q_) if q_ else None, discr='append-only-when-empty')
    # handler(): the priority attribute is the decorator's argument
    w = repo.func('circuits/core/handlers.py', 'handler.wrapper')
    chk.touch(w)
    pr = [n for n in walk_no_defs(w.node) if isinstance(n, ast.Assign) and any(src(t) == 'f.priority' for t in n.targets)]
    ok = bool(pr) and "kwargs.get('priority'" in src(pr[0].value)
    chk.ob('d', w.ref, 'handler() stores the priority keyword on the function', ok, loc(w, pr[0] if pr else w.node),
           discr='priority-attr', nontrivial=False)


def _handler_loop(d):
    """The for-loop of the dispatcher in which the handlers are run."""
    from .common import dispatcher_loop
    return dispatcher_loop(d.module.repo, d)[0]


def rule_e(repo, chk):
    d = repo.func(MANAGER, 'Manager._dispatcher')
    g = d.cfg()
    loop = _handler_loop(d)
    hv = loop.ast.target.id
    ev = d.params[1]
    from .common import dispatcher_loop
    inv = dispatcher_loop(repo, d)[2]
    need(inv, 'C02.e: no handler invocation found')
    tests = [n for n in g.nodes if n.kind == 'test' and src(n.ast) == f'{ev}.stopped']
    for n in inv:
        p = Q.escapes(g, [n], lambda m: m in tests, exits=(), extra_exit=lambda m: m is loop, weak=True)
        chk.ob('e', d.ref, 'after a handler invocation (also when it raised) the stopped test runs before the next handler',
               p is None and bool(tests), loc(d, n.ast), path=pat.path_lines(p, n) if p else None, discr='stopped-tested')
    for t in tests:
        if ('loop', loop.ast) not in t.ctx:
            continue
        leaves = True
        for e in t.succ:
            if e.kind == 'T':
                seen, _ = Q.search([e.dst], weak=True)
                if loop in seen or e.dst is loop:
                    leaves = False
        chk.ob('e', d.ref, 'the true branch of the stopped test leaves the handler loop', leaves, loc(d, t.ast),
               discr='stopped-leaves')
    s = repo.func(EVENTS, 'Event.stop')
    chk.touch(s)
    ok = any('self' in pat.stores_attr(n, 'stopped', True) for n in walk_no_defs(s.node) if isinstance(n, ast.Assign))
    chk.ob('e', s.ref, 'Event.stop() sets the flag the dispatcher tests', ok, loc(s, s.node), discr='stop-sets-flag',
           nontrivial=False)


def rule_f(repo, chk):
    """Who may write the stop flag."""
    from .common import attribute_writers
    chk.rule('C02.f', 'the stop flag is written only by the event itself: False when it is created, True in stop() (nothing re-arms a stopped event)')
    ev = repo.cls(EVENTS, 'Event')
    ws = attribute_writers(repo, 'stopped')
    n_ok = 0
    for f, node, recv, val, m in ws:
        where = f'{m.relpath}:{node.lineno}'
        inside = f is not None and f.cls is not None and (f.cls is ev or ev in f.cls.mro()) and recv == 'self'
        good = inside and ((f.name == '__init__' and val == 'False') or (f.name != '__init__' and val == 'True'))
        n_ok += good
        chk.ob('f', f.ref if f is not None else m.relpath, f'`{recv}.stopped = {val}` is the event creating (False) or stopping (True) itself', good, where,
               discr=f'stop-flag-writer:{f.qualname if f is not None else "module"}:{val}')
    chk.ob('f', f'{EVENTS}::Event', 'the event API sets the flag in stop() and clears it at creation', n_ok >= 2, EVENTS, discr='stop-flag-api')
