"""C08 — run()/stop(): started once, everything queued is drained, stopped once.

a  started is fired exactly once on the way into the loop, after the running flag and the owner thread are set
b  the loop runs while the manager is running or events are queued; fade-out ticks follow
c  every exit of run() (normal, or SystemExit travelling out of tick) passes a drain-until-empty loop and resets the
   owner thread
d  stopped is fired only if the manager was running, after the flag has been cleared, from one site
e  a non-None exit code given to stop() is raised as SystemExit on every path; the SystemExit clauses of dispatcher and
   stepper hand the code to stop() while running and re-raise it once the manager is already stopped
f  dispatcher and stepper both map KeyboardInterrupt → stop() and SystemExit → stop(e.code)
"""

import ast

from sa import AnalysisError, pat
from sa import query as Q
from sa.cfg import handler_names
from sa.model import call_name, calls_in, src, walk_no_defs

from .common import MANAGER, loc, need

MIN_OBLIGATIONS = 20


def run(repo, chk):
    _run(repo, chk)
    rule_h(repo, chk)


def _run(repo, chk):
    chk.not_decided = [
        'stop() called from a second thread racing with the loop (covered structurally by C03 only)',
        'handlers that keep firing events for ever after stop (the drain loops do not terminate then, by design)',
    ]
    chk.rule('C08.a', 'run() fires started exactly once before entering the loop, after setting the running flag and the owner thread')
    chk.rule('C08.b', 'the main loop condition is "running or queue non-empty"; fade-out ticks follow the loop')
    chk.rule('C08.c', 'every exit of run() passes a loop that ticks until the queue is empty and then resets the owner thread')
    chk.rule('C08.d', 'stop() fires stopped from one site, only when running, after clearing the running flag')
    chk.rule('C08.e', 'an exit code reaches `raise SystemExit(code)` in stop() on every path; SystemExit clauses pass e.code to stop() '
                      'while running and re-raise when already stopped')
    chk.rule('C08.f', 'the dispatcher and the task stepper agree: KeyboardInterrupt → stop(), SystemExit → stop(e.code)')
    r = repo.func(MANAGER, 'Manager.run')
    s = repo.func(MANAGER, 'Manager.stop')
    d = repo.func(MANAGER, 'Manager._dispatcher')
    t = repo.func(MANAGER, 'Manager.processTask')
    for f in (r, s, d, t):
        chk.touch(f)
    rule_run(chk, r)
    rule_stop(chk, s)
    rule_clauses(chk, d, t)
    rule_idle(repo, chk, d)


def _ticks(n):
    return n.kind == 'stmt' and any(r == 'self' for r, _c in pat.method_calls(n.ast, 'tick'))


def rule_run(chk, r):
    g = r.cfg()
    started = [n for n in g.nodes if n.kind == 'stmt' and pat.fires(n.ast, 'started')]
    chk.ob('a', r.ref, 'started is fired from exactly one site, outside loops', len(started) == 1 and not any(k == 'loop' for k, _a in started[0].ctx),
           loc(r, r.node), discr='started-once')
    need(started, 'C08.a: run() never fires started')
    st = started[0]
    # main loop: a while whose body ticks and whose test mentions running
    loops = [n for n in g.nodes if n.kind == 'join' and isinstance(n.ast, ast.While) and any(_ticks(m) and ('loop', n.ast) in m.ctx for m in g.nodes)]
    main = [n for n in loops if 'running' in src(n.ast.test)]
    need(main, 'C08.b: run() has no `while … running …: tick()` loop')
    lp = main[0]
    tsrc = src(lp.ast.test)
    # read off the CFG (independent of how the condition is spelled): the loop is left only on an edge path on which the running flag is false
    # AND the queue is empty; both atoms are the only tests of the condition
    cond_ids = {id(x) for x in ast.walk(lp.ast.test)}
    atoms = [n for n in g.nodes if n.kind == 'test' and id(n.ast) in cond_ids]
    run_atoms = [n for n in atoms if src(n.ast) in ('self.running', 'self._running')]
    q_atoms = [n for n in atoms if src(n.ast) in ('len(self._queue)', 'self._queue', 'len(self)') or
               pat.fact_matches(pat.compare_fact(n.ast, 'T'), 'len(self._queue)', ('>', '!='), '0')]
    first_after = [e.dst for n in atoms for e in n.succ if e.kind in ('T', 'F') and ('loop', lp.ast) not in e.dst.ctx and e.dst not in atoms]
    body_entry = [e.dst for n in atoms for e in n.succ if e.kind in ('T', 'F') and ('loop', lp.ast) in e.dst.ctx and e.dst not in atoms]
    cond_ok = bool(run_atoms) and bool(q_atoms) and len(atoms) == len(run_atoms) + len(q_atoms)
    if cond_ok:
        # leaving the loop needs the false edge of a running atom and the false edge of a queue atom
        for ex_ in first_after:
            p1 = Q.reachable_without(g, ex_, start=lp, avoid_edge=lambda e: e.src in run_atoms and e.kind == 'F', avoid_node=lambda n: ('loop', lp.ast) in n.ctx)
            p2 = Q.reachable_without(g, ex_, start=lp, avoid_edge=lambda e: e.src in q_atoms and e.kind == 'F', avoid_node=lambda n: ('loop', lp.ast) in n.ctx)
            cond_ok = cond_ok and p1 is None and p2 is None
        # and each atom being true enters the body
        for n in atoms:
            for e in n.succ:
                if e.kind == 'T':
                    cond_ok = cond_ok and (e.dst in body_entry or ('loop', lp.ast) in e.dst.ctx)
    chk.ob('b', r.ref, 'the loop continues while running or while events are queued', cond_ok, loc(r, lp.ast), detail=f'`while {tsrc}`',
           discr='loop-condition')
    p = Q.reachable_without(g, lp, avoid_node=lambda n: n is st)
    chk.ob('a', r.ref, 'started is fired on every path into the loop', p is None, loc(r, st.ast), path=pat.path_lines(p) if p else None,
           discr='started-before-loop')
    flag = [n for n in g.nodes if n.kind == 'stmt' and 'self' in pat.stores_attr(n.ast, '_running', True)]
    owner = [n for n in g.nodes if n.kind == 'stmt' and any(a == '_executing_thread' and 'current_thread()' in src(v)
                                                           for _rv, a, v in pat.attr_store(n.ast))]
    p1 = Q.reachable_without(g, st, avoid_node=lambda n: n in flag)
    p2 = Q.reachable_without(g, st, avoid_node=lambda n: n in owner)
    chk.ob('a', r.ref, 'the running flag and the owner thread are set before started is fired', p1 is None and p2 is None and bool(flag) and bool(owner),
           loc(r, st.ast), path=pat.path_lines(p1 or p2) if (p1 or p2) else None, discr='flag-owner-first')
    c = pat.fires(st.ast, 'started')[0]
    chk.ob('a', r.ref, 'started names the manager', [src(a) for a in c.args[0].args] == ['self'], loc(r, c), discr='started-arg', nontrivial=False)
    # fade-out: after the loop (normal exit) at least one more tick before leaving the try
    after = [e.dst for n in g.nodes if n.kind == 'test' and ('loop', lp.ast) not in n.ctx and n.ast in ast.walk(lp.ast.test) for e in n.succ if e.kind == 'F']
    fade = [n for n in g.nodes if _ticks(n) and ('loop', lp.ast) not in n.ctx and any(k == 'try' for k, _a in n.ctx)]
    chk.ob('b', r.ref, 'fade-out ticks follow the main loop inside the protected region', bool(fade), loc(r, lp.ast), discr='fade-out')
    # c: exits
    resets = [n for n in g.nodes if n.kind == 'stmt' and any(a == '_executing_thread' and pat.is_const(v, None) for _rv, a, v in pat.attr_store(n.ast))]
    need(resets, 'C08.c: run() never resets the owner thread')
    body_ticks = [n for n in g.nodes if _ticks(n) and ('loop', lp.ast) in n.ctx]
    prot = {n for n in g.nodes if _ticks(n) and not any(k == 'finally' for k, _a in n.ctx)}

    def one_exc(e):
        # one exception leaving a tick() of the protected region (whatever its class); afterwards only what the
        # raises oracle knows (a second exception thrown by the final drain itself is not considered)
        return Q.default_edge_ok(e, '*', weak=e.src in prot)
    p = Q.escapes(g, body_ticks, lambda n: n in resets, exits=('exit', 'raise'), edge_ok=one_exc)
    chk.ob('c', r.ref, 'whatever leaves tick() (return, SystemExit, any exception) run() resets the owner thread before it exits', p is None,
           loc(r, resets[0].ast), path=pat.path_lines(p, body_ticks[0]) if p else None, discr='owner-reset-all-exits')
    drains = [n for n in loops if n is not lp and src(n.ast.test) in ('len(self._queue)', 'self._queue', 'len(self)')]
    ok = False
    path = None
    if drains:
        dn = drains[0]
        path = Q.escapes(g, body_ticks, lambda n: n.kind == 'join' and n.ast is dn.ast, exits=('exit', 'raise'), edge_ok=one_exc)
        # leaving the drain loop only through its false test
        ok = path is None
    chk.ob('c', r.ref, 'every exit of run() passes a loop that ticks until the queue is empty', ok, loc(r, (drains[0].ast if drains else r.node)),
           path=pat.path_lines(path, body_ticks[0]) if path else None, discr='drain-all-exits')
    if drains:
        dn = drains[0]
        # the final drain is followed by fade-out ticks like the main loop is (steps of generator handlers of the last events, of `stopped` itself)
        fades = [n for n in g.nodes if n.kind == 'for' and any(k == 'finally' for k, _a in n.ctx) and isinstance(n.ast.iter, ast.Call) and call_name(n.ast.iter) == 'range'
                 and any(_ticks(m) for m in g.nodes if ('loop', n.ast) in m.ctx)]
        exits_ = [e.dst for t_ in g.nodes if t_.kind == 'test' and t_.ast in ast.walk(dn.ast.test) for e in t_.succ if e.kind == 'F']
        okf = bool(fades) and bool(exits_) and all(x in fades or Q.escapes(g, [x], lambda n: n in fades or n in resets, exc=()) is None and
                                                     any(Q.reaches(x, fd_) for fd_ in fades) and
                                                     all(Q.reachable_without(g, rs_, start=x, avoid_node=lambda n: n in fades, exc=()) is None for rs_ in resets)
                                                     for x in exits_)
        chk.ob('c', r.ref, 'the final drain is followed by fade-out ticks before run() lets go of the loop thread (also on the exit-code path)', okf, loc(r, dn.ast),
               discr='fade-out-after-drain')
        # the fade-out serves the steps of generator handlers that are still suspended when the queue has drained (a `stopped` handler doing `yield self.call(…)`):
        # a constant number of iterations is enough only for chains of that length; what the later steps fire stays queued when run() returns
        bounded = [n for n in fades if not any(m.kind == 'test' and '_tasks' in src(m.ast) and (Q.reaches(n, m, exc=()) or ('loop', getattr(m.ast, '_parent', None)) in n.ctx)
                                               for m in g.nodes)]
        chk.ob('c', r.ref, 'the fade-out goes on while handlers suspended by stopping still make progress (it is not a fixed number of iterations)', not bounded,
               loc(r, (bounded or fades or [dn])[0].ast), detail=f'{len(bounded)} fade-out loop(s) of constant length', discr='fade-out-covers-suspended-handlers')
        # … and it goes on across an exit request raised by a handler it dispatches: a SystemExit during the drain must not leave events (and `stopped`) behind
        drain_ticks = [n for n in g.nodes if _ticks(n) and any(k == 'finally' for k, _a in n.ctx)]
        # (the outermost try of run() does not count: its handlers are left once the finally clause runs)
        inner = []
        for n in drain_ticks:
            tries = [a for k, a in n.ctx if k == 'try' and isinstance(a, ast.Try)]
            fin_tries = [a for a in tries if any(isinstance(x, ast.Try) and x is a for fb in [getattr(t2, 'finalbody', []) for t2 in tries] for st_ in fb for x in ast.walk(st_))]
            inner.append(any(any(h_.type is None or 'BaseException' in src(h_.type) or 'SystemExit' in src(h_.type) for h_ in a.handlers) for a in fin_tries))
        chk.ob('c', r.ref, 'an exit request (SystemExit) raised by a handler during the final drain does not end the drain: what is queued, `stopped` included, is still '
                           'dispatched before run() returns', bool(inner) and all(inner), loc(r, dn.ast), discr='drain-survives-exit-request')
        for rs in resets:
            seen, par = Q.search([g.entry], avoid_node=lambda n: n.kind == 'join' and n.ast is dn.ast, edge_ok=one_exc)
            q = Q.path_to(par, rs) if rs in seen else None
            chk.ob('c', r.ref, 'the owner thread is reset only after the final drain', q is None, loc(r, rs.ast),
                   path=pat.path_lines(q) if q else None, discr='reset-after-drain')


def rule_stop(chk, s):
    g = s.cfg()
    code = s.params[1]
    fires = [n for n in g.nodes if n.kind == 'stmt' and pat.fires(n.ast, 'stopped')]
    chk.ob('d', s.ref, 'stopped is fired from exactly one site, outside loops', len(fires) == 1 and not any(k == 'loop' for k, _a in fires[0].ctx),
           loc(s, s.node), discr='stopped-once')
    need(fires, 'C08.d: stop() never fires stopped')
    f = fires[0]
    RUN = ('self.running', 'self._running')
    # (the flag may be read once into a local: `stopping = self.running … if stopping:`)
    reads = {n.ast.targets[0].id: n for n in g.nodes if n.kind == 'stmt' and isinstance(n.ast, ast.Assign) and len(n.ast.targets) == 1 and isinstance(n.ast.targets[0], ast.Name)
             and src(n.ast.value) in RUN and n.ast.targets[0].id in g.flags}
    def is_running_test(t):
        return src(t) in RUN or (isinstance(t, ast.Name) and t.id in reads)
    q = pat.guarded_by(g, f, pat.test_edge(lambda t, pol: pol == 'T' and is_running_test(t)))
    chk.ob('d', s.ref, 'stopped is fired only if the manager was running', q is None, loc(s, f.ast), path=pat.path_lines(q) if q else None,
           discr='stopped-if-running')
    clr = [n for n in g.nodes if n.kind == 'stmt' and 'self' in pat.stores_attr(n.ast, '_running', False)]
    # stopped is queued and the flag cleared back to back, in this order: run() loops while "running or queue non-empty", so with the event queued first there is
    # no moment at which a stop() from another thread lets it see "not running, nothing queued" before `stopped` is there; and no handler can run in between
    # (nothing that dispatches lies between the two), so a second stop() from a handler still finds the flag cleared
    p1 = Q.escapes(g, [f], lambda n: n in clr, exits=('exit',))
    between = [n for n in g.nodes if n.kind == 'stmt' and n is not f and n not in clr and Q.reaches(f, n) and any(Q.reaches(n, c_) for c_ in clr)
               and any(True for _r, _c in pat.method_calls(n.ast, 'tick') + pat.method_calls(n.ast, 'flush'))]
    early = [c_ for c_ in clr if Q.reachable_without(g, c_, avoid_node=lambda n: n is f) is not None]
    chk.ob('d', s.ref, 'the running flag is cleared right after stopped was queued, on every path, with nothing dispatched in between (a second stop() is a no-op)',
           p1 is None and bool(clr) and not between, loc(s, f.ast), path=pat.path_lines(p1, f) if p1 else None, discr='flag-cleared-first')
    chk.ob('d', s.ref, 'stopped is queued before the running flag is cleared (run() cannot fade out and return between the two steps of a stop() from another thread)',
           not early and bool(clr), loc(s, (early or clr or [f])[0].ast), discr='stopped-queued-before-flag')
    # two overlapping stop() calls (two threads; a thread and a handler; a thread and the atexit hook of run()) must not both find the manager running: the test,
    # the queueing of `stopped` and the clearing of the flag are one critical section
    def lock_of(n):
        ws = [a for k, a in n.ctx if k == 'with' and 'self._lock' in src(getattr(a, 'context_expr', a) if not isinstance(a, ast.With) else a.items[0].context_expr)]
        return ws[-1] if ws else None
    tests_run = [n for n in g.nodes if n.kind == 'test' and src(n.ast) in ('self.running', 'self._running', 'not self.running', 'not self._running')
                 and any(Q.reaches(n, c_) for c_ in clr)]
    # (read once into a local: the read is what has to happen under the lock)
    tests_run += [rd for nm, rd in reads.items() if any(Q.reaches(rd, c_) for c_ in clr)]
    section = {id(lock_of(n)) for n in tests_run[:1] + [f] + clr}
    chk.ob('d', s.ref, 'stop() decides under the lock whether it is the one that stops: the test of the running flag, the queueing of `stopped` and the clearing of the flag '
                       'lie in one `with self._lock` block (else two overlapping calls both announce the stop)', bool(tests_run) and len(section) == 1 and None not in
           [lock_of(n) for n in tests_run[:1] + [f] + clr], loc(s, f.ast), discr='stop-decided-once')
    # … and a loop that went idle while the flag was still set is woken up
    wakes = [n for n in g.nodes if n.kind == 'stmt' and any(len(c.args) == 1 and pat.is_const(c.args[0], 0) for _r, c in pat.method_calls(n.ast, 'reduce_time_left'))]
    okw = bool(wakes) and all(any(k == 'with' and 'self._lock' in src(getattr(a, 'context_expr', a)) for k, a in n.ctx) for n in wakes) and \
        all(any(Q.reaches(c_, w_) for w_ in wakes) for c_ in clr)
    # … whoever calls stop(): the only reason not to is that no generate_events is being handled (the loop's own thread may be the one that idles next:
    # stop() called in a generate_events handler of higher priority than the one that waits)
    no_gen = pat.test_edge(lambda t, pol: pol == 'F' and 'generate_events' in src(t) and 'isinstance' in src(t))
    pw = Q.escapes(g, clr, lambda n: n in wakes, avoid_edge=no_gen, exits=('exit', 'raise'), exc=()) if clr else None
    chk.ob('d', s.ref, 'after clearing the flag stop() disarms the idle wait of a generate_events that is being handled, under the lock the dispatcher publishes it under, '
                       'on every path (whichever thread stops)',
           okw and pw is None, loc(s, (wakes or clr or [f])[0].ast), path=pat.path_lines(pw, clr[0]) if pw else None, discr='idle-loop-woken')
    # not running ⇒ nothing: no fire, no tick reachable on the not-running branch
    raises = [n for n in g.nodes if n.kind == 'stmt' and isinstance(n.ast, ast.Raise) and n.ast.exc is not None and
              src(n.ast.exc).replace(' ', '') == f'SystemExit({code})']
    p = Q.escapes(g, [f], lambda n: n in raises, exits=('exit',), avoid_edge=pat.test_edge(
        lambda t, pol: pat.fact_matches(pat.compare_fact(t, pol), code, ('is', '=='), 'None')))
    chk.ob('e', s.ref, 'after stopping, a non-None exit code is raised as SystemExit(code) on every path', p is None and bool(raises), loc(s, f.ast),
           path=pat.path_lines(p, f) if p else None, discr='code-raised')
    for rn in raises:
        q = pat.guarded_by(g, rn, pat.test_edge(lambda t, pol: pat.fact_matches(pat.compare_fact(t, pol), code, ('is not', '!='), 'None')))
        chk.ob('e', s.ref, 'SystemExit is raised only for a non-None code', q is None, loc(s, rn.ast), discr='code-only')
        q = Q.reachable_without(g, rn, avoid_node=lambda n: n is f)
        chk.ob('e', s.ref, 'SystemExit is raised only after stopped has been fired', q is None, loc(s, rn.ast), discr='raise-after-stopped')
    # inline ticks only when no loop thread owns the manager
    ticks = [n for n in g.nodes if _ticks(n)]
    for tn in ticks:
        q = pat.guarded_by(g, tn, pat.test_edge(lambda t, pol: pat.fact_matches(pat.compare_fact(t, pol), 'self.root._executing_thread', ('is', '=='), 'None')))
        chk.ob('d', s.ref, 'stop() ticks inline only when no thread is executing the loop', q is None, loc(s, tn.ast), discr='inline-ticks-guard')


def rule_clauses(chk, d, t):
    from .common import invocation_context
    for f in (invocation_context(d.module.repo, d)[0], t):
        chk.touch(f)
        g = f.cfg()
        ki = [h for h in pat.except_nodes(g) if handler_names(h.ast) and 'KeyboardInterrupt' in handler_names(h.ast)]
        se = [h for h in pat.except_nodes(g) if handler_names(h.ast) and 'SystemExit' in handler_names(h.ast)]
        chk.ob('f', f.ref, 'there is a KeyboardInterrupt clause and a SystemExit clause around handler code', bool(ki) and bool(se), loc(f, f.node),
               discr='clauses-exist')
        for h in ki:
            reg = pat.region(g, 'except', h.ast)
            stops = [n for n in reg if n.kind == 'stmt' and any(r == 'self' and not c.args for r, c in pat.method_calls(n.ast, 'stop'))]
            p = pat.escapes_region(g, h, reg, lambda n: n in stops, exits=('exit',))
            chk.ob('f', f.ref, 'KeyboardInterrupt in handler code stops the manager on every path', p is None and bool(stops), loc(f, h.ast),
                   path=pat.path_lines(p, h) if p else None, discr='ki-stop')
        for h in se:
            reg = pat.region(g, 'except', h.ast)
            en = h.ast.name
            stops = [n for n in reg if n.kind == 'stmt' and any(r == 'self' and [src(a) for a in c.args] == [f'{en}.code']
                                                               for r, c in pat.method_calls(n.ast, 'stop'))]
            rer = [n for n in reg if n.kind == 'stmt' and isinstance(n.ast, ast.Raise) and (n.ast.exc is None or src(n.ast.exc) == en)]
            p = pat.escapes_region(g, h, reg, lambda n: n in stops or n in rer, exits=('exit',))
            chk.ob('f', f.ref, 'SystemExit in handler code hands its code to stop() (or travels on) on every path', p is None and bool(stops),
                   loc(f, h.ast), path=pat.path_lines(p, h) if p else None, discr='se-stop-code')
            # e: once stopped, the code must travel on: the not-running path re-raises
            bad = None
            found = False
            for tn in reg:
                if tn.kind == 'test' and src(tn.ast) in ('self.running', 'self._running'):
                    for e in tn.succ:
                        if e.kind == 'F':
                            found = True
                            if e.dst not in rer:
                                bad = pat.escapes_region(g, e.dst, reg, lambda n: n in rer, exits=('exit',), exc=())
            chk.ob('e', f.ref, 'a SystemExit caught when the manager is already stopped (stop(code) called by the handler itself) is re-raised',
                   found and bad is None, loc(f, h.ast), path=pat.path_lines(bad) if bad else None, discr='se-reraise-when-stopped')
            if f is not t:
                # the event being dispatched was taken from the queue before the stop: its remaining handlers still get it, and it is reported done
                dones = [n for n in g.nodes if n.kind == 'stmt' and any(r == 'self' for r, _c in pat.method_calls(n.ast, '_eventDone'))]
                leaves = [n for n in reg if n.kind == 'stmt' and (isinstance(n.ast, ast.Raise) or
                                                                 any(r == 'self' and c.args for r, c in pat.method_calls(n.ast, 'stop')))]
                chk.ob('f', f.ref, 'an exit request with a code raised by one handler does not abort the dispatch of the event in hand: the remaining handlers run and the '
                                   'event is reported done before the code travels on', not leaves or not dones, loc(f, h.ast),
                       detail='the clause re-raises / calls stop(code), which raises SystemExit(code) out of the handler loop', discr='exit-request-finishes-dispatch')
            for sn in stops:
                q = pat.guarded_by(g, sn, pat.test_edge(lambda tt, pol: pol == 'T' and src(tt) in ('self.running', 'self._running')), start=h)
                chk.ob('e', f.ref, 'stop(e.code) is used only while running (where it raises the code itself)', q is None, loc(f, sn.ast),
                       discr='se-stop-while-running')


def rule_idle(repo, chk, d):
    """After stop() the loop must not go to sleep: a generate_events event is only fired while the manager is (still) running, judged
    after the tasks of this iteration were stepped, and one that is dispatched on a stopped manager gets a zero idle budget."""
    chk.rule('C08.g', 'tick() fires generate_events only if the manager is running *after* its tasks were stepped; the dispatcher disarms the idle wait '
                      'of a generate_events event on a manager that is not running')
    t = repo.func(MANAGER, 'Manager.tick')
    chk.touch(t)
    g = t.cfg()
    ge = [n for n in g.nodes if n.kind == 'stmt' and pat.fires(n.ast, 'generate_events')]
    need(ge, 'C08.g: tick() never fires generate_events')
    steps = [n for n in g.nodes if n.kind == 'stmt' and any(r == 'self' for r, _c in pat.method_calls(n.ast, 'processTask'))]
    run_tests = [n for n in g.nodes if n.kind == 'test' and src(n.ast) in ('self._running', 'self.running')]
    for n in ge:
        q = pat.guarded_by(g, n, lambda e: e.src in run_tests and e.kind == 'T')
        chk.ob('g', t.ref, 'generate_events is fired only while the manager is running (the flag itself is tested, not a copy taken earlier)', q is None, loc(t, n.ast),
               path=pat.path_lines(q) if q else None, discr='ge-only-running')
        late = all(not Q.reaches(rt, s_) for rt in run_tests for s_ in steps)
        chk.ob('g', t.ref, 'the running test comes after the tasks of the iteration were stepped (a task may have called stop())', late and bool(run_tests), loc(t, n.ast),
               discr='running-tested-after-tasks')
    gd = d.cfg()
    ev, rem = d.params[1], d.params[3]
    red0 = [n for n in gd.nodes if n.kind == 'stmt' and any(r == ev and len(c.args) == 1 and pat.is_const(c.args[0], 0) for r, c in pat.method_calls(n.ast, 'reduce_time_left'))]
    edges = [e for n in gd.nodes if n.kind == 'test' and src(n.ast) in ('self._running', 'self.running') for e in n.succ if e.kind == 'F']
    ok = bool(edges) and bool(red0) and all(e.dst in red0 or Q.escapes(gd, [e.dst], lambda n: n in red0) is None for e in edges)
    chk.ob('g', d.ref, 'a generate_events event dispatched while the manager is not running gets its idle budget reduced to 0 (run() can return)', ok,
           loc(d, d.node), discr='stopped-never-sleeps')


def rule_h(repo, chk):
    """What "queue non-empty" means: run()'s drain and tick()'s idle test ask len(queue)."""
    from .c02 import _queue_roles
    chk.rule('C08.h', 'the length of the event queue counts the waiting FIFO *and* the unfinished batch in the heap (run() drains until it is 0, so an '
                      'interrupted batch is not left behind)')
    q, fifo, heap, _counter, _batch = _queue_roles(repo)
    ln = need(q.methods.get('__len__'), 'C08.h: _EventQueue.__len__ missing')
    chk.touch(ln)
    rets = [n for n in walk_no_defs(ln.node) if isinstance(n, ast.Return)]
    ok = bool(rets)
    for r in rets:
        terms = set()

        def collect(e):
            if isinstance(e, ast.BinOp) and isinstance(e.op, ast.Add):
                collect(e.left)
                collect(e.right)
            else:
                terms.add(src(e).replace(' ', ''))
        if r.value is None:
            ok = False
            continue
        collect(r.value)
        ok = ok and {f'len(self.{fifo})', f'len(self.{heap})'} <= terms
    chk.ob('h', ln.ref, 'len(queue) = entries waiting + entries of the batch being dispatched', ok, loc(ln, ln.node), discr='len-counts-both')
