"""C03 — fire() from other threads: lock discipline and the wake-up protocol.

a  _fire: the unlocked append is only reachable on the owner-thread branch; the foreign branch reads the currently
   handled event, appends and calls reduce_time_left(0) inside one `with self._lock`
b  _dispatcher: publishing a generate_events instance, the test "remaining > 0 or queue non-empty or not running"
   and reduce_time_left(0) lie in one region of the same lock, publish first
c  reduce_time_left: budget write and resume() under the event's lock; budget only decreases; resume attempted
   whenever the budget becomes 0 and a handler is recorded
d  tick() hands the manager's lock to generate_events, which stores it as the lock reduce_time_left uses
e  fallback idle handler: clear() of the wake-up flag only inside the event's lock and before every wait; every wait
   re-tests the budget after the clear; the unbounded wait sits in a loop on the budget; resume() sets the same flag
f  every poller registers its control descriptor for reading, drains it, and resume() writes to its other end
"""

import ast

from sa import AnalysisError, pat
from sa import query as Q
from sa.model import call_name, calls_in, src, walk_no_defs

from .common import EVENTS, HELPERS, MANAGER, POLLERS, loc, need

MIN_OBLIGATIONS = 28


def run(repo, chk):
    chk.not_decided = [
        'per-thread FIFO at bytecode granularity (the tie counter is incremented outside the lock on the owner thread)',
        'exactly-once dispatch under real pre-emption; liveness of the kernel wake-up',
    ]
    chk.rule('C03.a', 'in _fire every queue append is either on the owner-thread branch or inside `with self._lock` together '
                      'with the read of the currently handled event and reduce_time_left(0) for a generate_events instance')
    chk.rule('C03.b', 'the dispatcher publishes a generate_events instance, tests for pending work and disarms the idle wait '
                      'inside one region of the manager lock')
    chk.rule('C03.c', 'reduce_time_left writes the budget and calls resume() under the event lock; the budget only decreases; '
                      'resume() is attempted whenever the budget becomes 0 and a handler is recorded')
    chk.rule('C03.d', 'tick() creates generate_events with the manager lock; the event uses that lock')
    chk.rule('C03.e', 'the fallback clears its wake-up flag only under the event lock and before every wait, re-tests the '
                      'budget after the clear, loops on the unbounded wait, and resume() sets the same flag')
    chk.rule('C03.f', 'every poller registers the control descriptor for reading in __init__, drains it when it is readable, '
                      'and resume() writes to the other end')
    rule_a(repo, chk)
    rule_b(repo, chk)
    rule_c(repo, chk)
    rule_d(repo, chk)
    rule_e(repo, chk)
    rule_f(repo, chk)
    rule_g(repo, chk)
    rule_h(repo, chk)
    rule_handover(repo, chk)


def rule_handover(repo, chk):
    """Three places where an event fired by another thread could end up unseen: a queue that is being handed over to another tree, the return from a nested
    dispatch into a generate_events handler, and a loop that does not serve the queue its events go to."""
    from .common import COMPONENTS
    chk.rule('C03.i', 'a component is handed over to another tree under its own lock, and a cross-thread fire re-checks the root under that lock before it queues; '
                      'the dispatcher re-checks the queue when it re-publishes a generate_events event after a nested dispatch')
    reg = repo.func(COMPONENTS, 'BaseComponent.register')
    chk.touch(reg)
    g = reg.cfg()
    par = reg.params[1]
    rc = [n for n in g.nodes if n.kind == 'stmt' and any(r == par for r, _c in pat.method_calls(n.ast, 'registerChild'))]
    rs = [n for n in g.nodes if n.kind == 'stmt' and 'self' in pat.stores_attr(n.ast, 'root')]
    need(rc and rs, 'C03.i: register() lacks registerChild / the root switch')
    okl = all(_under(n, 'self._lock') for n in rc + rs)
    def section(n):
        ws = [a for k, a in n.ctx if k == 'with']
        return id(ws[-1]) if ws else None
    # (a branch that registers nothing — the component made its own root — may have a section of its own)
    same = okl and all(any(section(r_) == section(c_) and Q.reaches(c_, r_) for r_ in rs) for c_ in rc)
    chk.ob('i', reg.ref, 'the queue hand-over (registerChild) and the root switch happen in one critical section of the component\'s lock', okl and same,
           loc(reg, rc[0].ast), discr='handover-locked')
    f = repo.func(MANAGER, 'Manager._fire')
    gf = f.cfg()
    apps = [n for n in gf.nodes if n.kind == 'stmt' and any(r == 'self._queue' for r, _c in pat.method_calls(n.ast, 'append')) and _under(n, 'self._lock')]
    if not apps:
        chk.ob('i', f.ref, 'a fire from another thread queues under the manager lock', False, loc(f, f.node), discr='root-rechecked-under-lock')
    still_root = pat.test_edge(lambda tt, pol: pat.fact_matches(pat.compare_fact(tt, pol), 'self.root', ('is', '=='), 'self'))
    for n in apps:
        q = pat.guarded_by(gf, n, still_root)
        locked_test = [t_ for t_ in gf.nodes if t_.kind == 'test' and 'self.root' in src(t_.ast) and _under(t_, 'self._lock')]
        chk.ob('i', f.ref, 'a fire from another thread queues here only after it has found, under the lock, that this manager still is the root', q is None and bool(locked_test),
               loc(f, n.ast), path=pat.path_lines(q) if q else None, discr='root-rechecked-under-lock')
    d = repo.func(MANAGER, 'Manager._dispatcher')
    gd = d.cfg()
    ev = d.params[1]
    pubs = [n for n in gd.nodes if n.kind == 'stmt' and 'self' in pat.stores_attr(n.ast, '_currently_handling') and src(n.ast.value) == ev]
    saved = {src(n.ast.targets[0]) for n in gd.nodes if n.kind == 'stmt' and isinstance(n.ast, ast.Assign) and isinstance(n.ast.targets[0], ast.Name)
             and src(n.ast.value) == 'self._currently_handling'}
    restores = [n for n in gd.nodes if n.kind == 'stmt' and 'self' in pat.stores_attr(n.ast, '_currently_handling') and src(n.ast.value) in saved]
    need(restores, 'C03.i: the dispatcher never re-publishes the previously handled event')
    for n in restores:
        sv = src(n.ast.value)
        not_ge = pat.guarded_by(gd, n, pat.test_edge(lambda tt, pol: pol == 'F' and src(tt).replace(' ', '') == f'isinstance({sv},generate_events)')) is None
        if not_ge:
            chk.ob('i', d.ref, 're-publishing without the lock happens only for events that are not generate_events', True, loc(d, n.ast), discr='restore-unlocked-not-ge', nontrivial=False)
            continue
        locked = _under(n, 'self._lock')
        red = [m for m in gd.nodes if _reduce0(m) == sv and _under(m, 'self._lock')]
        qedges = [e for t_ in gd.nodes if t_.kind == 'test' and _under(t_, 'self._lock') and Q.reaches(n, t_) for e in t_.succ
                  if (e.kind == 'T' and src(t_.ast) in ('len(self._queue)', 'self._queue')) or pat.fact_matches(pat.compare_fact(t_.ast, e.kind), 'len(self._queue)', ('>', '!='), '0')]
        ok = locked and bool(red) and bool(qedges) and all(e.dst in red or Q.escapes(gd, [e.dst], lambda m: m in red) is None for e in qedges)
        chk.ob('i', d.ref, 'a generate_events event is re-published (after a nested dispatch) under the manager lock, and pending work found there disarms its idle wait: what '
                           'another thread fired during the nested dispatch woke nobody', ok, loc(d, n.ast), discr='restore-rechecks-queue')
    # the loop of a manager serves the queue its events are fired into
    t = repo.func(MANAGER, 'Manager.tick')
    chk.touch(t)
    own = [n for n in walk_no_defs(t.node) if isinstance(n, ast.Attribute) and src(n) == 'self._queue']
    chk.ob('i', t.ref, 'tick() looks for work in the queue its events are fired into (fire() goes to the root\'s queue: a loop that was adopted by another tree through '
                       'registerChild must serve that tree\'s queue)', not own, loc(t, own[0]) if own else loc(t, t.node),
           detail='tick() tests and flushes `self._queue`, fire() appends to `self.root._queue`', discr='loop-serves-root-queue')


def rule_g(repo, chk):
    """The loop thread takes events out of the shared FIFO without a lock: it may only remove entries one at a time
    (deque.popleft is atomic) and only as many as it counted; bulk operations on the live FIFO (clear, rebinding,
    copying it wholesale) discard or duplicate what another thread appends in between."""
    chk.rule('C03.g', 'the flush takes entries out of the live FIFO only with popleft, never with clear()/rebinding/bulk copy')
    q = repo.cls(MANAGER, '_EventQueue')
    d = q.methods.get('dispatchEvents')
    need(d, 'C03.g: _EventQueue.dispatchEvents missing')
    chk.touch(d)
    fifo = None
    init = q.methods.get('__init__')
    for n in walk_no_defs(init.node):
        if isinstance(n, ast.Assign) and isinstance(n.value, ast.Call) and call_name(n.value) == 'deque':
            fifo = n.targets[0].attr
    need(fifo, 'C03.g: the FIFO attribute of _EventQueue was not found')
    full = f'self.{fifo}'
    bad = []
    for m in q.methods.values():
        if m.name in ('__init__',):
            continue
        for n in walk_no_defs(m.node):
            if isinstance(n, ast.Call) and isinstance(n.func, ast.Attribute) and src(n.func.value) == full and n.func.attr in ('clear', 'pop', 'remove', 'rotate', 'reverse', 'copy'):
                bad.append((m, n, f'`{src(n)}`'))
            if isinstance(n, (ast.Assign, ast.AugAssign)) and any(recv == 'self' and a == fifo for recv, a, _v in pat.attr_store(n)):
                bad.append((m, n, f'`{src(n)[:50]}` rebinds the FIFO'))
            if isinstance(n, ast.Call) and any(src(a) == full for a in n.args) and not (isinstance(n.func, ast.Name) and n.func.id == 'len'):
                bad.append((m, n, f'`{src(n)[:60]}` reads the live FIFO wholesale'))
            if isinstance(n, (ast.For, ast.comprehension)) and src(n.iter) == full:
                # a read-only view (nothing in the method takes entries out or puts them elsewhere) cannot lose or duplicate an entry
                mutates = any(isinstance(c, ast.Call) and isinstance(c.func, ast.Attribute) and c.func.attr in ('popleft', 'pop', 'clear', 'remove', 'extend', 'append', 'appendleft')
                              for c in walk_no_defs(m.node)) or any(isinstance(c, ast.Call) and call_name(c) in ('heappush', 'heappop') for c in walk_no_defs(m.node))
                if mutates:
                    bad.append((m, n, 'iterates the live FIFO'))
    chk.ob('g', q.ref, 'the loop removes entries from its own FIFO only through popleft (atomic per entry); nothing a concurrent fire() appends can be discarded or copied twice',
           not bad, bad[0][0].loc(bad[0][1]) if bad else q.module.relpath, detail='; '.join(f'{m.name}: {w}' for m, _n, w in bad[:4]), discr='fifo-atomic-removal')
    g = d.cfg()
    pops = [n for n in g.nodes if n.kind in ('stmt', 'test') and any(r == full for r, _c in pat.method_calls(n.ast, 'popleft'))]
    chk.ob('g', d.ref, 'the flush takes entries with popleft', bool(pops), loc(d, d.node), discr='popleft-used')
    for pn in pops:
        loops = [a for k, a in pn.ctx if k == 'loop']
        # enclosing comprehensions count as loops as well
        p_ = getattr(pn.ast, '_parent', None)
        comps = []
        for w in walk_no_defs(pn.ast):
            if isinstance(w, (ast.ListComp, ast.GeneratorExp, ast.SetComp)) and full + '.popleft()' in src(w.elt):
                comps.extend(w.generators)
        bounds = [src(lp.test) if isinstance(lp, ast.While) else src(lp.iter) for lp in loops[-1:]] + [src(c.iter) for c in comps]
        ok = bool(bounds) and not any(full in b_ for b_ in bounds)
        chk.ob('g', d.ref, 'the number of entries taken is the count snapshotted before (not "until the FIFO is empty", which races with concurrent appends '
                           'and breaks the pass snapshot)', ok, loc(d, pn.ast), discr='snapshot-bounded')


def _under(n, lock):
    """Is CFG node n inside a critical section of *lock*: `with lock:` or `lock.acquire()` … `try: … finally: lock.release()`."""
    if lock in pat.with_exprs(n):
        return True
    for k, a in n.ctx:
        if k == 'try' and a.finalbody and any(src(c.func) == f'{lock}.release' for st in a.finalbody for c in calls_in(st) if isinstance(c.func, ast.Attribute)):
            # the acquire precedes the try (or opens its body)
            parent_body = getattr(getattr(a, '_parent', None), 'body', [])
            prev = None
            for st in parent_body:
                if st is a:
                    break
                prev = st
            first = a.body[0] if a.body else None
            for cand in (prev, first):
                if cand is not None and any(isinstance(c.func, ast.Attribute) and src(c.func) == f'{lock}.acquire' for c in calls_in(cand)):
                    return True
    return False


def _reduce0(n):
    """CFG node calls X.reduce_time_left(0) → receiver src or None."""
    if n.kind != 'stmt':
        return None
    for r, c in pat.method_calls(n.ast, 'reduce_time_left'):
        if len(c.args) == 1 and pat.is_const(c.args[0], 0):
            return r
    return None


def rule_a(repo, chk):
    f = repo.func(MANAGER, 'Manager._fire')
    chk.touch(f)
    g = f.cfg()
    apps = [n for n in g.nodes if n.kind == 'stmt' and any(r == 'self._queue' for r, _c in pat.method_calls(n.ast, 'append'))]
    need(len(apps) >= 1, 'C03.a: _fire does not append to the queue')

    def ident_edge(e):
        # the edge on which "calling thread == owner thread" is known: `==` true or `!=` false
        if e.src.kind != 'test' or e.kind not in ('T', 'F'):
            return False
        t = _ident_expr(e.src.ast)
        if t is None:
            return False
        fact = pat.compare_fact(t, e.kind)
        return fact is not None and fact[1] in ('==', 'is')

    def _ident_expr(t):
        # the comparison with the identity of the calling thread, directly or through a local that holds its result
        s_ = src(t)
        if 'get_ident()' in s_ or 'current_thread()' in s_:
            return t
        if isinstance(t, ast.Name):
            vs = pat.deref(f, t)
            if len(vs) == 1 and isinstance(vs[0], ast.Compare) and ('get_ident()' in src(vs[0]) or 'current_thread()' in src(vs[0])):
                return vs[0]
        return None

    unlocked = [n for n in apps if not _under(n, 'self._lock')]
    locked = [n for n in apps if _under(n, 'self._lock')]
    for n in unlocked:
        p = pat.guarded_by(g, n, ident_edge)
        chk.ob('a', f.ref, 'an append outside the lock is only reachable when the calling thread is the owner/flushing thread',
               p is None, loc(f, n.ast), path=pat.path_lines(p) if p else None, discr='unlocked-append-owner-only')
    chk.ob('a', f.ref, 'the foreign-thread branch appends under the manager lock', bool(locked), loc(f, f.node),
           discr='locked-append-exists')
    # every path through _fire that fails the identity test appends under the lock
    tests = [n for n in g.nodes if n.kind == 'test' and _ident_expr(n.ast) is not None]
    need(tests, 'C03.a: no thread identity test in _fire')
    # the identity is compared against the executing or flushing thread
    th_ok = False
    for n in walk_no_defs(f.node):
        if isinstance(n, ast.Assign) and 'self._executing_thread' in src(n.value) and 'self._flushing_thread' in src(n.value):
            th_ok = True
    chk.ob('a', f.ref, 'the owner test compares against the executing or else the flushing thread', th_ok, loc(f, tests[0].ast),
           discr='owner-identity')
    for n in locked:
        region = [m for m in g.nodes if _under(m, 'self._lock')]
        reads = [m for m in region if m.kind == 'stmt' and isinstance(m.ast, ast.Assign) and src(m.ast.value) == 'self._currently_handling']
        ok_read = bool(reads)
        chk.ob('a', f.ref, 'the currently handled event is read inside the same critical section as the append', ok_read,
               loc(f, n.ast), discr='read-under-lock')
        hv = src(reads[0].ast.targets[0]) if reads else None
        red = [m for m in region if _reduce0(m) is not None]
        ok = False
        path = None
        if hv and red:
            red_ok = [m for m in red if _reduce0(m) == hv]

            def skip(e):
                # leaving through "not a generate_events instance" is fine
                return e.src.kind == 'test' and e.kind == 'F' and src(e.src.ast).replace(' ', '') == f'isinstance({hv},generate_events)'
            path = Q.escapes(g, [n], lambda m: m in red_ok, avoid_edge=skip)
            if path is None and n not in red_ok:
                # the append itself must precede or follow within the region; also accept reduce before append
                ok = True
            # both orders are atomic under the lock: accept reduce-before-append too
            if not ok:
                before = Q.reachable_without(g, n, avoid_node=lambda m: m in red_ok, avoid_edge=skip)
                ok = before is None
        chk.ob('a', f.ref, 'inside the critical section a generate_events instance being handled gets reduce_time_left(0)', ok,
               loc(f, n.ast), path=pat.path_lines(path, n) if (path and not ok) else None, discr='reduce-under-lock')
        for m in red:
            chk.ob('a', f.ref, 'reduce_time_left(0) of the foreign branch is called under the manager lock',
                   _under(m, 'self._lock'), loc(f, m.ast), discr='reduce-locked')
    # any reduce_time_left(0) in _fire must be under the lock
    for m in g.nodes:
        if _reduce0(m) is not None and not _under(m, 'self._lock'):
            chk.ob('a', f.ref, 'reduce_time_left(0) in _fire is only called under the manager lock', False, loc(f, m.ast),
                   discr='reduce-unlocked')


def rule_b(repo, chk):
    d = repo.func(MANAGER, 'Manager._dispatcher')
    chk.touch(d)
    g = d.cfg()
    ev, rem = d.params[1], d.params[3]
    pubs = [n for n in g.nodes if n.kind == 'stmt' and 'self' in pat.stores_attr(n.ast, '_currently_handling') and
            src(n.ast.value) == ev]
    need(pubs, 'C03.b: the dispatcher never publishes the event as currently handled')

    def ge_edge(pol):
        def f(e):
            return e.src.kind == 'test' and e.kind == pol and src(e.src.ast).replace(' ', '') == f'isinstance({ev},generate_events)'
        return f
    # on the generate_events branch the publish happens under the lock
    ge_pubs = [n for n in pubs if pat.guarded_by(g, n, ge_edge('T')) is None]
    chk.ob('b', d.ref, 'a generate_events instance is published as currently handled', bool(ge_pubs), loc(d, pubs[0].ast),
           discr='ge-publish-exists')
    # no publish of a generate_events instance outside the lock: unlocked publishes must be on the non-generate_events branch
    for n in pubs:
        if not _under(n, 'self._lock'):
            p = pat.guarded_by(g, n, ge_edge('F'))
            chk.ob('b', d.ref, 'publishing without the lock happens only for events that are not generate_events', p is None,
                   loc(d, n.ast), path=pat.path_lines(p) if p else None, discr='unlocked-publish-not-ge')
    for n in ge_pubs:
        chk.ob('b', d.ref, 'the generate_events instance is published under the manager lock', _under(n, 'self._lock'),
               loc(d, n.ast), discr='publish-locked')
        withs = [a for k, a in n.ctx if k == 'with']
        region = [m for m in g.nodes if _under(m, 'self._lock') and (not withs or any(k == 'with' and a is withs[-1] for k, a in m.ctx))]     # the same critical section
        red = [m for m in region if _reduce0(m) == ev]
        atoms = {
            'remaining>0': lambda t, pol: pat.fact_matches(pat.compare_fact(t, pol), rem, ('>', '!='), '0') or (pol == 'T' and src(t) == rem),
            'queue-non-empty': lambda t, pol: (pol == 'T' and src(t) in ('len(self._queue)', 'self._queue')) or
            pat.fact_matches(pat.compare_fact(t, pol), 'len(self._queue)', ('>', '!='), '0'),
            'not-running': lambda t, pol: (pol == 'F' and src(t) in ('self._running', 'self.running')),
        }
        for label, pred in atoms.items():
            edges = [e for m in region if m.kind == 'test' for e in m.succ if e.kind in ('T', 'F') and pred(m.ast, e.kind)]
            ok = bool(edges)
            path = None
            for e in edges:
                if e.dst in red:
                    continue
                path = Q.escapes(g, [e.dst], lambda m: m in red)
                if path is not None:
                    ok = False
            # the test must come after the publish
            for e in edges:
                q = Q.reachable_without(g, e.src, avoid_node=lambda m: m is n)
                if q is not None:
                    ok = False
                    path = q
            chk.ob('b', d.ref, f'inside the critical section, after the publish, "{label}" leads to reduce_time_left(0)', ok,
                   loc(d, n.ast), path=pat.path_lines(path) if (path and not ok) else None, discr=f'arm:{label}')
        for m in red:
            chk.ob('b', d.ref, 'the disarming reduce_time_left(0) is inside the same critical section', _under(m, 'self._lock'),
                   loc(d, m.ast), discr='disarm-locked')
    # after the loop the publication is withdrawn
    saved = {src(n.ast.targets[0]) for n in g.nodes if n.kind == 'stmt' and isinstance(n.ast, ast.Assign) and len(n.ast.targets) == 1 and isinstance(n.ast.targets[0], ast.Name)
             and src(n.ast.value) == 'self._currently_handling' and all(Q.reaches(n, p_) and not Q.reaches(p_, n) for p_ in pubs)}
    # … to None, or to what was published before this (nested) dispatch began
    clears = [n for n in g.nodes if n.kind == 'stmt' and 'self' in pat.stores_attr(n.ast, '_currently_handling') and
              (pat.is_const(n.ast.value, None) or src(n.ast.value) in saved)]
    chk.ob('b', d.ref, 'the dispatcher withdraws the publication after the handlers ran', bool(clears), loc(d, d.node),
           discr='withdraw', nontrivial=False)


def rule_c(repo, chk):
    f = repo.func(EVENTS, 'generate_events.reduce_time_left')
    chk.touch(f)
    from .common import snapshot_view
    g0 = f.cfg()
    reads = [n for n in g0.nodes if n.ast is not None and n.kind in ('stmt', 'test') and
             any(isinstance(w, ast.Attribute) and w.attr == '_time_left' and isinstance(w.ctx, ast.Load) for w in ast.walk(n.ast))]
    for n in reads:
        chk.ob('c', f.ref, 'the budget is compared (or copied for the comparison) under the event lock, in the same critical section as the write',
               _under(n, 'self._lock'), loc(f, n.ast), discr='read-locked')
    f = snapshot_view(f)
    g = f.cfg()
    p = f.params[1]
    writes = [n for n in g.nodes if n.kind == 'stmt' and 'self' in pat.stores_attr(n.ast, '_time_left')]
    need(writes, 'C03.c: reduce_time_left never writes the budget')
    for w in writes:
        chk.ob('c', f.ref, 'the budget is written under the event lock', _under(w, 'self._lock'), loc(f, w.ast), discr='write-locked')
        chk.ob('c', f.ref, 'the value written is the requested budget', src(w.ast.value) == p, loc(f, w.ast), discr='write-value')
        q1 = pat.guarded_by(g, w, pat.test_edge(lambda t, pol: pat.fact_matches(pat.compare_fact(t, pol), p, ('>=',), '0')))
        chk.ob('c', f.ref, 'only a non-negative request lowers the budget', q1 is None, loc(f, w.ast),
               path=pat.path_lines(q1) if q1 else None, discr='nonneg')
        q2 = pat.guarded_by(g, w, pat.test_edge(lambda t, pol: pat.fact_matches(pat.compare_fact(t, pol), 'self._time_left', ('<',), '0')
                                                or pat.fact_matches(pat.compare_fact(t, pol), 'self._time_left', ('>',), p)))
        chk.ob('c', f.ref, 'the budget only decreases (unlimited, or larger than the request)', q2 is None, loc(f, w.ast),
               path=pat.path_lines(q2) if q2 else None, discr='monotone')
        # resume attempt
        resume_vars = set()
        for n in walk_no_defs(f.node):
            if isinstance(n, ast.Assign) and "'resume'" in src(n.value):
                resume_vars.update(src(t) for t in n.targets)
        calls = [n for n in g.nodes if n.kind == 'stmt' and any(call_name(c) in resume_vars or (call_name(c) or '').endswith('.resume')
                                                                 for c in calls_in(n.ast))]

        def skip(e):
            # edges on which there is nothing to resume: the budget is not 0, no handler is recorded, it has no resume method
            if e.src.kind != 'test' or e.kind not in ('T', 'F'):
                return False
            fc = pat.compare_fact(e.src.ast, e.kind)
            if pat.fact_matches(fc, 'self._time_left', ('!=', '>', '<'), '0') or pat.fact_matches(fc, 'self.handler', ('is', '=='), 'None'):
                return True
            if any(pat.fact_matches(fc, v, ('is', '=='), 'None') for v in resume_vars):
                return True
            if e.kind == 'F' and (src(e.src.ast) in resume_vars or (isinstance(e.src.ast, ast.Call) and call_name(e.src.ast) == 'ismethod')):
                return True
            return False
        path = Q.escapes(g, [w], lambda n: n in calls, avoid_edge=skip) if calls else []
        chk.ob('c', f.ref, 'after lowering the budget, resume() of the recorded handler is attempted whenever the budget is 0',
               bool(calls) and path is None, loc(f, w.ast), path=pat.path_lines(path, w) if path else None, discr='resume-attempt')
        zero = [n for n in g.nodes if n.kind == 'test' and any(pat.fact_matches(pat.compare_fact(n.ast, pol), 'self._time_left', ('==', '<='), '0') for pol in ('T', 'F'))]
        chk.ob('c', f.ref, 'the resume attempt is conditioned on the budget being 0 (not on the request only)', bool(zero) or not calls,
               loc(f, w.ast), discr='resume-at-zero', nontrivial=False)
        for c in calls:
            chk.ob('c', f.ref, 'resume() is called under the event lock', _under(c, 'self._lock'), loc(f, c.ast), discr='resume-locked')
        tgt = False
        for n in walk_no_defs(f.node):
            if isinstance(n, ast.Assign) and "'resume'" in src(n.value):
                # the object resume is looked up on, seen through a local (`owner = getattr(self.handler, 'im_self', …); getattr(owner, 'resume', None)`)
                texts = [src(n.value)]
                for c_ in calls_in(n.value):
                    if call_name(c_) == 'getattr' and c_.args:
                        texts += [src(v) for v in pat.deref(f, c_.args[0])]
                joined = ' '.join(texts)
                if ("'im_self'" in joined or '__self__' in joined) and 'self.handler' in joined:
                    tgt = True
        chk.ob('c', f.ref, 'resume is looked up on the component owning the recorded handler', tgt, loc(f, f.node),
               discr='resume-target', nontrivial=False)
    # the dispatcher records the handler before invoking it
    d = repo.func(MANAGER, 'Manager._dispatcher')
    gd = d.cfg()
    ev = d.params[1]
    from .common import dispatcher_loop
    loop, hv, inv, _helper = dispatcher_loop(repo, d)
    recs = [n for n in gd.nodes if n.kind == 'stmt' and ev in pat.stores_attr(n.ast, 'handler') and src(n.ast.value) == hv]
    for n in inv:
        p = Q.reachable_without(gd, n, start=loop, avoid_node=lambda m: m in recs)
        chk.ob('c', d.ref, 'the handler about to run is recorded on the event before it is invoked', p is None and bool(recs),
               loc(d, n.ast), path=pat.path_lines(p) if p else None, discr='handler-recorded')


def rule_d(repo, chk):
    t = repo.func(MANAGER, 'Manager.tick')
    chk.touch(t)
    ctors = [c for c in calls_in(t.node) if call_name(c) == 'generate_events']
    need(ctors, 'C03.d: tick() does not create generate_events')
    for c in ctors:
        chk.ob('d', t.ref, 'generate_events is created with the manager lock', bool(c.args) and src(c.args[0]) == 'self._lock',
               loc(t, c), detail=f'`{src(c)}`', discr='lock-passed')
    i = repo.func(EVENTS, 'generate_events.__init__')
    chk.touch(i)
    lockp = i.params[1]
    ok = any(isinstance(n, ast.Assign) and 'self' in pat.stores_attr(n, '_lock') and src(n.value) == lockp for n in walk_no_defs(i.node))
    chk.ob('d', i.ref, 'the event stores the lock it is given as the lock reduce_time_left uses', ok, loc(i, i.node), discr='lock-stored')
    lk = repo.func(EVENTS, 'generate_events.lock')
    rets = [n for n in walk_no_defs(lk.node) if isinstance(n, ast.Return)]
    chk.ob('d', lk.ref, 'the lock property returns that lock', bool(rets) and all(src(r.value) == 'self._lock' for r in rets),
           loc(lk, lk.node), discr='lock-property')
    m = repo.func(MANAGER, 'Manager.__init__')
    ok = any(isinstance(n, ast.Assign) and 'self' in pat.stores_attr(n, '_lock') and call_name(n.value) == 'RLock'
             for n in walk_no_defs(m.node) if isinstance(getattr(n, 'value', None), ast.Call))
    chk.ob('d', m.ref, 'the manager lock is re-entrant (reduce_time_left nests inside the dispatcher/fire critical sections)', ok,
           loc(m, m.node), discr='rlock')


def rule_e(repo, chk):
    f = repo.func(HELPERS, 'FallBackGenerator._on_generate_events')
    chk.touch(f)
    g = f.cfg()
    ev = f.params[1]
    init = repo.func(HELPERS, 'FallBackGenerator.__init__')
    flag = None
    for n in walk_no_defs(init.node):
        if isinstance(n, ast.Assign) and isinstance(n.value, ast.Call) and call_name(n.value) in ('Event', 'threading.Event'):
            flag = src(n.targets[0])
    need(flag, 'C03.e: FallBackGenerator has no threading.Event flag')
    clears = [n for n in g.nodes if n.kind == 'stmt' and any(r == flag for r, _c in pat.method_calls(n.ast, 'clear'))]
    waits = [n for n in g.nodes if n.kind in ('stmt', 'test') and any(r == flag for r, _c in pat.method_calls(n.ast, 'wait'))]
    need(waits, 'C03.e: the fallback never waits')
    chk.ob('e', f.ref, 'the wake-up flag is cleared', bool(clears), loc(f, f.node), discr='clear-exists')
    lock_names = (f'{ev}.lock', f'{ev}._lock')
    for c in clears:
        chk.ob('e', f.ref, 'the wake-up flag is cleared only inside the event lock', any(_under(c, k) for k in lock_names),
               loc(f, c.ast), discr='clear-locked')
    for w in waits:
        p = Q.reachable_without(g, w, avoid_node=lambda n: n in clears)
        chk.ob('e', f.ref, 'every wait is preceded by the clear', p is None, loc(f, w.ast), path=pat.path_lines(p) if p else None,
               discr='clear-before-wait')
        # after the (last) clear the budget is re-tested before waiting
        bad = None
        for c in clears:
            q = Q.reachable_without(g, w, start=c, avoid_node=lambda n: n.kind == 'test' and f'{ev}.time_left' in src(n.ast)
                                    and not any(_under(n, k) for k in lock_names))
            if q is not None:
                bad = q
        chk.ob('e', f.ref, 'between releasing the lock and waiting the budget is tested again', bad is None, loc(f, w.ast),
               path=pat.path_lines(bad) if bad else None, discr='retest-before-wait')
        chk.ob('e', f.ref, 'waiting happens outside the event lock (a firing thread must be able to take it)',
               not any(_under(w, k) for k in lock_names), loc(f, w.ast), discr='wait-unlocked')
        call = [c for r, c in pat.method_calls(w.ast, 'wait') if r == flag][0]
        bounded = bool(call.args) and f'{ev}.time_left' in src(call.args[0])
        if bounded:
            q = pat.guarded_by(g, w, pat.test_edge(lambda t, pol: pat.fact_matches(pat.compare_fact(t, pol), f'{ev}.time_left', ('>',), '0')))
            chk.ob('e', f.ref, 'the bounded wait runs only for a positive budget', q is None, loc(f, w.ast),
                   path=pat.path_lines(q) if q else None, discr='bounded-wait-guard')
        else:
            loops = [a for (k, a) in w.ctx if k == 'loop']
            ok = bool(loops) and isinstance(loops[-1], ast.While) and pat.fact_matches(
                pat.compare_fact(loops[-1].test, 'T'), f'{ev}.time_left', ('<',), '0')
            chk.ob('e', f.ref, 'the unbounded wait sits in a loop that re-tests the budget', ok, loc(f, w.ast), discr='unbounded-wait-loop')
    # under the lock: budget 0 → stop the event (no wait)
    r = repo.func(HELPERS, 'FallBackGenerator.resume')
    chk.touch(r)
    ok = any(rr == flag for rr, _c in pat.method_calls(r.node, 'set'))
    chk.ob('e', r.ref, 'resume() sets the flag the idle handler waits on', ok, loc(r, r.node), discr='resume-sets-flag')
    # the dispatcher appends this handler for generate_events
    d = repo.func(MANAGER, 'Manager._dispatcher')
    ok = any('FallBackGenerator()' in src(c) for c in calls_in(d.node))
    chk.ob('e', d.ref, 'the dispatcher installs the fallback idle handler for generate_events', ok, loc(d, d.node),
           discr='fallback-installed', nontrivial=False)


def rule_f(repo, chk):
    base = repo.cls(POLLERS, 'BasePoller')
    pollers = [c for c in repo.subclasses(base) if c.module.relpath == POLLERS]
    if len(pollers) < 3:
        raise AnalysisError(f'C03.f: only {len(pollers)} pollers found, 4 confirmed by hand')
    # blocking idle handlers: classes with a generate_events handler
    for f in repo.handlers_of('generate_events'):
        if f.cls is None or f.module.relpath not in (POLLERS, HELPERS):
            continue
        chk.touch(f)
        res = f.cls.lookup('resume')
        chk.ob('f', f.cls.ref, 'a component with a blocking generate_events handler defines resume()', res is not None,
               loc(f, f.node), discr='resume-defined')
    res = base.lookup('resume')
    need(res, 'C03.f: BasePoller.resume missing')
    chk.touch(res)
    wr = [c for c in calls_in(res.node) if (call_name(c) or '').split('.')[-1] in ('send', 'write')]
    ok = bool(wr) and all('self._ctrl_send' in src(c) for c in wr)
    chk.ob('f', res.ref, 'resume() writes to the sending end of the control connection on every branch', ok, loc(res, res.node),
           discr='resume-writes')
    g = res.cfg()
    wn = [n for n in g.nodes if n.kind == 'stmt' and any('self._ctrl_send' in src(c) and (call_name(c) or '').split('.')[-1] in ('send', 'write')
                                                         for c in calls_in(n.ast))]
    p = Q.escapes(g, [g.entry], lambda n: n in wn)
    chk.ob('f', res.ref, 'every path of resume() writes a byte', p is None, loc(res, res.node), path=pat.path_lines(p) if p else None,
           discr='resume-always-writes')
    init = base.methods.get('__init__')
    ok = init is not None and any(isinstance(n, ast.Assign) and 'self._ctrl_recv' in src(n.targets[0]) and 'self._ctrl_send' in src(n.targets[0])
                                  for n in walk_no_defs(init.node))
    chk.ob('f', base.ref, 'the control connection is created in BasePoller.__init__', ok, base.module.relpath, discr='ctrl-created',
           nontrivial=False)
    for c in pollers:
        ini = c.methods.get('__init__')
        if ini is None:
            chk.ob('f', c.ref, 'poller registers the control descriptor in __init__', False, c.module.relpath, discr='ctrl-registered')
            continue
        chk.touch(ini)
        reg = any(r == 'self._read' and c2.args and src(c2.args[0]) == 'self._ctrl_recv' for r, c2 in pat.method_calls(ini.node, 'append'))
        kernel = True
        if c.lookup('_updateRegistration') is not None and c.lookup('_updateRegistration').cls is c:
            kernel = any(c2.args and src(c2.args[0]) == 'self._ctrl_recv' for _r, c2 in pat.method_calls(ini.node, '_updateRegistration'))
        elif c.name == 'KQueue':
            kernel = any('self._ctrl_recv' in src(c2) for _r, c2 in pat.method_calls(ini.node, 'control'))
        chk.ob('f', c.ref, 'the poller registers the control descriptor for reading (bookkeeping and kernel object) in __init__',
               reg and kernel, loc(ini, ini.node), discr='ctrl-registered')
        # drained: the function handling readiness calls _read_ctrl() for the control descriptor
        drain = False
        for m in c.methods.values():
            for _r, c2 in pat.method_calls(m.node, '_read_ctrl'):
                st = c2
                gm = m.cfg()
                for n in gm.node_for(st):
                    q = pat.guarded_by(gm, n, pat.test_edge(lambda t, pol: pat.fact_matches(pat.compare_fact(t, pol), 'self._ctrl_recv', ('==', 'is'),
                                                                                           src(t.left) if isinstance(t, ast.Compare) and src(t.comparators[0]) == 'self._ctrl_recv' else
                                                                                           (src(t.comparators[0]) if isinstance(t, ast.Compare) else ''))))
                    if q is None:
                        drain = True
        chk.ob('f', c.ref, 'the poller drains the control descriptor when it becomes readable', drain, c.module.relpath,
               discr='ctrl-drained')
    rc = base.lookup('_read_ctrl')
    need(rc, 'C03.f: _read_ctrl missing')
    ok = any((call_name(c) or '').split('.')[-1] in ('recv', 'read') and 'self._ctrl_recv' in src(c) for c in calls_in(rc.node))
    chk.ob('f', rc.ref, '_read_ctrl reads from the receiving end', ok, loc(rc, rc.node), discr='read-ctrl')
    # the poller's idle handler reaches its blocking call through _generate_events
    h = base.methods.get('_on_generate_events')
    need(h, 'C03.f: BasePoller._on_generate_events missing')
    ok = any(True for _r, _c in pat.method_calls(h.node, '_generate_events'))
    chk.ob('f', h.ref, 'the poller idle handler delegates to _generate_events', ok, loc(h, h.node), discr='delegates', nontrivial=False)


def rule_h(repo, chk):
    """Registered descriptors are opaque to poller code: the wake-up descriptor is a plain int where os.pipe() made it."""
    chk.rule('C03.h', 'the read end of the wake-up pipe is registered like any descriptor and may be a plain int: poller code calls no method on a '
                      'descriptor taken from the registration lists (or on a parameter that receives the control descriptor) without an '
                      'isinstance/hasattr guard — an exception there is swallowed as "bad descriptor" and unregisters the wake-up pipe')
    base = repo.cls(POLLERS, 'BasePoller')
    ini = need(base.methods.get('__init__'), 'C03.h: BasePoller.__init__ missing')
    may_be_int = any('os.pipe()' in src(n) or 'pipe()' in src(n) for n in walk_no_defs(ini.node) if isinstance(n, ast.Assign)) or \
        any(isinstance(c, ast.Call) and (call_name(c) or '').endswith('pipe') for m in base.methods.values() for c in calls_in(m.node))
    chk.info(f'control descriptor may be a plain int: {may_be_int}')
    classes = [base] + [c for c in repo.subclasses(base) if c.module.relpath == POLLERS and c.name != 'KQueue']
    n_vars = 0
    for c in classes:
        for m in c.methods.values():
            opaque = {}   # variable -> reason
            # parameters that receive the control descriptor
            for cc in classes:
                for mm in cc.methods.values():
                    for call in calls_in(mm.node):
                        if isinstance(call.func, ast.Attribute) and call.func.attr == m.name and src(call.func.value) in ('self', 'super()'):
                            for i, a in enumerate(call.args):
                                if src(a) == 'self._ctrl_recv' and i + 1 < len(m.params):
                                    opaque[m.params[i + 1]] = 'receives the control descriptor'
            # loop variables over the registration lists (directly or through a tuple of copies)
            derived = set()
            for n in walk_no_defs(m.node):
                if isinstance(n, ast.For) and isinstance(n.target, ast.Name):
                    it = src(n.iter)
                    if 'self._read' in it or 'self._write' in it:
                        if isinstance(n.iter, (ast.Tuple, ast.List)):
                            derived.add(n.target.id)
                        else:
                            opaque[n.target.id] = f'iterates over {it}'
            for n in walk_no_defs(m.node):
                if isinstance(n, ast.For) and isinstance(n.target, ast.Name) and src(n.iter) in derived:
                    opaque[n.target.id] = f'iterates over a copy of the registration lists ({src(n.iter)})'
            if not opaque:
                continue
            chk.touch(m)
            for v, why in opaque.items():
                n_vars += 1
                bad = []
                for n in walk_no_defs(m.node):
                    if isinstance(n, ast.Attribute) and isinstance(n.value, ast.Name) and n.value.id == v and isinstance(n.ctx, ast.Load):
                        # guarded by isinstance / hasattr in an enclosing conditional expression or if statement
                        guarded = False
                        a = getattr(n, '_parent', None)
                        while a is not None and a is not m.node:
                            t = a.test if isinstance(a, (ast.IfExp, ast.If)) else None
                            if t is not None and any(isinstance(w, ast.Call) and call_name(w) in ('isinstance', 'hasattr') and w.args and src(w.args[0]) == v for w in ast.walk(t)):
                                guarded = True
                            a = getattr(a, '_parent', None)
                        if not guarded:
                            bad.append(n)
                chk.ob('h', m.ref, f'`{v}` ({why}) is only compared, stored, looked up or handed to the OS, never dereferenced without a type guard',
                       not bad or not may_be_int, loc(m, bad[0] if bad else m.node), detail='; '.join(f'L{b.lineno}: {src(b)}' for b in bad[:4]), discr=f'opaque-descriptor:{v}')
    need(n_vars >= 3, f'C03.h: only {n_vars} descriptor variables found in the pollers, 3 confirmed by hand (Select._preenDescriptors loop, the fd parameter of both _updateRegistration)')
