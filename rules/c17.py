"""C17 — WebSocket frames round-trip exactly, whatever the segmentation or fragmentation.

a  decoder: every byte index into the receive buffer is dominated by a sufficient length test; every "not enough data yet"
   exit stores the undecoded bytes as carry; the carry is prepended to new data; a decoded frame clears the carry
b  the length tables of encoder and decoder agree (7-bit / 16-bit / 64-bit forms, codes 126 / 127, mask bit)
c  every frame the endpoint encodes is masked iff the endpoint is a client
d  fragments are only combined with data frames; control frames neither read nor write the fragment buffer
e  nothing is decoded after a close frame was received, nothing is written after one was sent; _parse_messages returns
   the message list on every path; a ping is answered with a pong carrying the ping's payload
"""

import ast

from sa import AnalysisError, pat
from sa import query as Q
from sa.model import call_name, calls_in, src, walk_no_defs

from .common import WEBSOCKET, loc, need

MIN_OBLIGATIONS = 24


def run(repo, chk):
    chk.not_decided = ['payload byte equality (masking arithmetic)', 'UTF-8 validity of text frames (decoded with errors="replace")',
                       'non-conforming peers (fragmented control frames)']
    chk.rule('C17.a', 'bounds before index and carry-over in _parse_messages')
    chk.rule('C17.b', 'encoder and decoder agree on the three payload-length encodings and on the mask bit')
    chk.rule('C17.c', 'all encodes pass "client ⇔ mask"')
    chk.rule('C17.d', 'pending fragments are combined with data frames only and control branches leave them untouched')
    chk.rule('C17.e', 'close-state guards; list returned on every path; pong echoes the ping payload')
    cls = repo.cls(WEBSOCKET, 'WebSocketCodec')
    f = need(cls.methods.get('_parse_messages'), 'C17: _parse_messages missing')
    enc = need(cls.methods.get('_encode_tail'), 'C17: _encode_tail missing')
    chk.touch(f)
    chk.touch(enc)
    from .common import renamed
    f = renamed(f, _decoder_roles(f))
    enc = renamed(enc, _encoder_roles(enc))
    rule_a(chk, f)
    rule_b(chk, f, enc)
    rule_c(chk, cls)
    rule_d(chk, f)
    rule_e(repo, chk, cls, f)


def _decoder_roles(f):
    """{actual local name: role name} of the frame decoder, found by what each local is computed from."""
    dv = f.params[1]
    m = {}
    for n in walk_no_defs(f.node):
        if not (isinstance(n, ast.Assign) and len(n.targets) == 1 and isinstance(n.targets[0], ast.Name)):
            continue
        t, v = n.targets[0].id, src(n.value).replace(' ', '')
        if v in (f'{dv}[1]&127', f'{dv}[1]&0x7f', f'{dv}[1]&0x7F'):
            m[t] = 'payload_length'
        elif f'{dv}[1]' in v and ('128' in v or '0x80' in v.lower()):
            m[t] = 'masking'
        elif v in (f'{dv}[0]&15', f'{dv}[0]&0xF', f'{dv}[0]&0xf', f'{dv}[0]&0x0f', f'{dv}[0]&0x0F'):
            m[t] = 'opcode'
        elif f'{dv}[0]' in v and ('128' in v or '0x80' in v.lower()):
            m[t] = 'final'
        elif isinstance(n.value, ast.Constant) and n.value.value == 2 and any(isinstance(w, ast.Subscript) and src(w.value) == dv and isinstance(w.slice, ast.Slice)
                                                                                 and w.slice.lower is not None and src(w.slice.lower) == t for w in walk_no_defs(f.node)):
            m[t] = 'offset'
    for n in walk_no_defs(f.node):
        if isinstance(n, ast.Assign) and len(n.targets) == 1 and isinstance(n.targets[0], ast.Name) and isinstance(n.value, ast.List) and not n.value.elts \
                and 'msgs' not in m.values():
            m[n.targets[0].id] = 'msgs'
        if isinstance(n, ast.For) and isinstance(n.iter, ast.Call) and call_name(n.iter) == 'enumerate' and isinstance(n.target, ast.Tuple) and len(n.target.elts) == 2 \
                and all(isinstance(x, ast.Name) for x in n.target.elts):
            m[n.target.elts[0].id], m[n.target.elts[1].id] = 'i', 'c'
    off = next((k for k, v in m.items() if v == 'offset'), 'offset')
    pl = next((k for k, v in m.items() if v == 'payload_length'), 'payload_length')
    for n in walk_no_defs(f.node):
        if isinstance(n, ast.Assign) and len(n.targets) == 1 and isinstance(n.targets[0], ast.Name) and isinstance(n.value, ast.Subscript) and src(n.value.value) == dv \
                and isinstance(n.value.slice, ast.Slice) and n.value.slice.lower is not None and n.value.slice.upper is not None and src(n.value.slice.lower) == off:
            up = src(n.value.slice.upper).replace(' ', '')
            if up == f'{off}+4':
                m[n.targets[0].id] = 'masking_key'
            elif up == f'{off}+{pl}':
                m[n.targets[0].id] = 'msg'
    return m


def _encoder_roles(enc):
    m = {}
    for n in walk_no_defs(enc.node):
        if isinstance(n, ast.Assign) and len(n.targets) == 1 and isinstance(n.targets[0], ast.Name):
            v = src(n.value).replace(' ', '')
            if v == 'bytearray()' and not m.get(n.targets[0].id):
                m[n.targets[0].id] = 'tail'
            elif 'urandom(4)' in v or 'randint(0,255)' in v:
                m[n.targets[0].id] = 'masking_key'
    for n in walk_no_defs(enc.node):
        if isinstance(n, ast.For) and isinstance(n.iter, ast.Call) and call_name(n.iter) == 'enumerate' and isinstance(n.target, ast.Tuple) and len(n.target.elts) == 2:
            a, b = n.target.elts
            if isinstance(a, ast.Name) and isinstance(b, ast.Name):
                m[a.id], m[b.id] = 'i', 'c'
    return m


def _written_opcode(m, g, n, c):
    """First byte of the frame a `self._write(X)` call writes: X a bytes constant, or a local built as bytearray(b'\\x8?') (+ tail)."""
    if not c.args:
        return None
    a = c.args[0]
    if isinstance(a, ast.Constant) and isinstance(a.value, bytes) and a.value:
        return a.value[0]
    if isinstance(a, ast.Name):
        vals = set()
        todo, seen = [n], set()
        while todo:
            at = todo.pop()
            for d in Q.reaching_defs(g, at, a.id):
                if d in seen:
                    continue
                seen.add(d)
                if d.kind == 'stmt' and isinstance(d.ast, ast.AugAssign) and isinstance(d.ast.op, ast.Add):
                    todo.append(d)        # `frame += tail` appends: the first byte is that of the value before
                    continue
                v = getattr(d.ast, 'value', None) if d.kind == 'stmt' and isinstance(d.ast, ast.Assign) else None
                if isinstance(v, ast.Call) and call_name(v) == 'bytearray' and len(v.args) == 1 and isinstance(v.args[0], ast.Constant) and isinstance(v.args[0].value, bytes) and v.args[0].value:
                    vals.add(v.args[0].value[0])
                else:
                    vals.add(None)
        if len(vals) == 1:
            return vals.pop()
    return None


def _xor_loops(fnode, how):
    """Loops `for i, c in enumerate(P): <sink>(c ^ K[i % 4])`, whatever the loop variables are called; sink = X.append(...) or X[i] = ...  Returns [(P, K)]."""
    out = []
    for n in walk_no_defs(fnode):
        if not (isinstance(n, ast.For) and isinstance(n.iter, ast.Call) and call_name(n.iter) == 'enumerate' and len(n.iter.args) == 1
                and isinstance(n.target, ast.Tuple) and len(n.target.elts) == 2 and all(isinstance(x, ast.Name) for x in n.target.elts)):
            continue
        iv, cv = n.target.elts[0].id, n.target.elts[1].id

        def is_xor(e):
            if isinstance(e, ast.BinOp) and isinstance(e.op, ast.BitXor):
                for a, b in ((e.left, e.right), (e.right, e.left)):
                    if isinstance(a, ast.Name) and a.id == cv and isinstance(b, ast.Subscript) and src(b.slice).replace(' ', '') == f'{iv}%4':
                        return src(b.value)
            return None
        for w in walk_no_defs(n):
            if how == 'append' and isinstance(w, ast.Call) and isinstance(w.func, ast.Attribute) and w.func.attr == 'append' and len(w.args) == 1 and is_xor(w.args[0]):
                out.append((src(n.iter.args[0]), is_xor(w.args[0])))
            if how == 'store' and isinstance(w, ast.Assign) and is_xor(w.value) and isinstance(w.targets[0], ast.Subscript) and src(w.targets[0].slice) == iv:
                out.append((src(n.iter.args[0]), is_xor(w.value)))
    return out


def _writer_roles(w):
    m = {}
    for n in walk_no_defs(w.node):
        if isinstance(n, ast.Assign) and len(n.targets) == 1 and isinstance(n.targets[0], ast.Name):
            if isinstance(n.value, ast.Constant) and n.value.value == 128:
                m[n.targets[0].id] = 'first'
            elif src(n.value).replace(' ', '') == 'bytearray()':
                m[n.targets[0].id] = 'frame'
    return m


def _len_fact_edge(dv, need_expr):
    """Edge asserting len(dv) >= need_expr (as `len(dv) < need`[F] or `len(dv) >= need`[T])."""
    def pred(t, pol):
        f = pat.compare_fact(t, pol)
        return pat.fact_matches(f, f'len({dv})', ('>=',), need_expr)
    return pat.test_edge(pred)


def rule_a(chk, f):
    g = f.cfg()
    dv = f.params[1]
    # carry prepended
    pre = [n for n in g.nodes if n.kind == 'stmt' and isinstance(n.ast, ast.Assign) and src(n.ast.targets[0]) == dv and
           src(n.ast.value).replace(' ', '') == f'self._buffer+{dv}']
    # the frame loop: the while loop in which a decoded frame is cut off the data (`data = data[offset:]`)
    def consumes(w):
        return any(isinstance(n, ast.Assign) and src(n.targets[0]) == dv and src(n.value).replace(' ', '').startswith(f'{dv}[') for n in walk_no_defs(w))
    loops = [n for n in g.nodes if n.kind == 'join' and isinstance(n.ast, ast.While) and consumes(n.ast)] or \
        [n for n in g.nodes if n.kind == 'join' and isinstance(n.ast, ast.While) and dv in Q.names_used(n.ast.test)]
    need(loops, 'C17.a: no frame loop (a while loop that cuts decoded frames off the data)')
    head = loops[0]
    # leaving the loop through its condition: either nothing is left (`while data:`) or what is left is stored as carry
    cond_ids = {id(x) for x in ast.walk(head.ast.test)}
    keeps0 = [n for n in g.nodes if n.kind == 'stmt' and 'self' in pat.stores_attr(n.ast, '_buffer') and src(n.ast.value) == dv]
    for tn in g.nodes:
        if tn.kind != 'test' or id(tn.ast) not in cond_ids:
            continue
        for e in tn.succ:
            if e.kind not in ('T', 'F') or ('loop', head.ast) in e.dst.ctx:
                continue
            empty = (e.kind == 'F' and src(tn.ast) == dv) or pat.fact_matches(pat.compare_fact(tn.ast, e.kind), f'len({dv})', ('==', '<='), '0') or \
                pat.fact_matches(pat.compare_fact(tn.ast, e.kind), f'len({dv})', ('<',), '1')
            p = None if empty else Q.escapes(g, [e.dst], lambda n: n in keeps0, exits=('exit',)) if e.dst not in keeps0 else None
            chk.ob('a', f.ref, 'when the frame loop ends through its condition, nothing is left undecoded or the remainder is stored as carry', empty or p is None,
                   loc(f, tn.ast), detail=f'`while {src(head.ast.test)}`', path=pat.path_lines(p) if p else None, discr='loop-exit-keeps-remainder')
    q = Q.reachable_without(g, head, avoid_node=lambda n: n in pre)
    chk.ob('a', f.ref, 'the undecoded tail of the previous read is prepended to the new data before decoding', q is None and bool(pre), loc(f, head.ast),
           path=pat.path_lines(q) if q else None, discr='carry-prepended')
    # indices
    n_idx = 0
    for n in g.nodes:
        if n.kind not in ('stmt', 'test') or n.ast is None:
            continue
        for w in walk_no_defs(n.ast):
            if isinstance(w, ast.Subscript) and isinstance(w.ctx, ast.Load) and not isinstance(w.slice, ast.Slice) and src(w.value) in (dv, 'masking_key'):
                idx = w.slice
                n_idx += 1
                if src(w.value) == dv and isinstance(idx, ast.Constant) and isinstance(idx.value, int):
                    needed = str(idx.value + 1)
                    ok_edges = lambda e, needed=needed: any(_len_fact_edge(dv, str(k))(e) for k in range(int(needed), int(needed) + 8)) or (  # noqa: E731
                        needed == '1' and e.src.kind == 'test' and e.kind == 'T' and src(e.src.ast) == dv)
                    q = pat.guarded_by(g, n, ok_edges)
                    what = f'len({dv}) ≥ {needed}'
                elif src(w.value) == dv:
                    # data[offset] inside the extended-length loop: len(data) >= offset + payload_bytes tested before the loop
                    q = pat.guarded_by(g, n, pat.test_edge(lambda t, pol: (lambda fct: fct is not None and fct[0] == f'len({dv})' and fct[1] == '>=' and
                                                                          src(idx) in fct[2] and '+' in fct[2])(pat.compare_fact(t, pol))), start=head)
                    what = f'len({dv}) ≥ {src(idx)} + <number of length bytes>'
                else:
                    # masking_key[i % 4]: the key is complete once the whole frame (offset includes the key) is there
                    q = pat.guarded_by(g, n, pat.test_edge(lambda t, pol: (lambda fct: fct is not None and fct[0].replace(' ', '') == f'len({dv})-offset'
                                                                          and fct[1] == '>=' and fct[2] == 'payload_length')(pat.compare_fact(t, pol))), start=head)
                    what = f'len({dv}) − offset ≥ payload_length'
                chk.ob('a', f.ref, f'`{src(w)}` is read only after {what} was established in this iteration', q is None, loc(f, w),
                       path=pat.path_lines(q) if q else None, discr=f'bounds:{src(w)}')
    need(n_idx >= 5, f'C17.a: only {n_idx} byte indices found in the decoder, 6 confirmed by hand')
    # wait exits keep the bytes
    keeps = [n for n in g.nodes if n.kind == 'stmt' and 'self' in pat.stores_attr(n.ast, '_buffer') and src(n.ast.value) == dv]
    short_edges = [e for n in g.nodes if n.kind == 'test' and isinstance(n.ast, ast.Compare) and f'len({dv})' in src(n.ast.left) for e in n.succ
                   if (lambda fct: fct is not None and fct[1] == '<')(pat.compare_fact(n.ast, e.kind))]
    need(len(short_edges) >= 1, 'C17.a: no "not enough data" test in the decoder at all')
    for e in short_edges:
        ok = e.dst in keeps
        nxt = [x.dst for x in e.dst.succ if x.kind == 'n'] if ok else []
        leaves = ok and all(not Q.reaches(m, head) or True for m in nxt)
        # after storing, the loop is left (break) without consuming anything
        brk = ok and any(x.dst.kind == 'stmt' and isinstance(x.dst.ast, (ast.Break, ast.Return)) for x in e.dst.succ)
        chk.ob('a', f.ref, f'when `{src(e.src.ast)}` the undecoded bytes are stored as carry and decoding stops until the next read', ok and brk,
               loc(f, e.src.ast), discr=f'carry-kept:{src(e.src.ast)}')
    resets = [n for n in g.nodes if n.kind == 'stmt' and 'self' in pat.stores_attr(n.ast, '_buffer') and src(n.ast.value) in ('bytearray()', "b''", "bytearray(b'')")]
    adv = [n for n in g.nodes if n.kind == 'stmt' and isinstance(n.ast, ast.Assign) and src(n.ast.targets[0]) == dv and src(n.ast.value).replace(' ', '') == f'{dv}[offset:]']
    chk.ob('a', f.ref, 'a decoded frame is removed from the data and the carry is cleared', bool(resets) and bool(adv), loc(f, f.node), discr='frame-consumed')
    for a in adv:
        q = Q.reachable_without(g, a, start=head, avoid_node=lambda n: n.kind == 'stmt' and isinstance(n.ast, ast.AugAssign) and src(n.ast.target) == 'offset'
                                and src(n.ast.value) == 'payload_length')
        chk.ob('a', f.ref, 'the frame is consumed up to the end of its payload', q is None, loc(f, a.ast), discr='consumed-to-payload-end')


def _int(e):
    if isinstance(e, ast.Constant) and isinstance(e.value, int):
        return e.value
    return None


def rule_b(chk, f, enc):
    """Length tables by finite evaluation (sa/concrete.py): the classification code of encoder and decoder is interpreted on sample
    lengths / length codes, so the spelling of the if-chains does not matter."""
    from sa import concrete
    # --- encoder: which names hold the length byte and the number of extension bytes?
    lv = None
    for n in walk_no_defs(enc.node):
        if isinstance(n, ast.Assign) and src(n.value) == f'len({enc.params[1]})':
            lv = src(n.targets[0])
    need(lv, 'C17.b: encoder does not take len(data)')
    genc0 = enc.cfg()
    first_app = None
    for n in sorted((n for n in genc0.nodes if n.kind == 'stmt'), key=lambda n: n.lineno):
        cs = [c for r, c in pat.method_calls(n.ast, 'append') if c.args and isinstance(c.args[0], ast.Name)]
        if cs and not any(k == 'loop' for k, _a in n.ctx):
            first_app = (n, cs[0].args[0].id)
            break
    need(first_app, 'C17.b: encoder never appends its length byte')
    app_node, codev = first_app
    nbv = None
    for n in walk_no_defs(enc.node):
        if isinstance(n, ast.For) and isinstance(n.iter, ast.Call) and call_name(n.iter) == 'range' and n.iter.args:
            m_ = [w.id for w in ast.walk(n.iter.args[0]) if isinstance(w, ast.Name)]
            if m_:
                nbv = m_[0]
    need(nbv, 'C17.b: encoder has no loop over the extension bytes')
    node = app_node.ast
    e_tab = {}
    for L in (0, 1, 125, 126, 127, 65535, 65536, 1 << 24):
        for masked in (False, True):
            env, _at = concrete.run(enc, {enc.params[1]: concrete.Sized(L), enc.params[2]: masked}, stop=lambda n, _e: n is app_node)
            e_tab[(L, masked)] = (env.get(codev), env.get(nbv))
    want = {}
    for L in (0, 1, 125, 126, 127, 65535, 65536, 1 << 24):
        code, nb = (L, 0) if L <= 125 else ((126, 2) if L <= 65535 else (127, 8))
        want[(L, False)] = (code, nb)
        want[(L, True)] = (code | 128, nb)
    bad = {k: (e_tab[k], want[k]) for k in want if e_tab[k] != want[k]}
    chk.ob('b', enc.ref, 'encoder: 7-bit form up to 125, 16-bit form (code 126, 2 bytes) up to 65535, else 64-bit form (code 127, 8 bytes); mask flag = high bit '
                         '(evaluated on 8 sample lengths × masked/unmasked)', not bad, loc(enc, node), detail=f'(length, masked): (got, expected) {bad}' if bad else
           f'{len(want)} samples agree', discr='encoder-table')
    # --- decoder: how many extension bytes does it read for each length code?
    g = f.cfg()
    # the header is decoded for two sample second bytes (0xFE: masked, code 126; 0x7E: unmasked, code 126): the local that holds 126 in both runs when the
    # classification starts is the length code, the one that is truthy in the first and falsy in the second is the mask flag
    dv_ = f.params[1]
    is_cls = lambda n: n.kind == 'test' and isinstance(n.ast, ast.Compare) and any(  # noqa: E731
        isinstance(c, ast.Constant) and c.value in (125, 126, 127) for c in n.ast.comparators + [n.ast.left])
    hdr = {}
    for b1 in (0xFE, 0x7E):
        got = concrete.envs_at(g, g.entry, {f'${dv_}[0]': 0x81, f'${dv_}[1]': b1, f'$len({dv_})': 100}, is_cls)
        hdr[b1] = [e_ for _n, e_ in got]
    need(hdr[0xFE] and hdr[0x7E], 'C17.b: decoder has no extended-length classification')
    cands = [k for k, v in hdr[0xFE][0].items() if v == 126 and not isinstance(v, bool) and all(e_.get(k) == 126 for e_ in hdr[0xFE] + hdr[0x7E])]
    need(cands, 'C17.b: decoder does not extract the 7-bit length code')
    plv = cands[0]
    flags = [k for k, v in hdr[0xFE][0].items() if v is not concrete.UNKNOWN and v and all(e_.get(k) is not concrete.UNKNOWN and e_.get(k) for e_ in hdr[0xFE])
             and all(e_.get(k) is not concrete.UNKNOWN and not e_.get(k) for e_ in hdr[0x7E])]
    cls_tests = [n for n in g.nodes if n.kind == 'test' and plv in Q.names_used(n.ast) and isinstance(n.ast, ast.Compare) and
                 any(isinstance(c, ast.Constant) and c.value in (125, 126, 127) for c in n.ast.comparators + [n.ast.left])]
    need(cls_tests, 'C17.b: decoder has no extended-length classification')
    start = sorted(cls_tests, key=lambda n: n.lineno)[0]
    d_tab = {}
    for code in (0, 125, 126, 127):
        env, _at = concrete.run(f, {plv: code}, start=start)
        ints = {k: v for k, v in env.items() if isinstance(v, int) and not isinstance(v, bool) and k != plv}
        d_tab[code] = ints
    # the name that holds the number of extension bytes: 2 for code 126 and 8 for code 127
    nbd = [k for k, v in d_tab[126].items() if v == 2 and d_tab[127].get(k) == 8]
    ok_d = bool(nbd) and all(nbd[0] not in d_tab[c] or d_tab[c][nbd[0]] == 0 for c in (0, 125))
    ifexp = start.ast
    for k_, exp_ in (('short-max', 125), ('code-a', 126), ('bytes-a', 2), ('bytes-else', 8)):
        got = {'short-max': 125 if (nbd and not (nbd[0] in d_tab[125] and d_tab[125][nbd[0]])) else None,
               'code-a': 126 if (nbd and d_tab[126].get(nbd[0]) == 2) else None,
               'bytes-a': d_tab[126].get(nbd[0]) if nbd else None, 'bytes-else': d_tab[127].get(nbd[0]) if nbd else None}[k_]
        chk.ob('b', f.ref, f'length table entry {k_}: decoder agrees with encoder', got == exp_ and ok_d, loc(f, ifexp), detail=f'encoder {exp_}, decoder {got}',
               discr=f'table:{k_}')
    # big-endian accumulation in the decoder, big-endian emission in the encoder
    # (by evaluation: the decoder is run on two incomplete frames that carry only a header — 16-bit form 0x0102, 64-bit form 0x0000000001000203 — and the local
    # that held the length code must then hold 258 resp. 16777731; the encoder is run on payloads of 258 and 70 000 bytes and the tail it returns must start
    # with the same bytes)
    dec_ok, dec_got = True, {}
    for hdr_, want_ in (((0x82, 126, 0x01, 0x02), 258), ((0x82, 127, 0, 0, 0, 0, 0x01, 0x00, 0x02, 0x03), 16777731)):
        env_, _at = concrete.run(f, {dv_: hdr_, '$self._buffer': (), '$self._close_received': False})
        dec_got[want_] = env_.get(plv)
        dec_ok = dec_ok and env_.get(plv) == want_
    chk.ob('b', f.ref, 'the decoder accumulates the extended length big-endian', dec_ok, loc(f, f.node), detail=f'expected: decoded {dec_got}', discr='decoder-big-endian')
    enc_ok, enc_got = True, {}
    rets = [n for n in enc.cfg().nodes if n.kind == 'stmt' and isinstance(n.ast, ast.Return) and n.ast.value is not None]
    for L, want_ in ((258, (126, 0x01, 0x02)), (70000, (127, 0, 0, 0, 0, 0, 0x01, 0x11, 0x70))):
        env_, at_ = concrete.run(enc, {enc.params[1]: concrete.Sized(L), (enc.params[2] if len(enc.params) > 2 else 'mask'): False}, stop=lambda n, e: n in rets or (n.kind == 'stmt' and isinstance(n.ast, ast.AugAssign) and enc.params[1] in Q.names_used(n.ast.value)))
        got_t = None
        if at_ is not None and at_.kind == 'stmt':
            # (the payload itself is not a value of this evaluation: what was emitted before it is)
            cand_ = [v for v in env_.values() if isinstance(v, tuple) and v[:1] == want_[:1]]
            got_t = cand_[0] if cand_ else None
        enc_got[L] = got_t
        enc_ok = enc_ok and got_t is not None and tuple(got_t[:len(want_)]) == want_
    chk.ob('b', enc.ref, 'the encoder emits the extended length big-endian, byte by byte', enc_ok, loc(enc, enc.node), detail=f'header bytes emitted: {enc_got}',
           discr='encoder-big-endian')
    # mask bit / 7-bit mask
    ok = bool(cands) and bool(flags)
    chk.ob('b', f.ref, 'decoder: low 7 bits are the length code, the high bit is the mask flag', ok, loc(f, f.node), detail=f'length code in `{plv}`, mask flag in {flags}',
           discr='decoder-mask-bit')
    # (by evaluation: a 5-byte payload with and without masking; the first byte appended to the tail must be 5|128 resp. 5)
    from sa import concrete
    ge = enc.cfg()
    apps = [n for n in ge.nodes if n.kind == 'stmt' and any(True for _r, _c in pat.method_calls(n.ast, 'append'))]
    got_ = {}
    for m_ in (True, False):
        env_, at_ = concrete.run(enc, {enc.params[1]: concrete.Sized(5), (enc.params[2] if len(enc.params) > 2 else 'mask'): m_}, stop=lambda n, e: n in apps)
        if at_ in apps:
            c_ = [c for _r, c in pat.method_calls(at_.ast, 'append')][0]
            got_[m_] = concrete.ev(c_.args[0], env_) if c_.args else None
    ok = got_.get(True) == (5 | 128) and got_.get(False) == 5
    chk.ob('b', enc.ref, 'encoder: the mask flag is the high bit of the length byte', ok, loc(enc, enc.node), detail=f'length byte of a 5-byte payload: masked {got_.get(True)}, unmasked {got_.get(False)}',
           discr='encoder-mask-bit')
    # masked ⇒ key emitted and payload xored; unmasked ⇒ payload as is
    genc = enc.cfg()
    mp = enc.params[2]
    keyapp = [n for n in genc.nodes if n.kind == 'stmt' and isinstance(n.ast, ast.AugAssign) and src(n.ast.target) == 'tail' and src(n.ast.value) == 'masking_key']
    plain = [n for n in genc.nodes if n.kind == 'stmt' and isinstance(n.ast, ast.AugAssign) and src(n.ast.target) == 'tail' and src(n.ast.value) == enc.params[1]]
    mT = pat.test_edge(lambda t, pol: pol == 'T' and src(t) == mp)
    mF = pat.test_edge(lambda t, pol: pol == 'F' and src(t) == mp)
    ok = bool(keyapp) and bool(plain) and all(pat.guarded_by(genc, n, mT) is None for n in keyapp) and all(pat.guarded_by(genc, n, mF) is None for n in plain)
    chk.ob('b', enc.ref, 'a masked frame carries its key and a transformed payload; an unmasked frame carries the payload as is', ok, loc(enc, enc.node),
           discr='encoder-mask-branches')
    xor = bool(_xor_loops(enc.node, 'append'))
    unx = bool(_xor_loops(f.node, 'store'))
    chk.ob('b', f.ref, 'masking and unmasking use the same transformation (byte XOR key[i mod 4])', xor and unx, loc(f, f.node), discr='xor-agree')


def rule_c(chk, cls):
    n_sites = 0
    from .common import snapshot_view
    for m in cls.methods.values():
        if getattr(m, 'absorbed', False):
            continue
        m = snapshot_view(m)        # `sock = self._sock` … `sock is None`
        for r, c in pat.method_calls(m.node, '_encode_tail'):
            n_sites += 1
            ok = r == 'self' and len(c.args) == 2 and src(c.args[1]).replace(' ', '') in ('self._sockisNone',)
            chk.ob('c', m.ref, 'the frame is masked iff this endpoint is a client (no server-side socket)', ok, loc(m, c), detail=f'`{src(c)}`',
                   discr=f'mask-iff-client:{m.name}')
    need(n_sites >= 2, f'C17.c: only {n_sites} encode sites, 2 confirmed by hand')
    # … and every frame goes through the encoder: a frame written as a ready-made byte string would bypass the masking decision
    raw = []
    for m in cls.methods.values():
        if getattr(m, 'absorbed', False) or m.name == '_write':
            continue
        for r, c in pat.method_calls(m.node, '_write'):
            if r == 'self' and c.args and isinstance(c.args[0], ast.Constant):
                raw.append((m, c))
    chk.ob('c', cls.methods['_write'].ref, 'no frame is written as a ready-made constant: every frame gets its length byte and mask from the encoder (a client must mask all '
                                           'frames, control frames included)', not raw, loc(raw[0][0], raw[0][1]) if raw else loc(cls.methods['_write'], cls.methods['_write'].node),
           detail='; '.join(f'{m.name}: `{src(c)}`' for m, c in raw), discr='all-frames-through-encoder')


def rule_d(chk, f):
    g = f.cfg()
    comb = [n for n in g.nodes if n.kind == 'stmt' and isinstance(n.ast, ast.Assign) and 'self._pending_payload' in Q.names_used(n.ast.value)
            and src(n.ast.targets[0]) != 'self._pending_payload']
    chk.ob('d', f.ref, 'pending fragments are combined with the frame payload somewhere', bool(comb), loc(f, f.node), discr='combine-exists', nontrivial=False)
    data_T = pat.test_edge(lambda t, pol: pat.fact_matches(pat.compare_fact(t, pol), 'opcode', ('<',), '8') or
                           pat.fact_matches(pat.compare_fact(t, pol), 'opcode', ('<=',), '7'))
    for n in comb:
        q = pat.guarded_by(g, n, data_T)
        chk.ob('d', f.ref, 'pending fragments are prepended to data frames only (a control frame keeps its own payload)', q is None, loc(f, n.ast),
               path=pat.path_lines(q) if q else None, discr='combine-data-only')
    nonfinal = pat.test_edge(lambda t, pol: pol == 'F' and src(t) == 'final')
    for n in g.nodes:
        if n.kind == 'stmt' and ('self' in pat.stores_attr(n.ast, '_pending_payload') or 'self' in pat.stores_attr(n.ast, '_pending_type')):
            q = pat.guarded_by(g, n, lambda e: data_T(e) or nonfinal(e))
            chk.ob('d', f.ref, 'the fragment state is written only for data frames / non-final frames, never in a control branch', q is None, loc(f, n.ast),
                   path=pat.path_lines(q) if q else None,
                   discr=f'pending-write:{src(n.ast.targets[0] if isinstance(n.ast, ast.Assign) else n.ast.target)}:{src(n.ast.value)[:12]}')
    # what is delivered (and what a local names) must not be the reassembly buffer itself when that buffer is changed in place afterwards: the buffer is either
    # replaced by fresh objects only, or never handed out
    aliases = [n for n in g.nodes if n.kind == 'stmt' and isinstance(n.ast, ast.Assign) and src(n.ast.value) == 'self._pending_payload'
               and src(n.ast.targets[0]) != 'self._pending_payload']
    inplace = [n for n in g.nodes if n.kind == 'stmt' and (
        (isinstance(n.ast, ast.AugAssign) and src(n.ast.target) == 'self._pending_payload') or
        any(r == 'self._pending_payload' for m_ in ('clear', 'extend', 'append', 'pop', 'insert', 'remove', 'reverse') for r, _c in pat.method_calls(n.ast, m_)) or
        (isinstance(n.ast, ast.Delete) and any('self._pending_payload[' in src(t) for t in n.ast.targets)))]
    chk.ob('d', f.ref, 'the reassembly buffer is not changed in place while a message may be that very object (a local bound to the buffer is what gets delivered: clearing '
                       'or extending the buffer afterwards changes the delivered message)', not (aliases and inplace), loc(f, (inplace or aliases or [g.entry])[0].ast)
           if (inplace or aliases) else loc(f, f.node), detail='; '.join(f'`{n.text[:50]}`' for n in aliases + inplace), discr='buffer-not-aliased')
    # a complete data message resets the fragment state and is delivered
    deliver = [n for n in g.nodes if n.kind == 'stmt' and any(r == 'msgs' for r, _c in pat.method_calls(n.ast, 'append'))]
    rs = [n for n in g.nodes if n.kind == 'stmt' and 'self' in pat.stores_attr(n.ast, '_pending_payload') and src(n.ast.value) in ('bytearray()', "b''")]
    ok = bool(deliver) and bool(rs) and all(Q.reachable_without(g, d, avoid_node=lambda n: n in rs) is None or Q.escapes(g, [d], lambda n: n in rs) is None for d in deliver)
    chk.ob('d', f.ref, 'delivering a complete message resets the fragment buffer', ok, loc(f, f.node), discr='deliver-resets')
    for d in deliver:
        q1 = pat.guarded_by(g, d, pat.test_edge(lambda t, pol: pol == 'T' and src(t) == 'final'))
        q2 = pat.guarded_by(g, d, data_T)
        chk.ob('d', f.ref, 'only final data frames deliver a message', q1 is None and q2 is None, loc(f, d.ast), discr='deliver-final-data')


def rule_e(repo, chk, cls, f):
    g = f.cfg()
    rets = [n for n in g.nodes if n.kind == 'stmt' and isinstance(n.ast, ast.Return)]
    lst = None
    for n in g.nodes:
        if n.kind == 'stmt' and isinstance(n.ast, ast.Assign) and isinstance(n.ast.value, ast.List) and not n.ast.value.elts:
            lst = src(n.ast.targets[0])
            break
    need(lst and rets, 'C17.e: _parse_messages has no result list / return')
    for r in rets:
        ok = r.ast.value is not None and src(r.ast.value) == lst
        chk.ob('e', f.ref, 'every return of _parse_messages returns the list of decoded messages', ok, loc(f, r.ast), detail=f'`{r.text}`',
               discr=f'returns-list:{r.text}')
    p = Q.escapes(g, [g.entry], lambda n: n in rets)
    chk.ob('e', f.ref, '_parse_messages never falls off its end (implicit None)', p is None, loc(f, f.node), discr='no-implicit-none')
    # nothing decoded after close received
    firstuse = [n for n in g.nodes if n.kind == 'stmt' and isinstance(n.ast, ast.Assign) and 'self._buffer' in Q.names_used(n.ast.value)]
    for n in firstuse:
        q = pat.guarded_by(g, n, pat.test_edge(lambda t, pol: pol == 'F' and src(t) == 'self._close_received'))
        chk.ob('e', f.ref, 'no data is decoded once a close frame was received', q is None, loc(f, n.ast), discr='decode-guard')
    setc = [n for n in g.nodes if n.kind == 'stmt' and 'self' in pat.stores_attr(n.ast, '_close_received', True)]
    q = None
    for n in setc:
        q = q or pat.guarded_by(g, n, pat.test_edge(lambda t, pol: pat.fact_matches(pat.compare_fact(t, pol), 'opcode', ('==',), '8')))
    chk.ob('e', f.ref, 'a close frame (opcode 8) sets the close-received state', bool(setc) and q is None, loc(f, f.node), discr='close-recorded')
    for n in setc:
        # decoding stops: no message append reachable afterwards
        deliver = [m for m in g.nodes if m.kind == 'stmt' and any(r == lst for r, _c in pat.method_calls(m.ast, 'append'))]
        seen, _ = Q.search([n])
        chk.ob('e', f.ref, 'after a close frame no further message of the same read is delivered', not any(d in seen for d in deliver), loc(f, n.ast),
               discr='close-stops-decoding')
    # the frame loop is left only by its exits that keep the undecoded rest or end decoding for good (close): a `return` from inside the loop drops what
    # follows in the same read
    inner_rets = [r for r in rets if any(k == 'loop' and not getattr(a, '_synthetic_once', False) for k, a in r.ctx)]
    chk.ob('e', f.ref, 'decoding never returns from inside the frame loop (the bytes that follow the current frame in the same read would be dropped)', not inner_rets,
           loc(f, inner_rets[0].ast) if inner_rets else loc(f, f.node), discr='no-return-inside-frame-loop')
    # a close frame ends the stream: what was decoded before it in the same read is delivered before the close event is fired
    closes_ = [n for n in g.nodes if n.kind == 'stmt' and any(pat.event_ctor_name(e) == 'close' for _c, _r, e in pat.fire_calls(n.ast))]
    flush = [n for n in g.nodes if n.kind == 'for' and src(n.ast.iter) == lst and any(pat.event_ctor_name(e) == 'read' for _c, _r, e in pat.fire_calls(n.ast))]
    for n in closes_:
        q = Q.reachable_without(g, n, avoid_node=lambda m: m in flush)
        # nothing is appended between the delivery loop and the close
        late = [d for d in g.nodes if d.kind == 'stmt' and any(r == lst for r, _c in pat.method_calls(d.ast, 'append')) and any(Q.reaches(fl, d) and Q.reaches(d, n) and
                                                                                                                                not Q.reaches(n, fl) for fl in flush)]
        chk.ob('e', f.ref, 'the messages decoded before a close frame are delivered (read events) before the close event is fired', q is None and bool(flush) and not late,
               loc(f, n.ast), path=pat.path_lines(q) if q else None, discr='close-after-reads')
    if flush:
        resets = [n for n in g.nodes if n.kind == 'stmt' and isinstance(n.ast, ast.Assign) and src(n.ast.targets[0]) == lst and isinstance(n.ast.value, ast.List) and not n.ast.value.elts
                  and any(Q.reaches(fl, n) for fl in flush) and n is not g.entry and any(k == 'loop' for k, _a in n.ctx)]
        p = None
        for fl in flush:
            exits_ = [e.dst for e in fl.succ if e.kind == 'F']
            for x in exits_:
                p = p or (Q.escapes(g, [x], lambda m: m in resets) if x not in resets else None)
        chk.ob('e', f.ref, 'messages delivered by the decoder itself are not returned (and delivered) a second time', p is None and bool(resets), loc(f, flush[0].ast),
               discr='delivered-once')
    # pong
    pong = [n for n in g.nodes if n.kind == 'stmt' and isinstance(n.ast, ast.Assign) and "b'\\x8a'" in src(n.ast.value)]
    chk.ob('e', f.ref, 'a ping is answered with a pong frame (FIN + opcode 10)', bool(pong), loc(f, f.node), discr='pong-exists')
    for n in pong:
        q = pat.guarded_by(g, n, pat.test_edge(lambda t, pol: pat.fact_matches(pat.compare_fact(t, pol), 'opcode', ('==',), '9')))
        chk.ob('e', f.ref, 'the pong is sent for ping frames only', q is None, loc(f, n.ast), discr='pong-for-ping')
        fv = src(n.ast.targets[0])
        tails = [m for m in g.nodes if m.kind == 'stmt' and isinstance(m.ast, ast.AugAssign) and src(m.ast.target) == fv and
                 any(True for _r, _c in pat.method_calls(m.ast, '_encode_tail'))]
        wr = [m for m in g.nodes if m.kind == 'stmt' and any(r == 'self' and [src(a) for a in c.args] == [fv] for r, c in pat.method_calls(m.ast, '_write'))]
        p = Q.escapes(g, [n], lambda m: m in wr)
        ok_payload = bool(tails) and all([src(a) for a in c.args][0] == 'msg' for m in tails for _r, c in pat.method_calls(m.ast, '_encode_tail'))
        chk.ob('e', f.ref, 'the pong carries the payload of the ping and is written on every path', ok_payload and p is None and bool(wr), loc(f, n.ast),
               discr='pong-payload')
        q = pat.guarded_by(g, n, pat.test_edge(lambda t, pol: pol == 'F' and src(t) == 'self._close_sent'))
        chk.ob('e', f.ref, 'no pong is written after a close frame was sent', q is None, loc(f, n.ast), discr='pong-close-guard')
    # the close-sent state is what the write guards test: every close frame that is written must be recorded, wherever it is written
    n_close = 0
    for m in cls.methods.values():
        gm = m.cfg()
        for n in gm.nodes:
            if n.kind != 'stmt':
                continue
            cw = [c for r, c in pat.method_calls(n.ast, '_write') if r == 'self' and _written_opcode(m, gm, n, c) == 0x88]
            if not cw:
                continue
            n_close += 1
            chk.touch(m)
            sets = [x for x in gm.nodes if x.kind == 'stmt' and 'self' in pat.stores_attr(x.ast, '_close_sent', True)]
            p = Q.escapes(gm, [n], lambda x: x in sets, exits=('exit',))
            once = pat.guarded_by(gm, n, pat.test_edge(lambda t, pol: pol == 'F' and src(t) == 'self._close_sent'))
            chk.ob('e', m.ref, 'a close frame is written only if none was sent before, and writing it is recorded (so that nothing is sent after it)',
                   p is None and bool(sets) and once is None, loc(m, n.ast), path=pat.path_lines(p or once) if (p or once) else None, discr=f'close-frame-recorded:{m.name}')
    need(n_close >= 1, 'C17.e: no close frame is written anywhere in the codec')
    # write handler
    w = need(cls.methods.get('_on_write'), 'C17.e: write handler missing')
    chk.touch(w)
    from .common import renamed
    w = renamed(w, _writer_roles(w))
    gw = w.cfg()
    outs = [n for n in gw.nodes if n.kind == 'stmt' and any(r == 'self' for r, _c in pat.method_calls(n.ast, '_write'))]
    for n in outs:
        q = pat.guarded_by(gw, n, pat.test_edge(lambda t, pol: pol == 'F' and src(t) == 'self._close_sent'))
        chk.ob('e', w.ref, 'no data frame is written after a close frame was sent', q is None, loc(w, n.ast), discr='write-close-guard')
    # the first byte of the written frame, evaluated for a str and for a non-str payload (sa/concrete.py): 0x81 and 0x82
    from sa import concrete
    got = {}
    tests = [n for n in gw.nodes if n.kind == 'test' and isinstance(n.ast, ast.Call) and call_name(n.ast) == 'isinstance' and len(n.ast.args) == 2 and src(n.ast.args[1]) == 'str']
    fv = None
    for n in outs:
        for _r, c in pat.method_calls(n.ast, '_write'):
            if c.args and isinstance(c.args[0], ast.Name):
                fv = c.args[0].id

    def first_byte_expr(n):
        a = n.ast
        if n.kind != 'stmt':
            return None
        if isinstance(a, ast.Expr) and isinstance(a.value, ast.Call) and src(a.value.func) == f'{fv}.append' and len(a.value.args) == 1:
            return a.value.args[0]
        if isinstance(a, ast.Assign) and src(a.targets[0]) == fv and isinstance(a.value, ast.Call) and call_name(a.value) == 'bytearray' and len(a.value.args) == 1 \
                and isinstance(a.value.args[0], (ast.List, ast.Tuple)) and a.value.args[0].elts:
            return a.value.args[0].elts[0]
        return None
    for t in tests[:1]:
        for isstr in (True, False):
            env = {'$' + src(t.ast): isstr}
            # the opening byte may be prepared before the test (`first = 0x80`): plain constant assignments of the handler are part of the environment
            for n in gw.nodes:
                if n.kind == 'stmt' and isinstance(n.ast, ast.Assign) and len(n.ast.targets) == 1 and isinstance(n.ast.targets[0], ast.Name) and isinstance(n.ast.value, ast.Constant) \
                        and isinstance(n.ast.value.value, int) and Q.reaches(n, t) and not Q.reaches(t, n):
                    env[n.ast.targets[0].id] = n.ast.value.value
            env2, at = concrete.run(w, env, stop=lambda n, _e: first_byte_expr(n) is not None, start=t)
            e_ = first_byte_expr(at) if at is not None else None
            got[isstr] = concrete.ev(e_, env2) if e_ is not None else None
    ok = got.get(True) == 0x81 and got.get(False) == 0x82
    chk.ob('e', w.ref, 'written frames are FIN frames with opcode 1 (text) for str and 2 (binary) otherwise', ok, loc(w, w.node),
           detail=f'first byte: str -> {got.get(True)!r}, other -> {got.get(False)!r}', discr='write-opcodes')
    txt = [n for n in gw.nodes if n.kind == 'stmt' and isinstance(n.ast, ast.AugAssign) and src(n.ast.target) == 'first' and src(n.ast.value) == '1']
    for n in txt:
        q = pat.guarded_by(gw, n, pat.test_edge(lambda t, pol: pol == 'T' and isinstance(t, ast.Call) and call_name(t) == 'isinstance' and len(t.args) == 2 and src(t.args[1]) == 'str'))
        chk.ob('e', w.ref, 'the text opcode is used for str payloads only', q is None, loc(w, n.ast), discr='text-for-str')
    # the codec writes (pong) and delivers on channels it only knows once it is registered: nothing is decoded in the constructor
    ini = cls.methods['__init__']
    early = [c for c in calls_in(ini.node) if isinstance(c.func, ast.Attribute) and src(c.func.value) == 'self' and c.func.attr in ('_parse_messages', '_write', 'fire', 'fireEvent')]
    chk.ob('e', ini.ref, 'the constructor decodes nothing (bytes that came with the handshake are kept for the registered handler): a ping among them must be answered '
                         'on the parent\'s channel, which is unknown before registration', not early, loc(ini, early[0]) if early else loc(ini, ini.node),
           detail='; '.join(src(c)[:50] for c in early), discr='no-decoding-before-registration')
    regh = cls.methods.get('_on_registered')
    okr = regh is not None and any(isinstance(c.func, ast.Attribute) and c.func.attr == '_parse_messages' for c in calls_in(regh.node))
    keeps = any(isinstance(n, ast.Assign) and src(n.targets[0]) == 'self._buffer' and ini.params[2] in Q.names_used(n.value) for n in walk_no_defs(ini.node)) if len(ini.params) > 2 else False
    chk.ob('e', ini.ref, 'the bytes given to the constructor become the initial carry and are decoded when the codec is registered', okr and keeps,
           loc(ini, ini.node), discr='initial-bytes-decoded-on-registration')
    cl = need(cls.methods.get('_on_close'), 'C17.e: close handler missing')
    chk.touch(cl)
    gc = cl.cfg()
    sent = [n for n in gc.nodes if n.kind == 'stmt' and 'self' in pat.stores_attr(n.ast, '_close_sent', True)]
    cw = [n for n in gc.nodes if n.kind == 'stmt' and any(r == 'self' and _written_opcode(cl, gc, n, c) == 0x88 for r, c in pat.method_calls(n.ast, '_write'))]
    ok = bool(sent) and bool(cw) and all(pat.guarded_by(gc, n, pat.test_edge(lambda t, pol: pol == 'F' and src(t) == 'self._close_sent')) is None for n in cw)
    chk.ob('e', cl.ref, 'the close frame is written once and recorded as sent', ok, loc(cl, cl.node), discr='close-sent-once')
