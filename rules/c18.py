"""C18 — the line protocol is segmentation-invariant; IRC messages are exactly one line.

a  splitLines splits carry + new data (in that order) and returns all pieces but the last as lines, the last as the new carry
b  Line._on_read: client mode keeps the carry in self.buffer; server mode reads and writes the carry of *that socket*
   through the callbacks; lines are fired in order, one event per line
c  every value that reaches the serialised IRC line (each argument, the command, the prefix) is rejected when it contains
   CR or LF; the check runs in the constructor and again when serialising
d  the serialised line ends with exactly one CRLF and the template contains no other line break
"""

import ast

from sa import AnalysisError, pat
from sa import query as Q
from sa.model import call_name, calls_in, src, walk_no_defs

from .common import IRC_MESSAGE, LINE, loc, need

MIN_OBLIGATIONS = 14


def run(repo, chk):
    chk.not_decided = ['parse ∘ serialise identity (parsemsg)', 'multi-byte characters split across reads are kept as bytes until decoded by the user',
                       'custom splitter functions supplied by the application']
    chk.rule('C18.a', 'splitLines: regex split of buffer + data; last piece retained')
    chk.rule('C18.b', 'Line keeps one carry per stream: self.buffer (client) or getBuffer/updateBuffer for the same socket (server)')
    chk.rule('C18.c', 'CR and LF are rejected in every field that is formatted into the IRC line; checked at construction and serialisation')
    chk.rule('C18.d', 'exactly one CRLF terminates the serialised IRC line')
    rule_a(repo, chk)
    rule_b(repo, chk)
    rule_c_d(repo, chk)
    rule_cmds(repo, chk)
    rule_parse(repo, chk)
    rule_carry_lifetime(repo, chk)


def rule_a(repo, chk):
    f = repo.func(LINE, 'splitLines')
    chk.touch(f)
    s, buf = f.params[0], f.params[1]
    splits = [c for c in calls_in(f.node) if isinstance(c.func, ast.Attribute) and c.func.attr == 'split']
    need(splits, 'C18.a: splitLines does not split')
    c = splits[0]
    ok = len(c.args) >= 1 and src(c.args[0]).replace(' ', '') == f'{buf}+{s}'
    chk.ob('a', f.ref, 'the split runs over carry + new data, carry first', ok, loc(f, c), detail=f'`{src(c)}`', discr='carry-plus-data')
    sep = src(c.func.value)
    m = repo.module(LINE)
    pat_ok = False
    for n in m.tree.body:
        if isinstance(n, ast.Assign) and src(n.targets[0]) == sep and isinstance(n.value, ast.Call) and call_name(n.value) == 're.compile':
            a = n.value.args[0]
            pat_ok = isinstance(a, ast.Constant) and a.value in (b'\r?\n', b'\r\n|\n')
    chk.ob('a', f.ref, 'lines end at LF or CRLF', pat_ok, loc(f, c), discr='separator')
    lv = None
    for n in walk_no_defs(f.node):
        if isinstance(n, ast.Assign) and n.value is c and isinstance(n.targets[0], ast.Name):
            lv = src(n.targets[0])
    rets = [n for n in walk_no_defs(f.node) if isinstance(n, ast.Return)]
    ok = bool(rets) and lv is not None and all(src(r.value).replace(' ', '') == f'({lv}[:-1],{lv}[-1])' for r in rets)
    if lv is None:
        # `*complete, remainder = SEP.split(…)`; `return complete, remainder`
        for n in walk_no_defs(f.node):
            if isinstance(n, ast.Assign) and n.value is c and isinstance(n.targets[0], ast.Tuple) and len(n.targets[0].elts) == 2 \
                    and isinstance(n.targets[0].elts[0], ast.Starred) and isinstance(n.targets[0].elts[0].value, ast.Name) and isinstance(n.targets[0].elts[1], ast.Name):
                a_, b_ = n.targets[0].elts[0].value.id, n.targets[0].elts[1].id
                stores = [w for w in walk_no_defs(f.node) if isinstance(w, ast.Name) and isinstance(w.ctx, ast.Store) and w.id in (a_, b_)]
                ok = bool(rets) and len(stores) == 2 and all(src(r.value).replace(' ', '') in (f'({a_},{b_})', f'{a_},{b_}') for r in rets)
    chk.ob('a', f.ref, 'all pieces but the last are lines; the last (unterminated) piece is the new carry', ok, loc(f, f.node), discr='last-retained')
    if len(c.args) > 1 or c.keywords:
        chk.ob('a', f.ref, 'the split is not limited (every line of the read is produced)', False, loc(f, c), discr='no-maxsplit')


def rule_b(repo, chk):
    f = repo.func(LINE, 'Line._on_read')
    chk.touch(f)
    g = f.cfg()
    calls = [n for n in g.nodes if n.kind == 'stmt' and isinstance(n.ast, ast.Assign) and isinstance(n.ast.value, ast.Call) and call_name(n.ast.value) == 'self.splitter']
    need(len(calls) == 2, f'C18.b: {len(calls)} splitter calls in Line._on_read, 2 (client, server) confirmed by hand')
    for n in calls:
        c = n.ast.value
        args = [src(a) for a in c.args]
        tg = [src(t) for t in n.ast.targets[0].elts] if isinstance(n.ast.targets[0], ast.Tuple) else []
        # the carry argument, seen through a local (`pending = self.getBuffer(sock); … self.splitter(data, pending)`)
        if len(c.args) == 2 and isinstance(c.args[1], ast.Name):
            defs = Q.reaching_defs(g, n, c.args[1].id)
            vals = {src(d.ast.value) for d in defs if d.kind == 'stmt' and isinstance(d.ast, ast.Assign) and len(d.ast.targets) == 1 and isinstance(d.ast.targets[0], ast.Name)}
            if len(defs) == 1 and len(vals) == 1:
                args[1] = vals.pop()
        server = any('getBuffer' in a for a in args)
        if not server:
            ok = len(args) == 2 and args[1] == 'self.buffer' and len(tg) == 2 and tg[1] == 'self.buffer'
            chk.ob('b', f.ref, 'client mode: the carry is read from and written back to self.buffer', ok, loc(f, c), detail=f'`{n.text}`', discr='client-carry')
            lv = tg[0] if tg else None
        else:
            sv = None
            for m in walk_no_defs(f.node):
                if isinstance(m, ast.Assign) and isinstance(m.targets[0], ast.Tuple) and len(m.targets[0].elts) == 2 and src(m.value) == f.node.args.vararg.arg:
                    sv = src(m.targets[0].elts[0])
            ok = len(args) == 2 and args[1] == f'self.getBuffer({sv})'
            chk.ob('b', f.ref, 'server mode: the carry is fetched for the socket the data arrived on', ok, loc(f, c), detail=f'`{n.text}`', discr='server-carry-read')
            upd = [m for m in g.nodes if m.kind == 'stmt' and any(r == 'self' and len(c2.args) == 2 and src(c2.args[0]) == sv and len(tg) == 2 and src(c2.args[1]) == tg[1]
                                                                for r, c2 in pat.method_calls(m.ast, 'updateBuffer'))]
            p = Q.escapes(g, [n], lambda m: m in upd, exc=())
            chk.ob('b', f.ref, 'server mode: the new carry is stored for the same socket on every path', p is None and bool(upd), loc(f, c),
                   path=pat.path_lines(p, n) if p else None, discr='server-carry-write')
            lv = tg[0] if tg else None
        # lines fired in order
        fired = False
        for m in g.nodes:
            if m.kind == 'stmt' and Q.reaches(n, m):
                for w in walk_no_defs(m.ast):
                    if isinstance(w, (ast.ListComp, ast.GeneratorExp)) and len(w.generators) == 1 and src(w.generators[0].iter) == lv and not w.generators[0].ifs \
                            and any(pat.event_ctor_name(e) == 'line' for _c, _r, e in pat.fire_calls(w.elt)):
                        fired = True
                if isinstance(m.ast, ast.Expr) and False:
                    pass
            if m.kind == 'for' and src(m.ast.iter) == lv and any(pat.event_ctor_name(e) == 'line' for _c, _r, e in pat.fire_calls(m.ast)):
                fired = True
        chk.ob('b', f.ref, f'{"server" if server else "client"} mode: one line event per line, in order, none filtered', fired, loc(f, c),
               discr=f'{"server" if server else "client"}-lines-fired')


def rule_carry_lifetime(repo, chk):
    """The client-mode carry is per connection: it is emptied when the connection ends."""
    chk.rule('C18.g', 'the client-mode carry (Line.buffer) does not outlive its connection: a handler of the client-side `disconnected` event empties it on every path')
    cls = repo.cls(LINE, 'Line')
    hs = [m for m in cls.methods.values() if m.handler is not None and 'disconnected' in m.handler.names and not getattr(m, 'absorbed', False)]
    chk.ob('g', cls.ref if hasattr(cls, 'ref') else LINE, 'Line handles the end of the client connection', bool(hs), f'{LINE}:{cls.node.lineno}', discr='handles-disconnected')
    for m in hs:
        chk.touch(m)
        g = m.cfg()
        clr = [n for n in g.nodes if n.kind == 'stmt' and any(r == 'self' and a == 'buffer' and isinstance(v, ast.Constant) and v.value == b'' for r, a, v in pat.attr_store(n.ast))]
        p = Q.escapes(g, [g.entry], lambda n: n in clr, exc=())
        chk.ob('g', m.ref, 'the carry is emptied when the connection ends, on every path', p is None and bool(clr), loc(m, m.node),
               path=pat.path_lines(p) if p else None, discr='carry-reset-on-disconnect')


def rule_c_d(repo, chk):
    cls = repo.cls(IRC_MESSAGE, 'Message')
    chkf = need(cls.methods.get('_check_args'), 'C18.c: Message._check_args missing')
    st = need(cls.methods.get('__str__'), 'C18.c: Message.__str__ missing')
    init = cls.methods['__init__']
    for f in (chkf, st, init):
        chk.touch(f)
    # fields that reach the formatted line
    fmt = None
    for n in walk_no_defs(st.node):
        if isinstance(n, ast.Return) and n.value is not None:
            fmt = n.value
    need(fmt, 'C18.d: __str__ has no return')
    fields = sorted({a for a in ('self.args', 'self.command', 'self.prefix') if a in Q.names_used(st.node) or a.split('.')[1] in src(st.node)})
    need(len(fields) == 3, f'C18.c: fields reaching the serialised line: {fields}; 3 confirmed by hand')
    # which fields does _check_args cover with a CR/LF rejection?
    covered = {}
    for ch, name in (('\n', 'LF'), ('\r', 'CR')):
        cov = set()
        gk = chkf.cfg()
        for n in gk.nodes:
            # a test atom mentioning the character whose true edge can only end in a raise
            if n.kind == 'test' and any(e.kind == 'T' and (e.dst.kind == 'raise' or (e.dst.kind == 'stmt' and isinstance(e.dst.ast, ast.Raise)) or
                                                            Q.escapes(gk, [e.dst], lambda x: False, exits=('exit',)) is None) for e in n.succ):
                test = n.ast
                if repr(ch)[1:-1] not in src(test):
                    continue
                # the iterable(s) of the generator expressions in the test, resolved through local lists
                for w in ast.walk(test):
                    if isinstance(w, ast.comprehension):
                        cov |= _fields_of(chkf, w.iter)
                    if isinstance(w, ast.Compare) and any(isinstance(o, ast.In) for o in w.ops):
                        for c in w.comparators:
                            cov |= _fields_of(chkf, c)
        covered[name] = cov
    for name in ('LF', 'CR'):
        for fld in fields:
            chk.ob('c', chkf.ref, f'{name} is rejected in `{fld}`', fld in covered[name], loc(chkf, chkf.node), detail=f'{name} checked in {sorted(covered[name])}',
                   discr=f'rejects:{name}:{fld}')
    # fields the line format cannot carry are refused: a space in command / prefix, an empty or ':'-leading middle argument
    gk = chkf.cfg()
    rejecting = [n for n in gk.nodes if n.kind == 'test' and any(e.kind == 'T' and (e.dst.kind == 'raise' or (e.dst.kind == 'stmt' and isinstance(e.dst.ast, ast.Raise)) or
                                                                                  Q.escapes(gk, [e.dst], lambda x: False, exits=('exit',)) is None) for e in n.succ)]
    sp_cov = set()
    mid_empty = mid_colon = False
    for n in rejecting:
        for w in ast.walk(n.ast):
            if isinstance(w, ast.Compare) and len(w.ops) == 1 and isinstance(w.ops[0], ast.In) and isinstance(w.left, ast.Constant) and w.left.value == ' ':
                sp_cov |= _fields_of(chkf, w.comparators[0])
                for gen in [x for x in ast.walk(n.ast) if isinstance(x, ast.comprehension)]:
                    if src(gen.target) == src(w.comparators[0]):
                        sp_cov |= _fields_of(chkf, gen.iter)
            if isinstance(w, (ast.GeneratorExp, ast.ListComp)) and len(w.generators) == 1 and src(w.generators[0].iter).replace(' ', '') == 'self.args[:-1]':
                tv = src(w.generators[0].target)
                for x in ast.walk(w.elt):
                    if isinstance(x, ast.UnaryOp) and isinstance(x.op, ast.Not) and src(x.operand) == tv:
                        mid_empty = True
                    if isinstance(x, ast.Compare) and src(x).replace(' ', '').replace('"', "'") in (f"{tv}==''", f"len({tv})==0"):
                        mid_empty = True
                    if isinstance(x, ast.Call) and src(x).replace('"', "'") == f"{tv}.startswith(':')":
                        mid_colon = True
                    if isinstance(x, ast.Compare) and src(x).replace(' ', '').replace('"', "'") in (f"{tv}[:1]==':'", f"{tv}[0]==':'"):
                        mid_colon = True
    # loop form: `for arg in self.args[:-1]: if not arg or arg.startswith(':'): raise`
    for n in rejecting:
        lp = [a for k, a in n.ctx if k == 'loop' and isinstance(a, ast.For) and src(a.iter).replace(' ', '') == 'self.args[:-1]']
        if lp:
            tv = src(lp[0].target)
            if (isinstance(n.ast, ast.Name) and False) or src(n.ast).replace('"', "'") == f"{tv}.startswith(':')":
                mid_colon = True
    for n in gk.nodes:
        if n.kind == 'test':
            lp = [a for k, a in n.ctx if k == 'loop' and isinstance(a, ast.For) and src(a.iter).replace(' ', '') == 'self.args[:-1]']
            if lp and src(n.ast) == src(lp[0].target) and any(e.kind == 'F' and (e.dst.kind == 'raise' or (e.dst.kind == 'stmt' and isinstance(e.dst.ast, ast.Raise))) for e in n.succ):
                mid_empty = True
    for fld in ('self.command', 'self.prefix'):
        chk.ob('c', chkf.ref, f'a space in `{fld}` is rejected (it would shift the fields of the line)', fld in sp_cov, loc(chkf, chkf.node), discr=f'rejects:space:{fld}')
    chk.ob('c', chkf.ref, 'an empty middle argument is rejected (nothing of it would be on the wire)', mid_empty, loc(chkf, chkf.node), discr='rejects:empty-middle')
    chk.ob('c', chkf.ref, 'a middle argument starting with ":" is rejected (it would be taken for the trailing argument)', mid_colon, loc(chkf, chkf.node),
           discr='rejects:colon-middle')
    # the check runs at construction (after the fields are set) and at serialisation (before formatting)
    gi = init.cfg()
    ck = [n for n in gi.nodes if n.kind == 'stmt' and any(r == 'self' for r, _c in pat.method_calls(n.ast, '_check_args'))]
    sets = [n for n in gi.nodes if n.kind == 'stmt' and any(recv == 'self' and a in ('args', 'command', 'prefix') for recv, a, _v in pat.attr_store(n.ast))]
    p = Q.escapes(gi, [gi.entry], lambda n: n in ck)
    late = any(Q.reaches(c, s) for c in ck for s in sets)
    chk.ob('c', init.ref, 'the constructor checks the fields after setting them, on every path', p is None and bool(ck) and not late, loc(init, init.node),
           discr='checked-at-construction')
    gs = st.cfg()
    ck = [n for n in gs.nodes if n.kind == 'stmt' and any(r == 'self' for r, _c in pat.method_calls(n.ast, '_check_args'))]
    rets = [n for n in gs.nodes if n.kind == 'stmt' and isinstance(n.ast, ast.Return)]
    ok = bool(ck) and all(Q.reachable_without(gs, r, avoid_node=lambda n: n in ck) is None for r in rets)
    chk.ob('c', st.ref, 'serialisation re-runs the check (fields are mutable) before formatting', ok, loc(st, st.node), discr='checked-at-serialisation')
    # the check only looks at text (isinstance(value, str) filters): what is formatted must be the checked values themselves, and they must be text
    filt = any(isinstance(w, ast.comprehension) and any('isinstance' in src(i) and 'str' in src(i) for i in w.ifs) for w in ast.walk(chkf.node))
    # the local holding the arguments that are joined into the line: the operand of `' '.join(…)` in the formatted result
    av_ = 'args'
    for c_ in calls_in(fmt):
        if isinstance(c_.func, ast.Attribute) and c_.func.attr == 'join' and isinstance(c_.func.value, ast.Constant) and c_.args and isinstance(c_.args[0], ast.Name):
            av_ = c_.args[0].id
    arg_defs = [n for n in gs.nodes if n.kind == 'stmt' and isinstance(n.ast, ast.Assign) and len(n.ast.targets) == 1 and isinstance(n.ast.targets[0], ast.Name)
                and src(n.ast.targets[0]) == av_]
    plain = bool(arg_defs) and all(src(n.ast.value).replace(' ', '') in ('self.args[:]', 'list(self.args)', 'self.args', 'self.args.copy()') for n in arg_defs)
    chk.ob('c', st.ref, 'the arguments formatted into the line are the checked `self.args` themselves (a copy), not a re-decoded or otherwise derived list',
           plain, loc(st, arg_defs[0].ast if arg_defs else st.node), detail='; '.join(src(n.ast) for n in arg_defs), discr='formatted-are-checked')
    # the trailing marker: the last argument gets a ':' in front whenever it could not be told from the middle arguments otherwise — it contains a space, or is empty
    marks = [n for n in gs.nodes if n.kind == 'stmt' and isinstance(n.ast, ast.Assign) and src(n.ast.targets[0]) == f'{av_}[-1]' and
             isinstance(n.ast.value, ast.JoinedStr) and n.ast.value.values and isinstance(n.ast.value.values[0], ast.Constant) and n.ast.value.values[0].value == ':']
    lasts = {f'{av_}[-1]'} | {n.ast.targets[0].id for n in gs.nodes if n.kind == 'stmt' and isinstance(n.ast, ast.Assign) and len(n.ast.targets) == 1 and
                               isinstance(n.ast.targets[0], ast.Name) and src(n.ast.value) == f'{av_}[-1]'}     # the last argument, also through a local
    colon_T = pat.test_edge(lambda tt, pol: pol == 'T' and any(src(tt).replace('"', "'") == f"{last}.startswith(':')" for last in lasts))
    for label, edges in (('space', [e for n in gs.nodes if n.kind == 'test' for e in n.succ for last in lasts if pat.fact_matches(pat.compare_fact(n.ast, e.kind), "' '", ('in',), last)]),
                         ('empty', [e for n in gs.nodes if n.kind == 'test' for e in n.succ for last in lasts
                                    if (e.kind == 'F' and src(n.ast) == last) or pat.fact_matches(pat.compare_fact(n.ast, e.kind), last, ('==',), "''")
                                    or pat.fact_matches(pat.compare_fact(n.ast, e.kind), f'len({last})', ('==',), '0')])):
        okm = bool(marks) and bool(edges) and all(e.dst in marks or Q.escapes(gs, [e.dst], lambda n: n in marks, avoid_edge=colon_T) is None for e in edges)
        chk.ob('d', st.ref, f'a last argument that {"contains a space" if label == "space" else "is empty"} is marked as trailing (":" in front) on every path, unless it '
                            'carries the marker already', okm, loc(st, (marks[0].ast if marks else st.node)), discr=f'trailing-marker:{label}')
    # … and a last argument that itself starts with ':' needs the marker as well (else its first character is eaten as the marker)
    colon_edges = [e for n in gs.nodes if n.kind == 'test' for e in n.succ if colon_T(e)]
    if colon_edges:
        okc = bool(marks) and all(e.dst in marks or Q.escapes(gs, [e.dst], lambda n: n in marks) is None for e in colon_edges)
        chk.ob('d', st.ref, 'a last argument that starts with ":" is marked as trailing like any other (the serialiser does not take the first character of the text '
                            'for a marker the caller wrote)', okc, loc(st, colon_edges[0].src.ast), discr='trailing-marker:colon')
    mk = [n for n in walk_no_defs(init.node) if isinstance(n, ast.Assign) and any(src(t) == 'self.args' for t in n.targets)]
    texty = False
    for n in mk:
        v = n.value
        if isinstance(v, ast.ListComp):
            e = v.elt
            texty = (isinstance(e, ast.IfExp) and 'isinstance' in src(e.test) and 'str' in src(e.test) and
                     ((src(e.body) == src(v.generators[0].target) and '.decode(' in src(e.orelse)) or ('.decode(' in src(e.body) and src(e.orelse) == src(v.generators[0].target)))) \
                or (isinstance(e, ast.Call) and call_name(e) == 'str')
    chk.ob('c', init.ref, 'the constructor turns every argument into text (bytes are decoded), so the text-only check sees all of them', texty or not filt,
           loc(init, mk[0] if mk else init.node), discr='args-are-text')
    b = cls.methods.get('__bytes__')
    if b is not None:
        ok = any(src(c).startswith('str(self)') for c in calls_in(b.node))
        chk.ob('c', b.ref, '__bytes__ goes through __str__ (and therefore through the check)', ok, loc(b, b.node), discr='bytes-via-str', nontrivial=False)
    # d: template
    tmpl = None
    if isinstance(fmt, ast.Call) and isinstance(fmt.func, ast.Attribute) and fmt.func.attr == 'format' and isinstance(fmt.func.value, ast.Constant):
        tmpl = fmt.func.value.value
    elif isinstance(fmt, ast.JoinedStr):
        tmpl = ''.join(v.value if isinstance(v, ast.Constant) else '{}' for v in fmt.values)
    ok = isinstance(tmpl, str) and tmpl.endswith('\r\n') and tmpl.count('\r') == 1 and tmpl.count('\n') == 1
    chk.ob('d', st.ref, 'the line template ends with exactly one CRLF and contains no other line break', ok, loc(st, fmt), detail=repr(tmpl), discr='one-crlf')
    # constants mixed into the line (prefix colon, separators) contain no line breaks
    own = {id(v) for v in fmt.values} if isinstance(fmt, ast.JoinedStr) else set()       # the literal pieces of the template itself
    consts = [n.value for n in ast.walk(st.node) if isinstance(n, ast.Constant) and isinstance(n.value, str) and n.value != tmpl and id(n) not in own]
    chk.ob('d', st.ref, 'no other constant of the serialiser contains a line break', not any('\r' in c or '\n' in c for c in consts), loc(st, st.node),
           discr='no-other-breaks')


def rule_cmds(repo, chk):
    """Every IRC command constructor builds its line through Message (and therefore through the check), and the
    protocol writes bytes(message) — the serialiser — never a hand-formatted line."""
    chk.rule('C18.e', 'every IRC command constructor returns request(Message(...)); the protocol writes bytes(message)')
    m = repo.module('circuits/protocols/irc/commands.py')
    n_cmds = 0
    for f in m.functions.values():
        if f.name.startswith('_'):
            continue
        n_cmds += 1
        rets = [n for n in walk_no_defs(f.node) if isinstance(n, ast.Return)]
        ok = bool(rets) and all(isinstance(r.value, ast.Call) and call_name(r.value) == 'request' and r.value.args and isinstance(r.value.args[0], ast.Call)
                                and call_name(r.value.args[0]) == 'Message' for r in rets)
        # arguments are passed on unmodified (no pre-formatting that could hide a line break in a constant)
        consts = [c.value for r in rets for c in ast.walk(r) if isinstance(c, ast.Constant) and isinstance(c.value, str)]
        ok = ok and not any('\r' in c or '\n' in c for c in consts)
        chk.ob('e', f.ref, 'the command is built by Message(...) from its arguments', ok, loc(f, f.node), discr=f'ctor:{f.name}')
        # the command word is the constructor's own name, a constant: no argument value can end up in the command slot
        names = [r.value.args[0].args[0] if (isinstance(r.value, ast.Call) and r.value.args and isinstance(r.value.args[0], ast.Call) and r.value.args[0].args) else None for r in rets]
        okc = bool(names) and all(isinstance(a, ast.Constant) and isinstance(a.value, str) and a.value.upper() == f.name.upper() for a in names)
        chk.ob('e', f.ref, 'the command word of the message is the constant name of the constructor', okc, loc(f, f.node),
               detail='; '.join(src(a) if a is not None else '?' for a in names), discr=f'command-word:{f.name}')
    need(n_cmds >= 15, f'C18.e: only {n_cmds} IRC command constructors found, 20 confirmed by hand')
    p = repo.func('circuits/protocols/irc/protocol.py', 'IRC.request')
    chk.touch(p)
    ws = [c for c, _r, e in pat.fire_calls(p.node) if pat.event_ctor_name(e) == 'write']
    ok = bool(ws) and all(src(c.args[0].args[0]) == f'bytes({p.params[2]})' for c in ws)
    chk.ob('e', p.ref, 'the protocol writes the serialised message (bytes(message)) and nothing else', ok, loc(p, p.node), discr='writes-serialised')


def rule_parse(repo, chk):
    """parsemsg is the inverse of the serialiser for what the serialiser can emit: the trailing argument (after ' :') is the rest of the
    line verbatim; nothing but the line terminator may be cut off."""
    chk.rule('C18.f', 'parsemsg takes the trailing argument verbatim (split at the first " :"), strips nothing but a line terminator, and splits the '
                      'other arguments at spaces')
    f = repo.func('circuits/protocols/irc/utils.py', 'parsemsg')
    chk.touch(f)
    sv = f.params[0]
    # the trailing argument: second result of `s.split(' :', 1)` or third of `s.partition(' :')`
    tv, form, sepv = None, None, None
    for n in walk_no_defs(f.node):
        if isinstance(n, ast.Assign) and isinstance(n.value, ast.Call) and isinstance(n.targets[0], ast.Tuple) and all(isinstance(x, ast.Name) for x in n.targets[0].elts):
            v = src(n.value).replace('"', "'")
            if v == f"{sv}.split(' :', 1)" and len(n.targets[0].elts) == 2:
                tv, form = n.targets[0].elts[1].id, 'split'
            elif v == f"{sv}.partition(' :')" and len(n.targets[0].elts) == 3:
                tv, form, sepv = n.targets[0].elts[2].id, 'partition', n.targets[0].elts[1].id
    strips = []
    for c in calls_in(f.node):
        if isinstance(c.func, ast.Attribute) and c.func.attr in ('strip', 'rstrip', 'lstrip'):
            recv = src(c.func.value)
            if recv == sv or recv == tv or recv.startswith(sv + '.'):
                only_eol = c.func.attr == 'rstrip' and len(c.args) == 1 and isinstance(c.args[0], ast.Constant) and set(c.args[0].value) <= set('\r\n')
                if not only_eol:
                    strips.append(c)
    chk.ob('f', f.ref, 'the line and its trailing argument are not stripped of anything but a line terminator', not strips, loc(f, (strips or [f.node])[0]),
           detail='; '.join(src(c) for c in strips), discr='no-strip')
    ok = tv is not None
    g = f.cfg()
    apps = [n for n in g.nodes if n.kind == 'stmt' and any([src(a) for a in c.args] == [tv] for _r, c in pat.method_calls(n.ast, 'append'))]
    app = bool(apps)
    if form == 'partition' and app:
        # with partition the trailing argument exists iff the separator was found: appended exactly under that test
        sep_T = pat.test_edge(lambda tt, pol: (pol == 'T' and src(tt) == sepv) or pat.fact_matches(pat.compare_fact(tt, pol), sepv, ('!=',), "''"))
        app = all(pat.guarded_by(g, n, sep_T) is None for n in apps)
        found = [e for n in g.nodes if n.kind == 'test' for e in n.succ if sep_T(e)]
        app = app and bool(found) and all(e.dst in apps or Q.escapes(g, [e.dst], lambda n: n in apps) is None for e in found)
    # the trailing text is not re-bound between the split and the append
    stores = [w for w in walk_no_defs(f.node) if isinstance(w, ast.Name) and isinstance(w.ctx, ast.Store) and w.id == tv]
    app = app and len([w for w in stores]) <= (2 if form == 'split' else 1)
    chk.ob('f', f.ref, 'the trailing argument is everything after the first " :" and becomes the last argument as it is', ok and app, loc(f, f.node), discr='trailing-verbatim')
    # the serialiser joins with ' ' and only forbids ' ' inside middle arguments: the parser must split at ' ' and at nothing else
    sp_calls = [c for c in calls_in(f.node) if isinstance(c.func, ast.Attribute) and c.func.attr in ('split', 'rsplit', 'partition', 'rpartition')]
    bare = [c for c in sp_calls if not c.args or not (isinstance(c.args[0], ast.Constant) and isinstance(c.args[0].value, str) and c.args[0].value in (' ', ' :'))]
    chk.ob('f', f.ref, 'parameters are separated at SPACE only (no whitespace-class split: tab, NBSP, U+001F … are data)', bool(sp_calls) and not bare,
           loc(f, (bare or [f.node])[0]), detail='; '.join(src(c) for c in bare), discr='space-only-split')
    m = repo.func(IRC_MESSAGE, 'Message.from_string')
    chk.touch(m)
    # the prefix handed to Message is text: parsemsg returns the *parts* (nick, user, host); they are destructured and joined again, never passed on as they are
    unp = [n for n in walk_no_defs(m.node) if isinstance(n, ast.Assign) and isinstance(n.value, ast.Call) and call_name(n.value) == 'parsemsg' and isinstance(n.targets[0], ast.Tuple)]
    raw = {n.targets[0].elts[0].id for n in unp if n.targets[0].elts and isinstance(n.targets[0].elts[0], ast.Name)}
    mk = [c for c in calls_in(m.node) if call_name(c) == 'Message']
    okp = bool(unp) and bool(mk) and all(not any(k.arg == 'prefix' and isinstance(k.value, ast.Name) and k.value.id in raw and
                                                  not any(isinstance(w, ast.Assign) and any(isinstance(t, ast.Name) and t.id == k.value.id for t in w.targets) and w not in unp
                                                          for w in walk_no_defs(m.node)) for k in c.keywords) for c in mk)
    chk.ob('f', m.ref, 'from_string passes the prefix on as text (the parsed parts are joined again), so that serialising gives the prefix back', okp, loc(m, m.node),
           discr='from-string-prefix')
    ini = repo.func(IRC_MESSAGE, 'Message.__init__')
    gi = ini.cfg()
    bad = []
    for n in gi.nodes:
        if n.kind == 'stmt' and isinstance(n.ast, ast.Assign) and 'self' in pat.stores_attr(n.ast, 'prefix'):
            v = n.ast.value
            for c in calls_in(v):
                if call_name(c) == 'str' and c.args:
                    x = src(c.args[0])
                    # str(x) only where x is known not to be None: conditional expression or branch
                    in_ifexp = any(isinstance(w, ast.IfExp) and c in list(ast.walk(w.body)) and pat.fact_matches(pat.compare_fact(w.test, 'T'), x, ('is not', '!='), 'None')
                                   for w in ast.walk(v)) or \
                        any(isinstance(w, ast.IfExp) and c in list(ast.walk(w.orelse)) and pat.fact_matches(pat.compare_fact(w.test, 'F'), x, ('is not', '!='), 'None')
                            for w in ast.walk(v))
                    guarded = pat.guarded_by(gi, n, pat.test_edge(lambda tt, pol: pat.fact_matches(pat.compare_fact(tt, pol), x, ('is not', '!='), 'None'))) is None
                    if not (in_ifexp or guarded):
                        bad.append(n)
    chk.ob('c', ini.ref, 'a message built without a prefix (or with prefix=None) has no prefix: None is never turned into the text "None"', not bad,
           loc(ini, (bad[0].ast if bad else ini.node)), discr='no-prefix-stays-none')
    ok = any(call_name(c) == 'parsemsg' and [src(a) for a in c.args] == [m.params[0]] for c in calls_in(m.node))
    chk.ob('f', m.ref, 'Message.from_string parses exactly the given line', ok, loc(m, m.node), discr='from-string', nontrivial=False)


def _fields_of(func, e):
    """Message fields an iterable expression ranges over: self.args / self.command / self.prefix, through local lists and slices."""
    out = set()
    names = Q.names_used(e)
    for fld in ('self.args', 'self.command', 'self.prefix'):
        if fld in names:
            # a slice like self.args[:-1] does not cover the whole field
            partial = any(isinstance(w, ast.Subscript) and src(w.value) == fld for w in ast.walk(e))
            if not partial:
                out.add(fld)
    for n in names:
        if '.' not in n:
            for v in pat.local_feeds(func, n):
                out |= _fields_of(func, v)
    return out
