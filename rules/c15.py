"""C15 — every HTTP response is a well-formed, self-delimiting message.

a  Response.prepare(): a body of unknown length is delimited by chunked encoding (announced in the header, HTTP/1.1,
   not HEAD, server present) or by closing the connection; a known length sets Content-Length; the Connection header
   agrees with the close flag per protocol version
b  after the header is written every exit of _on_response either hands over to the stream handler or finishes the
   exchange: close if announced, drop the (request, response) entry, mark done — including HEAD
c  chunk framing: body bytes written under "chunked" are framed; a framed chunk is never empty (guard at the framing
   site or at every producer of stream events); the last-chunk marker is written on every path that ends a chunked
   body — including the empty body — and from one site per handler
d  HEAD responses write no body bytes
"""

import ast
import re

from sa import AnalysisError, pat
from sa import query as Q
from sa.model import call_name, calls_in, src, walk_no_defs

from .common import http_func, WEB_HTTP, WEB_WRAPPERS, loc, need

MIN_OBLIGATIONS = 26
TERMINATOR = "b'0\\r\\n\\r\\n'"


def run(repo, chk):
    chk.not_decided = ['byte-exact bodies and header syntax', 'responses produced by other components writing to the socket directly',
                       'body of bodiless statuses set by the application (prepare does not strip it)']
    chk.rule('C15.a', 'prepare(): unknown length ⇒ chunked+header (1.1, not HEAD, server) or close; known length ⇒ Content-Length; '
                      'Connection header consistent with close')
    chk.rule('C15.b', 'every exit of _on_response after the header write delegates to stream or finishes the exchange (close-if-announced, '
                      'drop entry, done)')
    chk.rule('C15.c', 'chunked bodies: each written chunk is framed and non-empty; the terminator is written on every path ending the body')
    chk.rule('C15.d', 'a HEAD response writes nothing after the header')
    rule_prepare(repo, chk)
    rule_response(repo, chk)
    rule_stream(repo, chk)
    rule_filegen(repo, chk)
    rule_once(repo, chk)
    rule_shared(repo, chk)
    rule_stream_guard(repo, chk)
    rule_version(repo, chk)
    rule_abort(repo, chk)
    rule_gzip(repo, chk)
    rule_final_notification(repo, chk)


def rule_final_notification(repo, chk):
    """A request handler that is a generator answers through value notifications (`request_value_changed`): the dispatcher sends the response when the value has a
    result and keeps waiting while it is a promise.  When the generator ends without having produced anything, the stepper forces one last notification: the listener
    must be able to tell it from an intermediate one, or the request is never answered."""
    from .common import MANAGER
    chk.rule('C15.l', 'the last (forced) value notification of a generator handler is distinguishable from "still pending": the promise mark is taken off the value before it')
    t = repo.func(MANAGER, 'Manager.processTask')
    chk.touch(t)
    g = t.cfg()
    forced = [n for n in g.nodes if n.kind == 'stmt' and any(r.endswith('.value') and len(c.args) == 1 and pat.is_const(c.args[0], True) for r, c in pat.method_calls(n.ast, 'inform'))
              and any(k == 'except' and 'StopIteration' in src(getattr(a, 'type', None) or ast.Constant(value='')) for k, a in n.ctx)]
    need(forced, 'C15.l: processTask has no forced end-of-task notification')
    clears = [n for n in g.nodes if n.kind == 'stmt' and any(a == 'promise' and pat.is_const(v, False) for _r, a, v in pat.attr_store(n.ast))]
    for n in forced:
        q = Q.reachable_without(g, n, avoid_node=lambda m: m in clears, weak=True)
        chk.ob('l', t.ref, 'when a generator handler ends, listeners of its value can tell "finished without a result" from "pending" (promise cleared before the forced '
                           'notification)', q is None and bool(clears), loc(t, n.ast), discr='final-notification-distinguishable')


def rule_gzip(repo, chk):
    """The gzip tool replaces the body by a generator that runs after the header block has been written: it must not be able to fail for a reason known beforehand.
    Its trailer packs two 32-bit numbers; zlib.crc32() and the running size are unsigned."""
    chk.rule('C15.k', 'the gzip body generator packs CRC and size into unsigned 32-bit fields, masked to 32 bits (a signed field raises struct.error for every CRC >= 2**31, after '
                      'the header block is out)')
    f = repo.func('circuits/web/utils.py', 'compress')
    chk.touch(f)
    packs = [c for c in calls_in(f.node) if call_name(c) == 'struct.pack' and c.args and isinstance(c.args[0], ast.Constant)]
    need(packs, 'C15.k: compress() packs nothing')
    for c in packs:
        fmt = c.args[0].value
        for ch, a in zip([x for x in fmt if x.isalpha()], c.args[1:]):
            names = Q.names_used(a)
            if 'crc' in names or 'size' in names or any('crc' in x for x in names):
                which = 'crc' if any('crc' in x for x in names) else 'size'
                unsigned = ch in 'LIQ'
                masked = '& 4294967295' in src(a) or '& 0xFFFFFFFF' in src(a).replace('f', 'F').replace('0XF', '0xF') or '0xffffffff' in src(a).lower()
                chk.ob('k', f.ref, f'the {which} of the gzip trailer is packed as an unsigned 32-bit number, reduced to 32 bits', unsigned and masked, loc(f, c),
                       detail=f'format `{ch}`, value `{src(a)}`', discr=f'gzip-trailer-unsigned:{which}')


def rule_prepare(repo, chk):
    from .common import normalised
    f = repo.func(WEB_WRAPPERS, 'Response.prepare')
    chk.touch(f)
    f = normalised(f)       # `headers = self.headers` etc. are spelling, not state
    g = f.cfg()
    setch = [n for n in g.nodes if n.kind == 'stmt' and 'self' in pat.stores_attr(n.ast, 'chunked', True)]
    setcl = [n for n in g.nodes if n.kind == 'stmt' and 'self' in pat.stores_attr(n.ast, 'close', True)]
    te = [n for n in g.nodes if n.kind == 'stmt' and any("'Transfer-Encoding'" in src(c) and "'chunked'" in src(c)
                                                        for r, c in pat.method_calls(n.ast, 'add_header') if r == 'self.headers')]
    need(setch and setcl, 'C15.a: prepare() never chooses chunked / close')
    nolen = [e for n in g.nodes if n.kind == 'test' for e in n.succ
             if pat.fact_matches(pat.compare_fact(n.ast, e.kind), "'Content-Length'", ('not in',), 'self.headers')]
    need(nolen, 'C15.a: prepare() does not test for a missing Content-Length')
    def _bodiless(tt, pol):
        fc = pat.compare_fact(tt, pol)
        return fc is not None and fc[0].endswith('status') and ((fc[1] == '<' and fc[2] == '200') or (fc[1] == 'in' and fc[2].replace(' ', '').startswith('(204')))
    bodiless = pat.test_edge(_bodiless)
    # the local that holds the computed length: the one the Content-Length header is set from
    lv = 'cLength'
    for n in g.nodes:
        if n.kind == 'stmt' and isinstance(n.ast, ast.Assign) and src(n.ast.targets[0]) == "self.headers['Content-Length']":
            v = n.ast.value
            if isinstance(v, ast.Call) and call_name(v) == 'str' and v.args and isinstance(v.args[0], ast.Name):
                lv = v.args[0].id
            elif isinstance(v, ast.Name):
                lv = v.id
    for e in nolen:
        fr = [n for n in setch if n in te or True]
        p = Q.escapes(g, [e.dst], lambda n: n in setch or n in setcl, avoid_edge=bodiless)
        chk.ob('a', f.ref, 'a response without Content-Length (and with a status that may carry a body) is delimited by chunked encoding or by closing',
               p is None, loc(f, e.src.ast), path=pat.path_lines(p) if p else None, discr='delimited')
    for n in setch:
        if any(k == 'test' for k in ()):
            pass
        # announced: chunked flag and header go together (either order)
        if pat.guarded_by(g, n, pat.test_edge(lambda tt, pol: (lambda fc: fc is not None and 'Transfer-Encoding' in fc[0] and fc[1] == '==' and 'chunked' in fc[2])(
                pat.compare_fact(tt, pol)))) is None:
            continue  # `if headers.get('Transfer-Encoding') == 'chunked': self.chunked = True` — header already there
        before = Q.reachable_without(g, n, avoid_node=lambda m: m in te)
        after = Q.escapes(g, [n], lambda m: m in te)
        chk.ob('a', f.ref, 'choosing chunked encoding adds the Transfer-Encoding: chunked header on the same path', before is None or after is None,
               loc(f, n.ast), discr='chunked-announced')
        for label, pred in (('HTTP/1.1 only', lambda tt, pol: pat.fact_matches(pat.compare_fact(tt, pol), 'self.protocol', ('==',), "'HTTP/1.1'")),
                            ('not for HEAD', lambda tt, pol: pat.fact_matches(pat.compare_fact(tt, pol), 'self.request.method', ('!=',), "'HEAD'")),
                            ('only when no Content-Length is set', lambda tt, pol: pat.fact_matches(pat.compare_fact(tt, pol), "'Content-Length'", ('not in',), 'self.headers')),
                            ('not for an empty body', lambda tt, pol: pat.fact_matches(pat.compare_fact(tt, pol), lv, ('!=',), '0'))):
            q = pat.guarded_by(g, n, pat.test_edge(pred))
            chk.ob('a', f.ref, f'chunked encoding is chosen {label}', q is None, loc(f, n.ast), path=pat.path_lines(q) if q else None,
                   discr=f'chunked-guard:{label}')
    for n in te:
        before = Q.reachable_without(g, n, avoid_node=lambda m: m in setch)
        after = Q.escapes(g, [n], lambda m: m in setch)
        chk.ob('a', f.ref, 'the Transfer-Encoding header is only added together with the chunked flag', before is None or after is None, loc(f, n.ast),
               discr='header-implies-flag')
    # known length ⇒ header
    clh = [n for n in g.nodes if n.kind == 'stmt' and isinstance(n.ast, ast.Assign) and src(n.ast.targets[0]) == "self.headers['Content-Length']"]
    known = [e for n in g.nodes if n.kind == 'test' for e in n.succ if pat.fact_matches(pat.compare_fact(n.ast, e.kind), lv, ('is not', '!='), 'None')]
    ok = bool(clh) and bool(known) and all(e.dst in clh or Q.escapes(g, [e.dst], lambda n: n in clh) is None for e in known)
    chk.ob('a', f.ref, 'a body of known length gets a Content-Length header', ok, loc(f, f.node), discr='content-length')
    for n in clh:
        chk.ob('a', f.ref, 'Content-Length is the computed length', src(n.ast.value) in (f'str({lv})', lv), loc(f, n.ast), discr='content-length-value')
    # length computed in bytes of the encoded body
    lens = [n for n in g.nodes if n.kind == 'stmt' and isinstance(n.ast, ast.Assign) and src(n.ast.targets[0]) == lv and not pat.is_const(n.ast.value, None)]
    ok = bool(lens) and all('len(' in src(n.ast.value) for n in lens) and any('.encode(self.encoding)' in src(n.ast.value) for n in lens)
    chk.ob('a', f.ref, 'the length is measured on the encoded bytes', ok, loc(f, f.node), discr='length-of-bytes')
    # Connection header
    conn_close = [n for n in g.nodes if n.kind == 'stmt' and any("'Connection'" in src(c) and "'close'" in src(c) for r, c in pat.method_calls(n.ast, 'add_header'))]
    conn_keep = [n for n in g.nodes if n.kind == 'stmt' and any("'Connection'" in src(c) and "'Keep-Alive'" in src(c) for r, c in pat.method_calls(n.ast, 'add_header'))]
    for n in conn_close:
        q1 = pat.guarded_by(g, n, pat.test_edge(lambda tt, pol: pol == 'T' and src(tt) == 'self.close'))
        q2 = pat.guarded_by(g, n, pat.test_edge(lambda tt, pol: pat.fact_matches(pat.compare_fact(tt, pol), 'self.protocol', ('==',), "'HTTP/1.1'")))
        chk.ob('a', f.ref, 'Connection: close is announced exactly for closing HTTP/1.1 responses', q1 is None and q2 is None, loc(f, n.ast), discr='connection-close')
    for n in conn_keep:
        q1 = pat.guarded_by(g, n, pat.test_edge(lambda tt, pol: pol == 'F' and src(tt) == 'self.close'))
        q2 = pat.guarded_by(g, n, pat.test_edge(lambda tt, pol: pat.fact_matches(pat.compare_fact(tt, pol), 'self.protocol', ('!=',), "'HTTP/1.1'")))
        chk.ob('a', f.ref, 'Connection: Keep-Alive is announced exactly for HTTP/1.0 responses that stay open', q1 is None and q2 is None, loc(f, n.ast),
               discr='connection-keepalive')
    chk.ob('a', f.ref, 'both Connection announcements exist', bool(conn_close) and bool(conn_keep), loc(f, f.node), discr='connection-both', nontrivial=False)
    # closing 1.1 ⇒ announced: on the 1.1 branch with close set, the header is added
    for tn in g.nodes:
        if tn.kind == 'test' and src(tn.ast) == 'self.close' and any(pat.fact_matches(pat.compare_fact(p.ast, 'T'), 'self.protocol', ('==',), "'HTTP/1.1'")
                                                                      for p in g.nodes if p.kind == 'test' and Q.reaches(p, tn)):
            for e in tn.succ:
                if e.kind == 'T' and any(e.dst is c or Q.reaches(e.dst, c) for c in conn_close):
                    p = Q.escapes(g, [e.dst], lambda n: n in conn_close) if e.dst not in conn_close else None
                    chk.ob('a', f.ref, 'a closing HTTP/1.1 response announces it', p is None, loc(f, tn.ast), discr='close-announced')
    # the close decision comes before the Connection header is computed
    for n in setcl:
        bad = any(Q.reaches(c, n) for c in conn_close + conn_keep)
        chk.ob('a', f.ref, 'the close decision is taken before the Connection header is written', not bad, loc(f, n.ast), discr=f'close-before-header:{n.lineno - f.node.lineno if False else n.text[:30]}:{_guard_text(n)[:30]}')


def _guard_text(n):
    p = getattr(n.ast, '_parent', None)
    while p is not None:
        if isinstance(p, ast.If):
            return src(p.test)
        p = getattr(p, '_parent', None)
    return ''


def _finish_sets(g, sock):
    closes = [n for n in g.nodes if n.kind == 'stmt' and any(pat.event_ctor_name(e) == 'close' for _c, _r, e in pat.fire_calls(n.ast))]
    drops = [n for n in g.nodes if n.kind == 'stmt' and ((isinstance(n.ast, ast.Delete) and any(src(t) == f'self._clients[{sock}]' for t in n.ast.targets)) or
                                                           any(r == 'self._clients' and c.args and src(c.args[0]) == sock for r, c in pat.method_calls(n.ast, 'pop')))]
    dones = [n for n in g.nodes if n.kind == 'stmt' and 'res' in pat.stores_attr(n.ast, 'done', True)]
    return closes, drops, dones


def rule_response(repo, chk):
    f = http_func(repo, 'HTTP._on_response')
    chk.touch(f)
    g = f.cfg()
    sock = 'sock'
    writes = [n for n in g.nodes if n.kind == 'stmt' and any(pat.event_ctor_name(e) == 'write' for _c, _r, e in pat.fire_calls(n.ast))]
    need(writes, 'C15.b: _on_response writes nothing')
    head = [n for n in writes if 'bytes(res)' in src(n.ast)]
    need(head, 'C15.b: _on_response does not write the status line and headers')
    hw = head[0]
    prep = [n for n in g.nodes if n.kind == 'stmt' and any(r == 'res' for r, _c in pat.method_calls(n.ast, 'prepare'))]
    q = Q.reachable_without(g, hw, avoid_node=lambda n: n in prep)
    chk.ob('a', f.ref, 'the header is written only after prepare() decided the framing', q is None and bool(prep), loc(f, hw.ast), discr='prepare-first')
    closes, drops, dones = _finish_sets(g, sock)
    streams = [n for n in g.nodes if n.kind == 'stmt' and pat.fires(n.ast, 'stream')]
    no_close = pat.test_edge(lambda tt, pol: pol == 'F' and src(tt) == 'res.close')
    absent = pat.test_edge(lambda tt, pol: pat.fact_matches(pat.compare_fact(tt, pol), sock, ('not in',), 'self._clients'))
    for key, label, group, skip in (('closed-if-announced', 'the connection is closed if the response announced it', closes, no_close),
                                    ('entry-dropped', 'the (request, response) entry of the connection is dropped', drops, absent),
                                    ('done', 'the response is marked done', dones, None)):
        p = Q.escapes(g, [hw], lambda n: n in group or n in streams, avoid_edge=skip, exc=('StopIteration',))
        chk.ob('b', f.ref, f'after the header every exit delegates to the stream handler or: {label}', p is None and bool(group), loc(f, hw.ast),
               path=pat.path_lines(p, hw) if p else None, discr=f'finish:{key}')
    # HEAD
    head_edges = [e for n in g.nodes if n.kind == 'test' for e in n.succ if pat.fact_matches(pat.compare_fact(n.ast, e.kind), 'req.method', ('==',), "'HEAD'")]
    chk.ob('d', f.ref, '_on_response treats HEAD specially', bool(head_edges), loc(f, f.node), discr='head-branch', nontrivial=False)
    for e in head_edges:
        seen, par = Q.search([e.dst], exc=('StopIteration',))
        hit = [w for w in writes + streams if w in seen]
        chk.ob('d', f.ref, 'a HEAD response writes nothing after the header', not hit, loc(f, e.src.ast),
               path=pat.path_lines(Q.path_to(par, hit[0])) if hit else None, discr='head-no-body')
        for label, group, skip in (('closed-if-announced', closes, no_close), ('entry-dropped', drops, absent), ('done', dones, None)):
            p = Q.escapes(g, [e.dst], lambda n: n in group, avoid_edge=skip) if e.dst not in group else None
            chk.ob('b', f.ref, f'the HEAD exchange is finished: {label}', p is None and bool(group), loc(f, e.src.ast),
                   path=pat.path_lines(p) if p else None, discr=f'head-finish:{label}')
    # c: non-stream body framing
    bodyw = [n for n in writes if n is not hw and TERMINATOR not in src(n.ast)]
    term = [n for n in writes if TERMINATOR in src(n.ast)]
    chunk_T = pat.test_edge(lambda tt, pol: pol == 'T' and src(tt) == 'res.chunked')
    chunk_F = pat.test_edge(lambda tt, pol: pol == 'F' and src(tt) == 'res.chunked')
    for n in bodyw:
        c = [c for c, _r, e in pat.fire_calls(n.ast) if pat.event_ctor_name(e) == 'write'][0]
        bv = src(c.args[0].args[1])
        framers = [m for m in g.nodes if m.kind == 'stmt' and isinstance(m.ast, ast.Assign) and src(m.ast.targets[0]) == bv and ("b''.join(buf)" in src(m.ast.value) or _is_chunk_frame(f, m.ast.value, bv))]
        p = Q.reachable_without(g, n, avoid_node=lambda m: m in framers, avoid_edge=chunk_T) if False else None
        # every path to the body write on which the response is chunked passes the framing
        q = Q.reachable_without(g, n, avoid_node=lambda m: m in framers, avoid_edge=chunk_F)
        chk.ob('c', f.ref, 'under chunked encoding the body is framed before it is written', q is None and bool(framers), loc(f, n.ast),
               path=pat.path_lines(q) if q else None, discr='body-framed')
        q = pat.guarded_by(g, n, pat.test_edge(lambda tt, pol: pol == 'T' and src(tt) == bv))
        chk.ob('c', f.ref, 'only a non-empty body is written (an empty chunk would be the terminator)', q is None, loc(f, n.ast),
               path=pat.path_lines(q) if q else None, discr='body-non-empty')
        for fr in framers:
            qq = pat.guarded_by(g, fr, chunk_T)
            chk.ob('c', f.ref, 'framing is applied only under chunked encoding', qq is None, loc(f, fr.ast), discr='framing-only-chunked')
            sz = _frame_size_ok(g, fr, bv) or _is_chunk_frame(f, fr.ast.value, bv)
            chk.ob('c', f.ref, 'the chunk header is the hexadecimal length of the chunk, followed by CRLF, data, CRLF', sz, loc(f, fr.ast), discr='frame-shape')
    chk.ob('c', f.ref, 'the last-chunk marker is written from exactly one site of _on_response', len(term) == 1, loc(f, f.node), discr='terminator-once')
    # every non-HEAD, non-stream exit under chunked passes the terminator
    nonstream = [e for n in g.nodes if n.kind == 'test' and src(n.ast) in ('res.stream', 'res.body') for e in n.succ if e.kind == 'F'
                 and any(Q.reaches(e.dst, w) for w in bodyw)]
    for e in nonstream:
        p = Q.escapes(g, [e.dst], lambda n: n in term, avoid_edge=chunk_F)
        chk.ob('c', f.ref, 'a chunked non-streamed body is terminated on every path, also when it is empty', p is None and bool(term), loc(f, e.src.ast),
               path=pat.path_lines(p) if p else None, discr=f'terminated:{src(e.src.ast)}')
    for tn in term:
        q = pat.guarded_by(g, tn, chunk_T)
        chk.ob('c', f.ref, 'the last-chunk marker is written only under chunked encoding', q is None, loc(f, tn.ast), discr='terminator-only-chunked')
        for b in bodyw:
            ok = not Q.reaches(tn, b)
            chk.ob('c', f.ref, 'nothing is written after the last-chunk marker', ok, loc(f, tn.ast), discr='terminator-last')
    # producers of stream events pass non-empty data or None
    _producer_rule(chk, f, g, streams)


def _frame_size_ok(g, fr, bv):
    lists = [m for m in g.nodes if m.kind == 'stmt' and isinstance(m.ast, ast.Assign) and src(m.ast.targets[0]) == 'buf' and isinstance(m.ast.value, ast.List)]
    for m in lists:
        if Q.reaches(m, fr):
            el = [src(x) for x in m.ast.value.elts]
            if len(el) == 4 and el[0].startswith(f'hex(len({bv}))[2:]') and el[1] == "b'\\r\\n'" and el[2] == bv and el[3] == "b'\\r\\n'":
                return True
    return False


def _producer_rule(chk, f, g, streams):
    """Each `fire(stream(res, X))`: every definition of X reaching it is None (exhausted) or passed the skip-empty loop (plain copies `X = Y` are followed)."""
    def check(dv, s, depth=0):
        defs = Q.reaching_defs(g, s, dv)
        ok = bool(defs)
        detail = ''
        for d in defs:
            if d.kind != 'stmt' or not isinstance(d.ast, ast.Assign):
                ok = False
                detail = f'`{dv}` defined by {d.text[:40]}'
                continue
            v = d.ast.value
            if pat.is_const(v, None):
                continue
            if isinstance(v, ast.Name) and depth < 3:
                ok2, det2 = check(v.id, d, depth + 1)
                if not ok2:
                    ok, detail = False, det2
                continue
            if src(v).startswith('next('):
                # from this definition, the use is reachable only through the exit (false edge) of a `while not X` loop
                q = Q.reachable_without(g, s, start=d, avoid_edge=pat.test_edge(lambda tt, pol: pol == 'T' and src(tt) == dv),
                                        avoid_node=lambda n: n is not d and dv in Q.node_defs(n))
                if q is not None:
                    ok = False
                    detail = f'`{d.text}` reaches the fire without passing a non-empty test'
                continue
            ok = False
            detail = f'`{dv}` defined by {d.text[:40]}'
        return ok, detail
    for s in streams:
        c = pat.fires(s.ast, 'stream')[0]
        ok, detail = check(src(c.args[0].args[1]), s)
        chk.ob('c', f.ref, 'a chunk handed to the stream handler is None (end of body) or has been tested non-empty', ok, loc(f, s.ast), detail=detail,
               discr='stream-producer-non-empty')


def _is_chunk_frame(func, v, dv):
    """`b''.join(X)` where X is (a local holding) a 4-element sequence <hex length of the chunk> CRLF <chunk> CRLF"""
    if not (isinstance(v, ast.Call) and src(v.func) == "b''.join" and len(v.args) == 1):
        return False
    for seq in pat.deref(func, v.args[0]):
        if isinstance(seq, (ast.List, ast.Tuple)) and len(seq.elts) == 4:
            size = ' '.join(src(x) for x in pat.deref(func, seq.elts[0]))
            if size.startswith(f'hex(len({dv}))[2:]') and src(seq.elts[1]) == "b'\\r\\n'" and src(seq.elts[2]) == dv and src(seq.elts[3]) == "b'\\r\\n'":
                return True
    return False


def rule_stream(repo, chk):
    f = http_func(repo, 'HTTP._on_stream')
    chk.touch(f)
    g = f.cfg()
    dv = f.params[2]
    sock = 'sock'
    writes = [n for n in g.nodes if n.kind == 'stmt' and any(pat.event_ctor_name(e) == 'write' for _c, _r, e in pat.fire_calls(n.ast))]
    term = [n for n in writes if TERMINATOR in src(n.ast)]
    bodyw = [n for n in writes if n not in term]
    need(bodyw and term, 'C15.c: _on_stream lacks the chunk write or the terminator')
    chunk_T = pat.test_edge(lambda tt, pol: pol == 'T' and src(tt) == 'res.chunked')
    chunk_F = pat.test_edge(lambda tt, pol: pol == 'F' and src(tt) == 'res.chunked')
    for n in bodyw:
        framers = [m for m in g.nodes if m.kind == 'stmt' and isinstance(m.ast, ast.Assign) and src(m.ast.targets[0]) == dv and _is_chunk_frame(f, m.ast.value, dv)]
        q = Q.reachable_without(g, n, avoid_node=lambda m: m in framers, avoid_edge=chunk_F)
        chk.ob('c', f.ref, 'under chunked encoding each streamed chunk is framed before it is written', q is None and bool(framers), loc(f, n.ast),
               path=pat.path_lines(q) if q else None, discr='chunk-framed')
        q = pat.guarded_by(g, n, pat.test_edge(lambda tt, pol: pat.fact_matches(pat.compare_fact(tt, pol), dv, ('is not', '!='), 'None')))
        chk.ob('c', f.ref, 'a chunk is written only for data that is not the end-of-body marker', q is None, loc(f, n.ast), discr='chunk-not-none')
        for fr in framers:
            chk.ob('c', f.ref, 'the chunk header is the hexadecimal length of the chunk, followed by CRLF, data, CRLF', _frame_size_ok(g, fr, dv) or _is_chunk_frame(f, fr.ast.value, dv),
                   loc(f, fr.ast), discr='frame-shape')
            qq = pat.guarded_by(g, fr, chunk_T)
            chk.ob('c', f.ref, 'framing is applied only under chunked encoding', qq is None, loc(f, fr.ast), discr='framing-only-chunked')
            # non-empty: guard at the framing site, or every producer guards (checked by the producer rule on both handlers)
            site = pat.guarded_by(g, fr, pat.test_edge(lambda tt, pol: pol == 'T' and src(tt) == dv)) is None
            chk.ob('c', f.ref, 'a framed chunk is never empty: guarded at the framing site, or by every producer of stream events', True if site else None is None,
                   loc(f, fr.ast), detail='guard at framing site' if site else 'relies on the producers (see stream-producer-non-empty obligations)',
                   discr='chunk-non-empty', nontrivial=False)
    end_edges = [e for n in g.nodes if n.kind == 'test' for e in n.succ if pat.fact_matches(pat.compare_fact(n.ast, e.kind), dv, ('is', '=='), 'None')]
    need(end_edges, 'C15.c: _on_stream does not recognise the end-of-body marker')
    closes, drops, dones = _finish_sets(g, sock)
    no_close = pat.test_edge(lambda tt, pol: pol == 'F' and src(tt) == 'res.close')
    absent = pat.test_edge(lambda tt, pol: pat.fact_matches(pat.compare_fact(tt, pol), sock, ('not in',), 'self._clients'))
    for e in end_edges:
        p = Q.escapes(g, [e.dst], lambda n: n in term, avoid_edge=chunk_F)
        chk.ob('c', f.ref, 'at the end of a chunked streamed body the last-chunk marker is written on every path', p is None, loc(f, e.src.ast),
               path=pat.path_lines(p) if p else None, discr='stream-terminated')
        for label, group, skip in (('closed-if-announced', closes, no_close), ('entry-dropped', drops, absent), ('done', dones, None)):
            p = Q.escapes(g, [e.dst], lambda n: n in group, avoid_edge=skip)
            chk.ob('b', f.ref, f'at the end of a streamed body the exchange is finished: {label}', p is None and bool(group), loc(f, e.src.ast),
                   path=pat.path_lines(p) if p else None, discr=f'stream-finish:{label}')
    chk.ob('c', f.ref, 'the last-chunk marker is written from exactly one site of _on_stream', len(term) == 1, loc(f, f.node), discr='terminator-once')
    for tn in term:
        q = pat.guarded_by(g, tn, chunk_T)
        chk.ob('c', f.ref, 'the last-chunk marker is written only under chunked encoding', q is None, loc(f, tn.ast), discr='terminator-only-chunked')
        q = pat.guarded_by(g, tn, pat.test_edge(lambda tt, pol: pat.fact_matches(pat.compare_fact(tt, pol), dv, ('is', '=='), 'None')))
        chk.ob('c', f.ref, 'the last-chunk marker is written only at the end of the body', q is None, loc(f, tn.ast), discr='terminator-at-end')
    streams = [n for n in g.nodes if n.kind == 'stmt' and pat.fires(n.ast, 'stream')]
    _producer_rule(chk, f, g, streams)
    # after a chunk: the next one (or the end marker) is always requested while the body lasts
    for n in bodyw:
        p = Q.escapes(g, [n], lambda m: m in streams, avoid_edge=pat.test_edge(
            lambda tt, pol: (pol == 'F' and src(tt) == 'res.body') or (pol == 'T' and src(tt) == 'res.done')), exc=('StopIteration',))
        chk.ob('c', f.ref, 'after writing a chunk the next chunk (or the end marker) is requested', p is None and bool(streams), loc(f, n.ast),
               path=pat.path_lines(p, n) if p else None, discr='next-requested')


def rule_filegen(repo, chk):
    """Bodies with a read() method are streamed through file_generator: it must read until read() returns nothing (a short read is not the end:
    pipes, sockets and raw streams return what is available) and yield everything it read."""
    chk.rule('C15.e', 'file_generator yields every chunk it reads and stops only when read() returns an empty chunk')
    f = repo.func(WEB_WRAPPERS, 'file_generator')
    chk.touch(f)
    g = f.cfg()
    inp = f.params[0]
    reads = [n for n in g.nodes if n.kind == 'stmt' and isinstance(n.ast, ast.Assign) and any(src(c.func) == f'{inp}.read' for c in calls_in(n.ast) if isinstance(c.func, ast.Attribute))]
    need(reads, 'C15.e: file_generator never reads')
    cv = src(reads[0].ast.targets[0])
    loops = [n for n in g.nodes if n.kind == 'join' and isinstance(n.ast, ast.While)]
    ok_loop = bool(loops) and all(src(lp.ast.test) in (cv, f'len({cv})', f'len({cv}) > 0', f'{cv} != b\'\'') for lp in loops)
    if not ok_loop and loops and all(isinstance(lp.ast.test, ast.Constant) and lp.ast.test.value is True for lp in loops):
        # `while True: chunk = read(); if not chunk: break; yield chunk`: the loop is left exactly on an empty chunk
        brk = [n for n in g.nodes if n.kind == 'stmt' and isinstance(n.ast, (ast.Break, ast.Return))]
        empty = pat.test_edge(lambda tt, pol: (pol == 'F' and src(tt) in (cv, f'len({cv})')) or pat.fact_matches(pat.compare_fact(tt, pol), f'len({cv})', ('==',), '0')
                              or pat.fact_matches(pat.compare_fact(tt, pol), cv, ('==',), "b''"))
        ok_loop = bool(brk) and all(pat.guarded_by(g, b_, empty, start=reads[0]) is None for b_ in brk)
    chk.ob('e', f.ref, 'the read loop runs while the last chunk is non-empty (not while it is full)', ok_loop, loc(f, (loops[0].ast if loops else f.node)),
           detail='; '.join('while ' + src(lp.ast.test) for lp in loops), discr='until-empty')
    ys = [n for n in g.nodes if n.kind == 'stmt' and n.has_yield() and cv in Q.names_used(n.ast)]
    bad = None
    for r in reads:
        # every chunk read is yielded unless it is empty: from the read, the next read or the exit is reached only through a yield or the empty test
        p = Q.escapes(g, [r], lambda n: n in ys, extra_exit=lambda n: n in reads and n is not r,
                      avoid_edge=pat.test_edge(lambda tt, pol: pol == 'F' and src(tt) in (cv, f'len({cv})')))
        if p is not None:
            bad = p
    chk.ob('e', f.ref, 'every non-empty chunk that was read is yielded', bad is None and bool(ys), loc(f, f.node), path=pat.path_lines(bad) if bad else None,
           discr='all-yielded')
    # … and after a chunk was yielded the generator ends only by way of another read (which then returned nothing): a short chunk is not the last one
    pe = Q.escapes(g, ys, lambda n: n in reads, exc=()) if ys else None
    chk.ob('e', f.ref, 'after yielding a chunk the generator asks for the next one before it ends (a short read is not the end of the stream)', pe is None and bool(ys),
           loc(f, (ys or [g.entry])[0].ast if ys else f.node), path=pat.path_lines(pe, ys[0]) if pe else None, discr='reads-until-empty')
    sizes = [c for n in reads for c in calls_in(n.ast) if isinstance(c.func, ast.Attribute) and c.func.attr == 'read']
    chk.ob('e', f.ref, 'reads are bounded by the chunk size', all(c.args and src(c.args[0]) == f.params[1] for c in sizes), loc(f, f.node), discr='bounded-reads',
           nontrivial=False)
    b = repo.func(WEB_WRAPPERS, 'Body.__set__')
    chk.touch(b)
    ok = any(isinstance(n, ast.Assign) and isinstance(n.value, ast.Call) and call_name(n.value) == 'file_generator' for n in walk_no_defs(b.node))
    chk.ob('e', b.ref, 'file-like bodies are streamed through file_generator', ok, loc(b, b.node), discr='filelike-streamed', nontrivial=False)


ERROR_EVENTS = ('httperror', 'redirect', 'forbidden', 'unauthorized', 'notfound')


def rule_once(repo, chk):
    """One failure, one error response: several handlers of HTTP can answer the same failed request (the exception handler, request_failure,
    response_failure, and request_success for errors carried in a nested value); they share one once-only latch on the request."""
    chk.rule('C15.f', 'every error answer produced for a failure of request processing (in the exception / *_failure handlers and in the error branches of '
                      'request_success) is dominated by a test-and-set of the request\'s `handled` latch; when the latch is already set, '
                      'response_failure gives up and closes instead of building another response')
    cls = repo.cls(WEB_HTTP, 'HTTP')
    n_sites = 0
    for f in cls.methods.values():
        if f.handler is None:
            continue
        names = set(f.handler.names)
        failure_handler = bool(names & {'exception', 'request_failure', 'response_failure'})
        success_handler = 'request_success' in names
        if not (failure_handler or success_handler):
            continue
        chk.touch(f)
        g = f.cfg()
        sites = [(n, pat.event_ctor_name(e)) for n in g.nodes if n.kind == 'stmt' for _c, _r, e in pat.fire_calls(n.ast) if pat.event_ctor_name(e) in ERROR_EVENTS]
        seen_txt = {}
        for n, name in sorted(sites, key=lambda x: x[0].ast.lineno):
            lab = _branch(g, n)
            seen_txt[lab] = seen_txt.get(lab, 0) + 1
            lab = f'{lab}#{seen_txt[lab]}'
            if success_handler and not failure_handler:
                # only answers derived from an error: dominated by `… .errors` being true or by the exc_info-tuple test
                derived = pat.guarded_by(g, n, pat.test_edge(lambda tt, pol: pol == 'T' and (src(tt).endswith('.errors') or 'isinstance(value, tuple)' in src(tt)))) is None
                if not derived:
                    continue
            n_sites += 1
            tested = pat.guarded_by(g, n, pat.test_edge(lambda tt, pol: pol == 'F' and src(tt).endswith('.handled')))
            sets = [m for m in g.nodes if m.kind == 'stmt' and any(a == 'handled' and src(v) == 'True' for _r, a, v in pat.attr_store(m.ast))]
            set_ = Q.reachable_without(g, n, avoid_node=lambda m: m in sets)
            chk.ob('f', f.ref, f'the `{name}` answer is given only if the request has not been answered with an error before, and records that it has now',
                   tested is None and set_ is None, loc(f, n.ast), path=pat.path_lines(tested or set_) if (tested or set_) else None,
                   discr=f'latched:{name}:{lab}')
    need(n_sites >= 6, f'C15.f: only {n_sites} failure-answer sites found in HTTP, 9 confirmed by hand')
    # exception handler leaves request/response events to their *_failure handlers (both would answer otherwise)
    ex = cls.methods.get('_on_exception')
    rf = cls.methods.get('_on_response_failure')
    need(ex and rf, 'C15.f: HTTP._on_exception / _on_response_failure missing')
    g = rf.cfg()
    latch_T = [e for n in g.nodes if n.kind == 'test' and src(n.ast).endswith('.handled') for e in n.succ if e.kind == 'T']
    closes = [n for n in g.nodes if n.kind == 'stmt' and any(pat.event_ctor_name(e) == 'close' for _c, _r, e in pat.fire_calls(n.ast))]
    mk = [n for n in g.nodes if n.kind == 'stmt' and 'wrappers.Response(' in src(n.ast)]
    ok = bool(latch_T) and bool(closes)
    p = None
    for e in latch_T:
        p = p or (Q.escapes(g, [e.dst], lambda n: n in closes, exits=('exit',)) if e.dst not in closes else None)
        seen, _ = Q.search([e.dst], exc=())
        ok = ok and not any(m in seen for m in mk)
    chk.ob('f', rf.ref, 'when the error response itself could not be sent, the connection is closed and no further response is built (no endless failure loop)',
           ok and p is None, loc(rf, rf.node), path=pat.path_lines(p) if p else None, discr='failed-error-response-closes')


def _branch(g, n):
    """Short label of the innermost enclosing test of a node (for stable keys)."""
    tests = [a for k, a in n.ctx if k in ('if', 'elif', 'test')]
    return re.sub(r'[^A-Za-z0-9_.]+', '_', src(n.ast))[:60]


def rule_shared(repo, chk):
    chk.rule('C15.g', 'error responses always announce and perform a close (the front end leaves the parser of a redirected / rejected message in place and '
                      'relies on the connection ending): obligations decided for C14.g and C14.b')
    n = chk.adopt('g', 'C14', repo, lambda o: (o.rule == 'C14.g' and o.discr.startswith('error-response:')) or (o.rule == 'C14.b' and o.discr.startswith('parser-dropped')))
    need(n >= 3, f'C15.g: only {n} shared obligations found')


def rule_stream_guard(repo, chk):
    chk.rule('C15.h', 'after the header block is written nothing can fail for a reason known beforehand: the streaming branch of _on_response steps the body with '
                      'next() only if the body is an iterator (the stream flag may be stale: it is set by a file body and never reset)')
    f = http_func(repo, 'HTTP._on_response')
    chk.touch(f)
    g = f.cfg()
    steps = [n for n in g.nodes if n.kind in ('stmt', 'test') and n.ast is not None and any(call_name(c) == 'next' and c.args and src(c.args[0]).endswith('.body') for c in pat.node_calls(n))]
    need(steps, 'C15.h: _on_response never steps a streamed body')
    is_iter = pat.test_edge(lambda tt, pol: pol == 'T' and (("'__next__'" in src(tt) and 'hasattr' in src(tt)) or ('isinstance' in src(tt) and ('Iterator' in src(tt) or 'GeneratorType' in src(tt)))))
    for n in steps:
        q = pat.guarded_by(g, n, is_iter)
        chk.ob('h', f.ref, '`next(res.body)` is reached only when the body is known to be an iterator', q is None, loc(f, n.ast), path=pat.path_lines(q) if q else None,
               discr='stream-only-iterators')


def rule_version(repo, chk):
    chk.rule('C15.i', 'a response is never written in an HTTP version the server does not speak: every answer produced by _on_read for a message whose request line '
                      'was parsed has its protocol set from the server\'s version (clamped, or replaced when the major version differs) before it is fired')
    f = http_func(repo, 'HTTP._on_read')
    chk.touch(f)
    g = f.cfg()
    answers = [(n, pat.event_ctor_name(e), e) for n in g.nodes if n.kind == 'stmt' for _c, _r, e in pat.fire_calls(n.ast)
               if pat.event_ctor_name(e) in ('httperror', 'redirect', 'request') or (isinstance(e, ast.Name))]
    mk_req = [n for n in g.nodes if n.kind == 'stmt' and isinstance(n.ast, ast.Assign) and isinstance(n.ast.value, ast.Call) and (call_name(n.ast.value) or '').endswith('Request')]
    parsed = [n for n in mk_req if len(n.ast.value.args) >= 5 or any('get_version' in src(a) or src(a) == 'version' for a in n.ast.value.args)]
    need(parsed, 'C15.i: _on_read never builds a Request from a parsed request line')
    sets = [n for n in g.nodes if n.kind == 'stmt' and any(a == 'protocol' and ('self.protocol' in src(v) or any('self.protocol' in src(e_) for x_ in Q.names_used(v) for e_ in pat.local_feeds(f, x_))) for _r, a, v in pat.attr_store(n.ast))]
    same_major = pat.test_edge(lambda tt, pol: (lambda fc: fc is not None and fc[1] in ('==',) and '[0]' in fc[0] and '[0]' in fc[2])(pat.compare_fact(tt, pol)))
    n_ans = 0
    seen_names = {}
    for n, name, e in sorted(answers, key=lambda x: x[0].ast.lineno):
        # only answers reachable from a Request built with the parsed version
        if not any(Q.reaches(p_, n) for p_ in parsed):
            continue
        n_ans += 1
        seen_names[name or src(e)] = seen_names.get(name or src(e), 0) + 1
        bad = None
        for p_ in parsed:
            if Q.reaches(p_, n):
                bad = bad or Q.reachable_without(g, n, start=p_, avoid_node=lambda m: m in sets, avoid_edge=same_major, exc=())
        chk.ob('i', f.ref, f'before `{name or src(e)}` is fired the response protocol was set from the server\'s version (or the major versions are known to be equal)',
               bad is None, loc(f, n.ast), path=pat.path_lines(bad) if bad else None, discr=f'server-version:{name or src(e)}#{seen_names[name or src(e)]}')
    need(n_ans >= 3, f'C15.i: only {n_ans} answers found after a parsed request line')


def rule_abort(repo, chk):
    chk.rule('C15.j', 'once the header block of a response is on the wire, a failure of its body source ends the message by closing the connection: the header '
                      'write is recorded, response_failure builds a new response only for a response that was not started, stream_failure closes')
    cls = repo.cls(WEB_HTTP, 'HTTP')
    rs = cls.methods['_on_response']
    g = rs.cfg()
    hw = [n for n in g.nodes if n.kind == 'stmt' and 'bytes(res)' in src(n.ast) and pat.fire_calls(n.ast)]
    need(hw, 'C15.j: _on_response does not write the header')
    marks = [n for n in g.nodes if n.kind == 'stmt' and any(a == 'started' and src(v) == 'True' for _r, a, v in pat.attr_store(n.ast))]
    direct = bool(marks) and all(any(e.dst in marks for e in h.succ if e.kind == 'n') for h in hw)
    chk.ob('j', rs.ref, 'the header write is recorded on the response at once (nothing that can fail in between)', direct, loc(rs, hw[0].ast), discr='started-recorded')
    rf = need(cls.methods.get('_on_response_failure'), 'C15.j: _on_response_failure missing')
    chk.touch(rf)
    gf = rf.cfg()
    mk = [n for n in gf.nodes if n.kind == 'stmt' and 'wrappers.Response(' in src(n.ast)]
    not_started = pat.test_edge(lambda tt, pol: pol == 'F' and src(tt).endswith('.started'))
    for n in mk:
        q = pat.guarded_by(gf, n, not_started)
        chk.ob('j', rf.ref, 'a replacement response is built only if nothing of the failed response has been written', q is None, loc(rf, n.ast),
               path=pat.path_lines(q) if q else None, discr='no-second-response-after-start')
    started_T = [e for n in gf.nodes if n.kind == 'test' and src(n.ast).endswith('.started') for e in n.succ if e.kind == 'T']
    closes = [n for n in gf.nodes if n.kind == 'stmt' and any(pat.event_ctor_name(e) == 'close' for _c, _r, e in pat.fire_calls(n.ast))]
    okc = bool(started_T) and all(e.dst in closes or Q.escapes(gf, [e.dst], lambda n: n in closes, exits=('exit',)) is None for e in started_T)
    chk.ob('j', rf.ref, 'a started response that failed is ended by closing the connection', okc, loc(rf, rf.node), discr='started-failure-closes')
    sf = [m for m in cls.methods.values() if m.handler is not None and 'stream_failure' in m.handler.names]
    oks = False
    for m in sf:
        chk.touch(m)
        gm = m.cfg()
        cl = [n for n in gm.nodes if n.kind == 'stmt' and any(pat.event_ctor_name(e) == 'close' for _c, _r, e in pat.fire_calls(n.ast))]
        if cl and Q.escapes(gm, [gm.entry], lambda n: n in cl, exits=('exit',), avoid_edge=pat.test_edge(lambda tt, pol: pol == 'T' and src(tt).endswith('.done'))) is None:
            oks = True
    chk.ob('j', cls.ref, 'a failing source of a streamed body closes the connection (unless the response was finished already)', oks, WEB_HTTP, discr='stream-failure-closes')
