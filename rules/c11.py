"""C11 — stream writes arrive in order, each byte once, and close waits for the buffer.

Stream endpoints are discovered by role: classes in net/sockets.py and io/file.py with a handler of the `_write`
readiness event that pops from a buffer (datagram endpoints — UDP — are excluded: a datagram is sent whole or not at all).

a  linear ownership: a payload popped from the buffer is, on every path of the write routine (normal and OSError),
   sent in full, or its unsent tail put back at the front of the same buffer, or put back whole, or the endpoint is
   closed; per errno class: transient ⇒ put back whole, fatal ⇒ error event and/or close
b  FIFO discipline: producers append, the consumer pops from the left, put-backs go to the left
c  close() closes immediately only when the buffer is empty, else records a deferred close that the drain path performs
d  a write registers writer interest; interest is removed when the buffer has drained; closing clears the buffer state
"""

import ast
import re

from sa import AnalysisError, pat
from sa import query as Q
from sa.model import call_name, calls_in, src, walk_no_defs

from .common import FILE, SOCKETS, loc, need

MIN_OBLIGATIONS = 45
TRANSIENT_SOCK = ('EAGAIN', 'EWOULDBLOCK', 'EINTR', 'ENOBUFS')
TRANSIENT_FILE = ('EAGAIN', 'EWOULDBLOCK', 'EINTR', 'ENOBUFS')       # (the property names ENOBUFS for all three kinds of endpoint)
FATAL = ('EPIPE', 'ECONNRESET', 'ENOTCONN', 'EBADF')
ALIAS = {'EAGAIN': 'EWOULDBLOCK', 'EWOULDBLOCK': 'EWOULDBLOCK'}


def canon(e):
    return ALIAS.get(e, e)


def endpoints(repo):
    out = []
    for f in repo.handlers_of('_write'):
        if f.module.relpath not in (SOCKETS, FILE) or f.cls is None:
            continue
        if not any(True for _r, _c in pat.method_calls(f.node, 'popleft')):
            continue
        st = f.cls.lookup_attr('socket_type')
        if (st is not None and src(st) == 'SOCK_DGRAM') or f.cls.name.startswith('UDP'):
            continue
        out.append(f)
    return out


def run(repo, chk):
    chk.not_decided = ['byte equality of what arrives at the peer', 'SSL sockets signalling WANT_WRITE through SSLError',
                       'UDP endpoints (datagrams are not streams)']
    chk.rule('C11.a', 'a popped payload is sent in full, put back (tail or whole) at the front of the same buffer, or the endpoint is '
                      'closed — on every path and for every errno class of the send failure')
    chk.rule('C11.b', 'buffer discipline: append on write, popleft on writability, appendleft on put-back')
    chk.rule('C11.c', 'close is deferred while data is buffered and performed by the drain path')
    chk.rule('C11.f', 'a client endpoint buffers payloads only while connected (a late write must not leak into the next connection)')
    chk.rule('C11.e', 'reading end-of-stream only requests a close (deferred while data is buffered); the read path closes at once only on errors')
    chk.rule('C11.d', 'write ensures writer interest; drained buffer removes it; _close clears buffer and flags')
    eps = endpoints(repo)
    if len(eps) < 3:
        raise AnalysisError(f'C11: only {len(eps)} stream endpoints found by role, 3 (Server, Client, File) confirmed by hand')
    chk.info('stream endpoints: ' + ', '.join(f.cls.ref for f in eps))
    for on_write in eps:
        endpoint(repo, chk, on_write)


def alias_ok(func):
    """A local bound to the buffer (`buf = self._buffers.get(sock)`) stands for the buffer only while the entry it came from is not deleted
    or re-bound in the same function (afterwards the local is a stale deque that nobody else appends to)."""
    for n in walk_no_defs(func.node):
        if isinstance(n, ast.Delete) and any('_buffer' in src(t) for t in n.targets):
            return False
        if isinstance(n, (ast.Assign, ast.AugAssign)):
            for t in (n.targets if isinstance(n, ast.Assign) else [n.target]):
                if isinstance(t, (ast.Subscript, ast.Attribute)) and ('._buffers[' in src(t) or src(t).endswith('._buffer')):
                    return False
        if isinstance(n, ast.Call) and isinstance(n.func, ast.Attribute) and n.func.attr in ('pop', 'clear', 'popitem') and src(n.func.value).endswith('._buffers'):
            return False
    return True


def buffer_fact(func, t, pol, bufs):
    """What a branch edge says about the buffer: 'empty', 'nonempty' or None.
    Recognised spellings of the test: the buffer expression itself (truthiness), a local alias of it, `len(buf) > 0 / == 0 / != 0 / >= 1`,
    and a local that holds the result of such a comparison (`drained = len(buf) == 0; if drained and …`)."""
    def is_buf(e):
        s_ = src(e)
        if s_ in bufs:
            return True
        if isinstance(e, ast.Name) and alias_ok(func):
            return any(src(v) in bufs for v in pat.deref(func, e) if not isinstance(v, ast.Name) or v.id != e.id)
        return False
    if is_buf(t):
        return 'nonempty' if pol == 'T' else 'empty'
    if isinstance(t, ast.Name):
        vs = pat.deref(func, t)
        if len(vs) == 1 and not (isinstance(vs[0], ast.Name) and vs[0].id == t.id) and isinstance(vs[0], (ast.Compare, ast.UnaryOp)):
            return buffer_fact(func, vs[0], pol, bufs)
    if isinstance(t, ast.UnaryOp) and isinstance(t.op, ast.Not):
        r = buffer_fact(func, t.operand, 'T' if pol == 'F' else 'F', bufs)
        return r
    if isinstance(t, ast.Compare) and len(t.ops) == 1 and isinstance(t.ops[0], (ast.In, ast.NotIn)):
        # `sock not in self._buffers`: no entry for the key is an empty buffer
        fc = pat.compare_fact(t, pol)
        if fc is not None and fc[1] == 'not in' and any(b_ in (f'{fc[2]}[{fc[0]}]', f'{fc[2]}.get({fc[0]})') for b_ in bufs):
            return 'empty'
        return None
    if isinstance(t, ast.Compare) and len(t.ops) == 1 and isinstance(t.left, ast.Call) and call_name(t.left) == 'len' and t.left.args and is_buf(t.left.args[0]):
        fc = pat.compare_fact(t, pol)
        if fc is None:
            return None
        op, rhs = fc[1], fc[2]
        if (op, rhs) in (('==', '0'), ('<=', '0'), ('<', '1')):
            return 'empty'
        if (op, rhs) in (('>', '0'), ('!=', '0'), ('>=', '1')):
            return 'nonempty'
    return None


def _buffer_of(on_write):
    for r, c in pat.method_calls(on_write.node, 'popleft'):
        # `pending = self._buffers.get(sock); … pending.popleft()`: the buffer is what the local was bound to
        head = r.split('.')[0].split('[')[0]
        if head != 'self' and r.isidentifier() and alias_ok(on_write):
            vs = [v for v in pat.deref(on_write, ast.Name(id=r, ctx=ast.Load())) if not isinstance(v, ast.Name)]
            if len(vs) == 1:
                t = src(vs[0])
                m_ = re.match(r'^(.*)\.get\((\w+)\)$', t)
                return f'{m_.group(1)}[{m_.group(2)}]' if m_ else t
        return r
    return None


def endpoint(repo, chk, on_write):
    cls = on_write.cls
    is_file = on_write.module.relpath == FILE
    chk.touch(on_write)
    buf = _buffer_of(on_write)
    bufset = {buf}
    m_ = re.match(r'^(.*)\[(\w+)\]$', buf or '')
    if m_:
        bufset.add(f'{m_.group(1)}.get({m_.group(2)})')   # reading without creating a defaultdict entry
    g = on_write.cfg()
    # --- the pop and the hand-over to the write routine
    def is_pop(c):
        r = src(c.func.value) if isinstance(c.func, ast.Attribute) and c.func.attr == 'popleft' else None
        if r is None:
            return False
        if r in bufset:
            return True
        return r.isidentifier() and alias_ok(on_write) and any(src(v) in bufset for v in pat.deref(on_write, ast.Name(id=r, ctx=ast.Load())))
    pops = [n for n in g.nodes if n.kind == 'stmt' and isinstance(n.ast, ast.Assign) and any(is_pop(c) for c in calls_in(n.ast))]
    if pops:
        pv = src(pops[0].ast.targets[0])
        wcalls = [n for n in g.nodes if n.kind == 'stmt' and any(r == 'self' and c.args and src(c.args[-1]) == pv for r, c in pat.method_calls(n.ast, '_write'))]
    else:
        # the popped payload is handed over directly: `self._write(sock, buf.popleft())`
        wcalls = [n for n in g.nodes if n.kind == 'stmt' and any(r == 'self' and c.args and isinstance(c.args[-1], ast.Call) and is_pop(c.args[-1])
                                                                   for r, c in pat.method_calls(n.ast, '_write'))]
        pops = list(wcalls)
    need(pops, f'C11: {on_write.ref} does not take a payload from its buffer')
    p = Q.escapes(g, [pops[0]], lambda n: n in wcalls) if pops[0] not in wcalls else None
    chk.ob('a', on_write.ref, 'the popped payload is handed to the write routine on every path', p is None and bool(wcalls), loc(on_write, pops[0].ast),
           path=pat.path_lines(p, pops[0]) if p else None, discr='pop-handed-over')
    q = pat.guarded_by(g, pops[0], pat.test_edge(lambda tt, pol: buffer_fact(on_write, tt, pol, bufset) == 'nonempty'))
    chk.ob('b', on_write.ref, 'the buffer is popped only when it is non-empty', q is None, loc(on_write, pops[0].ast), discr='pop-guard')
    chk.ob('b', on_write.ref, 'exactly one payload is taken per writability event', len(pops) == 1 and not any(k == 'loop' for k, _a in pops[0].ctx),
           loc(on_write, pops[0].ast), discr='one-per-event')
    wr = cls.lookup('_write')
    need(wr, f'C11: {cls.ref} has no _write routine')
    chk.touch(wr)
    rule_a(chk, wr, buf, is_file)
    # --- b: producers
    wh = cls.lookup('write')
    need(wh, f'C11: {cls.ref} has no write handler')
    chk.touch(wh)
    from .common import snapshot_view
    wh = snapshot_view(wh)           # (`poller = self._poller` … `poller.addWriter(…)`)
    gw = wh.cfg()
    dv = wh.params[-1]
    app = [n for n in gw.nodes if n.kind == 'stmt' and any(r == buf and [src(a) for a in c.args] == [dv] for r, c in pat.method_calls(n.ast, 'append'))]
    gone_w = pat.test_edge(lambda tt, pol: (len(wh.params) > 2 and pat.fact_matches(pat.compare_fact(tt, pol), wh.params[1], ('not in',), 'self._clients')) or
                           (len(wh.params) == 2 and ((pol == 'F' and src(tt) == 'self._connected') or (pol == 'T' and src(tt) == 'not self._connected'))))
    dead_sets = getattr(wr, 'dead_sets', set())
    dead_w = pat.test_edge(lambda tt, pol: len(wh.params) > 2 and any(pat.fact_matches(pat.compare_fact(tt, pol), wh.params[1], ('in',), ds) for ds in dead_sets))
    alive_w = pat.test_edge(lambda tt, pol: len(wh.params) > 2 and any(pat.fact_matches(pat.compare_fact(tt, pol), wh.params[1], ('not in',), ds) for ds in dead_sets))
    gone_w0 = gone_w
    closed_w = pat.test_edge(lambda tt, pol: is_file and ((pol == 'T' and src(tt) in ('self.closed', 'self._fd.closed')) or (pol == 'F' and src(tt) in ('not self.closed',))))
    gone_w = lambda e2: gone_w0(e2) or dead_w(e2) or closed_w(e2)  # noqa: E731
    if dead_sets:
        for a_ in app:
            q = pat.guarded_by(gw, a_, alive_w)
            chk.ob('b', wh.ref, 'write() accepts no payload for a connection whose write side failed for good (what the peer gets stays a prefix of what was written)',
                   q is None, loc(wh, a_.ast), path=pat.path_lines(q) if q else None, discr='write-refuses-write-dead')
    p = Q.escapes(gw, [gw.entry], lambda n: n in app, avoid_edge=gone_w)
    chk.ob('b', wh.ref, 'write() appends the payload at the end of the buffer on every path (a connection that is gone is ignored)', p is None and bool(app), loc(wh, wh.node),
           path=pat.path_lines(p) if p else None, discr='append')
    bad = [c for m in cls.methods.values() for r, c in pat.method_calls(m.node, 'appendleft') if r == buf and m.name != '_write'] + \
          [c for m in cls.methods.values() for r, c in pat.method_calls(m.node, 'pop') if r == buf] + \
          [c for m in cls.methods.values() for r, c in pat.method_calls(m.node, 'insert') if r == buf] + \
          [c for m in cls.methods.values() for r, c in pat.method_calls(m.node, 'append') if r == buf and m.name == '_write']
    chk.ob('b', cls.ref, 'no other buffer operation breaks the FIFO order (pop from the right, insert, append in the write routine, '
                         'appendleft outside it)', not bad, cls.module.relpath, detail='; '.join(src(c) for c in bad), discr='fifo-only')
    # --- d: writer interest
    addw = [n for n in gw.nodes if n.kind == 'stmt' and any(pat.expand_alias(wh, n, r) == 'self._poller' for r, _c in pat.method_calls(n.ast, 'addWriter'))]
    p = Q.escapes(gw, [gw.entry], lambda n: n in addw, avoid_edge=pat.test_edge(
        lambda tt, pol: (pol == 'T' and 'isWriting' in src(tt)) or (is_file and pat.fact_matches(pat.compare_fact(tt, pol), 'self._poller', ('is', '=='), 'None'))
        or (is_file and pat.fact_matches(pat.compare_fact(tt, pol), 'self._fd', ('is', '=='), 'None'))
        or (is_file and pol == 'T' and src(tt) in ('self.closed', 'self._fd.closed'))
        or (len(wh.params) > 2 and pat.fact_matches(pat.compare_fact(tt, pol), wh.params[1], ('not in',), 'self._clients'))
        or (len(wh.params) > 2 and any(pat.fact_matches(pat.compare_fact(tt, pol), wh.params[1], ('in',), ds) for ds in dead_sets))
        or (len(wh.params) == 2 and pol == 'F' and src(tt) == 'self._connected')))
    chk.ob('d', wh.ref, 'write() registers writer interest unless it is already registered', p is None and bool(addw), loc(wh, wh.node),
           path=pat.path_lines(p) if p else None, discr='interest-on-write')
    if is_file:
        # a File that has been closed keeps its (closed) file object: a late write must not register it with the poller nor buffer anything for it
        live = pat.test_edge(lambda tt, pol: (pol == 'F' and src(tt) in ('self.closed', 'self._fd.closed')) or (pol == 'T' and src(tt) in ('not self.closed', 'not self._fd.closed'))
                             or pat.fact_matches(pat.compare_fact(tt, pol), 'self._fd', ('is', '=='), 'None'))
        for a_ in app + addw:
            q = pat.guarded_by(gw, a_, live)
            chk.ob('b', wh.ref, 'write() keeps nothing for a File that has been closed (no payload buffered, no interest registered: nothing is written after the endpoint '
                                'has closed, and nothing of it is left behind)', q is None, loc(wh, a_.ast), path=pat.path_lines(q) if q else None,
                   discr=f'closed-file-ignored:{"append" if a_ in app else "interest"}')
        # a File may be written to before it is open (the poller is there, the descriptor is not: registering `None` for writing makes the poller drop or
        # disconnect it): the payload then waits in the buffer, and opening the file asks for the descriptor to be watched
        for a_ in addw:
            q = pat.guarded_by(gw, a_, pat.test_edge(lambda tt, pol: pat.fact_matches(pat.compare_fact(tt, pol), 'self._fd', ('is not', '!='), 'None')))
            chk.ob('d', wh.ref, 'write() asks for the descriptor to be watched only when there is a descriptor (the file is open)', q is None, loc(wh, a_.ast),
                   path=pat.path_lines(q) if q else None, discr='interest-needs-descriptor')
        op = cls.lookup('_on_open')
        need(op, f'C11.d: {cls.ref} has no _on_open')
        chk.touch(op)
        go = op.cfg()
        opens = [n for n in go.nodes if n.kind == 'stmt' and 'self' in pat.stores_attr(n.ast, '_fd')]
        addo = [n for n in go.nodes if n.kind == 'stmt' and any(r == 'self._poller' for r, _c in pat.method_calls(n.ast, 'addWriter'))]
        po = Q.escapes(go, opens, lambda n: n in addo, avoid_edge=pat.test_edge(lambda tt, pol: buffer_fact(op, tt, pol, bufset) == 'empty'), exc=()) if opens else None
        chk.ob('d', op.ref, 'opening the file registers writer interest when payloads were written before it was open', po is None and bool(addo) and bool(opens),
               loc(op, op.node), path=pat.path_lines(po) if po else None, discr='interest-on-open')
    # drain path in on_write: buffer empty ⇒ deferred close performed, else interest removed
    empty_edges = [e for n in g.nodes if n.kind == 'test' for e in n.succ if e.kind in ('T', 'F') and buffer_fact(on_write, n.ast, e.kind, bufset) == 'empty']
    closes = [n for n in g.nodes if n.kind == 'stmt' and any(r == 'self' for r, _c in pat.method_calls(n.ast, '_close'))]
    remw = [n for n in g.nodes if n.kind == 'stmt' and any(r == 'self._poller' for r, _c in pat.method_calls(n.ast, 'removeWriter'))]
    after_write = [e for e in empty_edges if any(Q.reaches(w, e.src) for w in wcalls)]
    need(after_write, f'C11.c: {on_write.ref} does not re-test the buffer after writing')
    deferred_T = pat.test_edge(lambda tt, pol: pol == 'T' and ('_closeflag' in src(tt) or '_closeq' in src(tt)))
    deferred_F = pat.test_edge(lambda tt, pol: pol == 'F' and ('_closeflag' in src(tt) or '_closeq' in src(tt)))
    def contra(e):
        # a second test of the same unmodified local cannot come out the other way (`drained` tested twice)
        return lambda e2: isinstance(e.src.ast, ast.Name) and e2.src.kind == 'test' and isinstance(e2.src.ast, ast.Name) and e2.src.ast.id == e.src.ast.id and e2.kind != e.kind
    for e in after_write:
        # an "empty" branch that can only be reached after "no close is pending" was established has nothing to perform
        if all(Q.reachable_without(g, e.src, start=w_, avoid_edge=lambda e2, e=e: deferred_F(e2) or contra(e)(e2)) is None for w_ in wcalls):
            continue
        p = Q.escapes(g, [e.dst], lambda n: n in closes, avoid_edge=lambda e2, e=e: deferred_F(e2) or contra(e)(e2))
        chk.ob('c', on_write.ref, 'once the buffer has drained a deferred close is performed', p is None and bool(closes), loc(on_write, e.src.ast),
               path=pat.path_lines(p) if p else None, discr='deferred-close-performed')
        p = Q.escapes(g, [e.dst], lambda n: n in remw, avoid_edge=lambda e2, e=e: deferred_T(e2) or contra(e)(e2) or (e2.src.kind == 'test' and e2.kind == 'F' and 'isWriting' in src(e2.src.ast)))
        chk.ob('d', on_write.ref, 'once the buffer has drained (and no close is pending) writer interest is removed', p is None and bool(remw),
               loc(on_write, e.src.ast), path=pat.path_lines(p) if p else None, discr='interest-removed')
    # a server shares its channel (and the poller) with every other server left on the default channel: the `_write` readiness event of a connection reaches all of
    # them, and only the owner may take its write interest away
    if len(on_write.params) > 1 and not is_file and any('_clients' in src(w) for w in ast.walk(cls.node) if isinstance(w, ast.Attribute)):
        sk = on_write.params[1]
        own = pat.test_edge(lambda tt, pol: pat.fact_matches(pat.compare_fact(tt, pol), sk, ('in',), 'self._clients'))
        for rn in remw:
            q = pat.guarded_by(g, rn, own)
            chk.ob('d', on_write.ref, 'writer interest is removed only for a connection of this server (the readiness event also reaches other servers on the channel: one '
                                      'without a buffer for the socket must not conclude "drained")', q is None, loc(on_write, rn.ast),
                   path=pat.path_lines(q) if q else None, discr='interest-removed-by-owner')
    for cn in closes:
        q = pat.guarded_by(g, cn, pat.test_edge(lambda tt, pol: buffer_fact(on_write, tt, pol, bufset) == 'empty'))
        chk.ob('c', on_write.ref, 'the drain path closes only when the buffer is empty', q is None, loc(on_write, cn.ast), discr='close-when-empty')
    for rn in remw:
        q = pat.guarded_by(g, rn, pat.test_edge(lambda tt, pol: buffer_fact(on_write, tt, pol, bufset) == 'empty'))
        chk.ob('d', on_write.ref, 'writer interest is removed only when the buffer is empty', q is None, loc(on_write, rn.ast), discr='remove-when-empty')
    # --- c: close()
    ch = cls.lookup('close')
    need(ch, f'C11.c: {cls.ref} has no close()')
    chk.touch(ch)
    gc = ch.cfg()
    bufs = set(bufset) | ({'self._buffers[sock]', 'self._buffers.get(sock)'} if 'sock' in ch.params or 'self._buffers' in buf else set())
    if 'self._buffers' in buf:
        # whatever the loop variable over the sockets to close is called (the same-socket obligation below ties it to the socket that is closed)
        for w in walk_no_defs(ch.node):
            if isinstance(w, ast.Subscript) and src(w.value) == 'self._buffers' and isinstance(w.slice, ast.Name):
                bufs |= {f'self._buffers[{w.slice.id}]', f'self._buffers.get({w.slice.id})'}
            if isinstance(w, ast.Call) and call_name(w) == 'self._buffers.get' and w.args and isinstance(w.args[0], ast.Name):
                bufs |= {f'self._buffers[{w.args[0].id}]', f'self._buffers.get({w.args[0].id})'}
    ccl = [n for n in gc.nodes if n.kind == 'stmt' and any(r == 'self' for r, _c in pat.method_calls(n.ast, '_close'))]
    need(ccl, f'C11.c: {ch.ref} never closes')
    for cn in ccl:
        q = pat.guarded_by(gc, cn, pat.test_edge(lambda tt, pol: buffer_fact(ch, tt, pol, bufs) == 'empty'))
        chk.ob('c', ch.ref, 'close() closes at once only when nothing is buffered', q is None, loc(ch, cn.ast), path=pat.path_lines(q) if q else None,
               discr='immediate-iff-empty')
    # the buffer consulted, the socket closed and the socket recorded for a deferred close are the same socket
    for cn in ccl:
        c_ = [c for r, c in pat.method_calls(cn.ast, '_close') if r == 'self'][0]
        if not c_.args:
            continue
        cv_ = src(c_.args[0])
        tests_ = [e.src for e in [x for n in gc.nodes if n.kind == 'test' for x in n.succ] if e.kind == 'F' and 'self._buffers' in src(e.src.ast) and
                  Q.reachable_without(gc, cn, start=e.dst, avoid_node=lambda m: m.kind == 'for') is not None or e.dst is cn]
        keys_ = set()
        for tn in tests_:
            for w in ast.walk(tn.ast):
                if isinstance(w, ast.Subscript) and src(w.value) == 'self._buffers':
                    keys_.add(src(w.slice))
                if isinstance(w, ast.Call) and call_name(w) == 'self._buffers.get' and w.args:
                    keys_.add(src(w.args[0]))
        chk.ob('c', ch.ref, 'the buffer that decides about an immediate close belongs to the socket that is closed', keys_ == {cv_}, loc(ch, cn.ast),
               detail=f'buffer of {sorted(keys_)} decides, `{cv_}` is closed', discr='same-socket')
    rec = [n for n in gc.nodes if n.kind == 'stmt' and ('self' in pat.stores_attr(n.ast, '_closeflag', True) or
                                                          any(r == 'self._closeq' for r, _c in pat.method_calls(n.ast, 'append')))]
    bad = None
    for n in gc.nodes:
        if n.kind == 'test':
            for e in n.succ:
                if e.kind in ('T', 'F') and buffer_fact(ch, n.ast, e.kind, bufs) == 'nonempty':
                    if e.dst in rec:
                        continue
                    bad = bad or Q.escapes(gc, [e.dst], lambda m: m in rec, avoid_edge=lambda e2: e2.src.kind == 'test' and (
                        (e2.kind == 'T' and '_closeflag' in src(e2.src.ast)) or (e2.kind == 'F' and pat.compare_fact(e2.src.ast, e2.kind) is not None
                                                                               and '_closeq' in src(e2.src.ast))), extra_exit=lambda m: m.kind == 'for')
    chk.ob('c', ch.ref, 'with data still buffered close() records a deferred close', bool(rec) and bad is None, loc(ch, ch.node),
           path=pat.path_lines(bad) if bad else None, discr='deferred-recorded')
    # --- f: a client endpoint accepts payloads only while it is connected (what is buffered otherwise would go out on the next connection)
    has_conn = any(any(r == 'self' and a == '_connected' and src(v) == 'True' for r, a, v in pat.attr_store(n)) for c_ in [cls] + cls.mro() for m_ in c_.methods.values()
                   for n in walk_no_defs(m_.node) if isinstance(n, ast.Assign)) or any(
        any(r == 'self' and a == '_connected' and src(v) == 'True' for r, a, v in pat.attr_store(n)) for sc in repo.subclasses(cls) for m_ in sc.methods.values()
        for n in walk_no_defs(m_.node) if isinstance(n, ast.Assign))
    if has_conn and len(wh.params) == 2:
        for a_ in app:
            q = pat.guarded_by(gw, a_, pat.test_edge(lambda tt, pol: (pol == 'T' and src(tt) == 'self._connected') or (pol == 'F' and src(tt) in ('not self._connected',))
                                                      or pat.fact_matches(pat.compare_fact(tt, pol), 'self._connected', ('is', '=='), 'True')))
            chk.ob('f', wh.ref, 'a payload is buffered only while the endpoint is connected', q is None, loc(wh, a_.ast), path=pat.path_lines(q) if q else None,
                   discr='buffer-only-connected')
    # --- d: nothing outside _close takes the writer interest away while data is buffered (discard() removes both interests)
    for m_ in cls.methods.values():
        if m_.name in ('_close',) or m_ is on_write or getattr(m_, 'absorbed', False):
            continue
        gm = m_.cfg()
        for n in gm.nodes:
            if n.kind != 'stmt':
                continue
            drops = [c for meth in ('discard', 'removeWriter') for r, c in pat.method_calls(n.ast, meth) if r == 'self._poller']
            if not drops:
                continue
            chk.touch(m_)
            q = pat.guarded_by(gm, n, pat.test_edge(lambda tt, pol, m_=m_: buffer_fact(m_, tt, pol, bufset) == 'empty'))
            chk.ob('d', m_.ref, f'`{src(drops[0])}` outside the close routine does not end the flushing of buffered data (buffer known empty, or only the read interest is dropped)',
                   q is None, loc(m_, n.ast), discr=f'writer-kept:{m_.name}')
    # --- c: a connection leaves the client list (outside _close) only when nothing is buffered for it: the write path serves client sockets only
    for m_ in cls.methods.values():
        if m_.name == '_close' or getattr(m_, 'absorbed', False):
            continue
        gm = m_.cfg()
        for n in gm.nodes:
            if n.kind == 'stmt' and any(r == 'self._clients' for r, _c in pat.method_calls(n.ast, 'remove')):
                c_ = [c for r, c in pat.method_calls(n.ast, 'remove') if r == 'self._clients'][0]
                sv = src(c_.args[0]) if c_.args else 'sock'
                bs = {f'self._buffers[{sv}]', f'self._buffers.get({sv})'}
                chk.touch(m_)
                q = pat.guarded_by(gm, n, pat.test_edge(lambda tt, pol, m_=m_, bs=bs: buffer_fact(m_, tt, pol, bs) == 'empty'))
                chk.ob('c', m_.ref, 'a connection is taken out of the client list (for a TLS upgrade) only after its buffer has drained', q is None, loc(m_, n.ast),
                       path=pat.path_lines(q) if q else None, discr=f'leaves-clients-drained:{m_.name}')
    # --- e: the read path: end of stream is a close *request*
    rd = cls.lookup('_read')
    if rd is not None:
        chk.touch(rd)
        gr = rd.cfg()
        for cn in [n for n in gr.nodes if n.kind == 'stmt' and any(r == 'self' for r, _c in pat.method_calls(n.ast, '_close'))]:
            in_exc = any(k == 'except' for k, _a in cn.ctx)
            q = pat.guarded_by(gr, cn, pat.test_edge(lambda tt, pol: buffer_fact(rd, tt, pol, set(bufs) | set(bufset)) == 'empty'))
            chk.ob('e', rd.ref, 'the read path tears the endpoint down at once only on an error; end of stream goes through close(), which waits for the buffer',
                   in_exc or q is None, loc(rd, cn.ast), discr='read-eof-defers')
        reqs = [n for n in gr.nodes if n.kind == 'stmt' and any(r == 'self' for r, _c in pat.method_calls(n.ast, 'close'))]
        chk.ob('e', rd.ref, 'end of stream requests a close', bool(reqs), loc(rd, rd.node), discr='read-eof-closes')
    cl = cls.lookup('_close')
    need(cl, f'C11.d: {cls.ref} has no _close')
    chk.touch(cl)
    gl = cl.cfg()
    if 'self._buffers' in buf:
        clr = [n for n in gl.nodes if n.kind == 'stmt' and isinstance(n.ast, ast.Delete) and any(src(t).startswith('self._buffers[') for t in n.ast.targets)]
        skip = pat.test_edge(lambda tt, pol: pat.fact_matches(pat.compare_fact(tt, pol), cl.params[1], ('not in',), 'self._buffers'))
    else:
        clr = [n for n in gl.nodes if n.kind == 'stmt' and any(r == buf for r, _c in pat.method_calls(n.ast, 'clear'))]
        skip = None
    def guard_ret(e2):
        """the do-nothing branch of a test (`if self.closed: return`, or the missing else of `if not self.closed: …`): nothing but the return follows"""
        if e2.src.kind != 'test':
            return False
        seen_, _ = Q.search([e2.dst], exc=())
        return all(m.kind in ('join', 'exit') or (m.kind == 'stmt' and isinstance(m.ast, ast.Return)) for m in seen_)
    p = Q.escapes(gl, [gl.entry], lambda n: n in clr, avoid_edge=lambda e2: (skip(e2) if skip else False) or guard_ret(e2))
    chk.ob('d', cl.ref, '_close discards whatever is still buffered (nothing is written after the endpoint closed)', p is None and bool(clr),
           loc(cl, cl.node), path=pat.path_lines(p) if p else None, discr='close-clears-buffer')
    if 'self._buffers' not in buf:
        flg = [n for n in gl.nodes if n.kind == 'stmt' and 'self' in pat.stores_attr(n.ast, '_closeflag', False)]
        p = Q.escapes(gl, [gl.entry], lambda n: n in flg, avoid_edge=guard_ret)
        chk.ob('d', cl.ref, '_close resets the deferred-close flag', p is None and bool(flg), loc(cl, cl.node), discr='close-resets-flag')


def rule_a(chk, wr, buf, is_file):
    g = wr.cfg()
    dv = wr.params[-1]
    requeue_tail = []
    requeue_whole = []
    for n in g.nodes:
        if n.kind != 'stmt':
            continue
        for r, c in pat.method_calls(n.ast, 'appendleft'):
            if r != buf or not c.args:
                continue
            a = c.args[0]
            if isinstance(a, ast.Name) and a.id != dv:
                vs = pat.deref(wr, a)          # `unsent = data[sent:]; buf.appendleft(unsent)`
                if len(vs) == 1:
                    a = vs[0]
            if src(a) == dv:
                requeue_whole.append(n)
            elif isinstance(a, ast.Subscript) and src(a.value) == dv and isinstance(a.slice, ast.Slice) and a.slice.upper is None \
                    and a.slice.lower is not None:
                requeue_tail.append((n, src(a.slice.lower)))
    closes = [n for n in g.nodes if n.kind == 'stmt' and any(r == 'self' for r, _c in pat.method_calls(n.ast, '_close'))]
    # giving up the write side only (everything still queued is dropped, the read side ends the connection) also guarantees that nothing follows the lost payload
    # … provided the connection is recorded as write-dead on the same path (and write() refuses recorded connections, checked with the producers): clearing
    # the buffer alone does not keep a later write from being sent after the lost payload
    sk_ = wr.params[1] if len(wr.params) > 2 else None
    marks = [n for n in g.nodes if n.kind == 'stmt' and sk_ is not None and any(r.startswith('self.') and [src(a_) for a_ in c.args] == [sk_] for r, c in pat.method_calls(n.ast, 'add'))]
    wr.dead_sets = {r for n in marks for r, c in pat.method_calls(n.ast, 'add') if r.startswith('self.')}
    clears = [n for n in g.nodes if n.kind == 'stmt' and any(r == buf for r, _c in pat.method_calls(n.ast, 'clear'))]
    closes += [c_ for c_ in clears if marks and (Q.escapes(g, [c_], lambda n: n in marks, exc=()) is None or
                                                 Q.reachable_without(g, c_, avoid_node=lambda n: n in marks) is None)]
    errors = [n for n in g.nodes if n.kind == 'stmt' and pat.fires(n.ast, 'error')]
    sends = [n for n in g.nodes if n.kind == 'stmt' and isinstance(n.ast, ast.Assign) and any(
        (call_name(c) or '').split('.')[-1] in ('send', 'write', 'fd_write') and c.args for c in calls_in(n.ast))]
    need(sends, f'C11.a: {wr.ref} does not hand the payload to the OS')
    nv = src(sends[0].ast.targets[0])
    sent = {src(c.args[-1]) for c in calls_in(sends[0].ast) if (call_name(c) or '').split('.')[-1] in ('send', 'write', 'fd_write') and c.args}
    # what is handed to the OS is the payload itself (possibly re-bound to its encoded form under the same name)
    same_obj = sent == {dv}
    chk.ob('a', wr.ref, 'the object handed to the OS is the one the accepted byte count is applied to (the tail put back is sliced from exactly what was written)',
           same_obj, loc(wr, sends[0].ast), detail=f'written: {sorted(sent)}, sliced/put back: `{dv}`', discr='written-is-sliced')
    # tail slices start at the count returned by the OS
    for n, lower in requeue_tail:
        chk.ob('a', wr.ref, 'the part put back after a partial send starts at the number of bytes the OS accepted', lower == nv, loc(wr, n.ast),
               detail=f'`{n.text}`', discr='tail-offset')
        q = pat.guarded_by(g, n, pat.test_edge(lambda tt, pol: pat.fact_matches(pat.compare_fact(tt, pol), nv, ('<',), f'len({dv})')))
        chk.ob('a', wr.ref, 'a tail is put back only after a partial send', q is None, loc(wr, n.ast), discr='tail-guard')
    chk.ob('a', wr.ref, 'the unsent tail of a partial send is put back', bool(requeue_tail), loc(wr, wr.node), discr='tail-requeue-exists')
    tails = [n for n, _l in requeue_tail]
    accounted = set(tails) | set(requeue_whole) | set(closes)
    full = pat.test_edge(lambda tt, pol: pat.fact_matches(pat.compare_fact(tt, pol), nv, ('>=', '=='), f'len({dv})'))
    gone = pat.test_edge(lambda tt, pol: pat.fact_matches(pat.compare_fact(tt, pol), wr.params[1], ('not in',), 'self._clients'))
    # normal paths: after the send returned
    p = Q.escapes(g, [sends[0]], lambda n: n in accounted, avoid_edge=full, exc=())
    chk.ob('a', wr.ref, 'after a send that returned, the payload is either sent in full or its tail is put back', p is None, loc(wr, sends[0].ast),
           path=pat.path_lines(p, sends[0]) if p else None, discr='normal-return')
    # before the send: nothing may leave the routine with the payload dropped, except when the connection is already gone
    p = Q.escapes(g, [g.entry], lambda n: n in accounted or n in sends, avoid_edge=gone, exc=())
    chk.ob('a', wr.ref, 'no path drops the payload before handing it to the OS (other than for a connection that is already gone)', p is None,
           loc(wr, wr.node), path=pat.path_lines(p) if p else None, discr='before-send')
    # the payload may have to be converted before it is handed to the OS (File: text → bytes): only text is converted, and a failed conversion is a failed write (it
    # must not leave the routine as an exception: the payload was popped and would be gone without an error event, with the rest of the buffer still going out)
    from sa.cfg import handler_names as _hn
    for n in g.nodes:
        if n.kind != 'stmt':
            continue
        encs = [c for c in calls_in(n.ast) if isinstance(c.func, ast.Attribute) and c.func.attr == 'encode' and src(c.func.value) == dv]
        for c in encs:
            q = pat.guarded_by(g, n, pat.test_edge(lambda tt, pol: pol == 'T' and src(tt).replace(' ', '') == f'isinstance({dv},str)'))
            chk.ob('a', wr.ref, 'only a text payload is encoded (bytearray and memoryview payloads have no encode(): they go out as they are)', q is None, loc(wr, c),
                   path=pat.path_lines(q) if q else None, discr='encode-text-only')
            hs = [e.dst for e in n.succ if e.kind == 'x' and e.dst.kind == 'except']
            caught = any(_hn(h.ast) is None or set(_hn(h.ast)) & {'UnicodeError', 'UnicodeEncodeError', 'ValueError', 'Exception'} for h in hs)
            chk.ob('a', wr.ref, 'text the encoding cannot express is handled as a failed write (caught by the clause that reports and closes), not raised out of the routine '
                                'with the payload lost', caught, loc(wr, c), discr='encode-failure-handled')
    # OSError paths by errno class
    xedges = [e for e in sends[0].succ if e.kind == 'x' and e.exc == 'OSError' and e.dst.kind == 'except']
    chk.ob('a', wr.ref, 'a failing send is caught in the write routine', bool(xedges), loc(wr, sends[0].ast), discr='oserror-caught')
    if not xedges:
        return
    h = xedges[0].dst
    en = h.ast.name
    _ERRNO_ALIASES[en] = {src(n.targets[0]) for n in walk_no_defs(wr.node) if isinstance(n, ast.Assign) and isinstance(n.targets[0], ast.Name)
                          and src(n.value) in (f'{en}.args[0]', f'{en}.errno')}
    transient = TRANSIENT_FILE if is_file else TRANSIENT_SOCK
    # the clause is walked once per errno class with the errno of the caught exception fixed to that value: tests on it (directly, through a local holding
    # it, or through a flag computed from it) are then decided, everything else is followed both ways
    import re
    from sa import concrete
    consts = {}
    for w in ast.walk(wr.node):
        if isinstance(w, ast.Name) and re.fullmatch(r'E[A-Z]{3,}|SSL_ERROR_[A-Z_]+', w.id):
            consts[w.id] = canon(w.id)
        elif isinstance(w, ast.Attribute) and re.fullmatch(r'E[A-Z]{3,}|SSL_ERROR_[A-Z_]+', w.attr):
            consts['$' + src(w)] = canon(w.attr)

    def esc(errno, is_target, exits, avoid_edge=None):
        env = dict(consts)
        env[f'${en}.args[0]'] = env[f'${en}.errno'] = errno
        return concrete.escapes(g, h, env, is_target, exits=exits, avoid_edge=avoid_edge)

    for errno in sorted(set(map(canon, transient))) + list(FATAL):
        if errno in map(canon, transient):
            p = esc(errno, lambda n: n in requeue_whole, ('exit', 'raise'))
            chk.ob('a', wr.ref, f'errno {errno} (transient): the whole payload is put back at the front of the buffer', p is None and bool(requeue_whole),
                   loc(wr, h.ast), path=pat.path_lines(p, h) if p else None, discr=f'errno-class=TRANSIENT:{errno}')
            sig = esc(errno, lambda n: False, ('exit',), avoid_edge=lambda e2: e2.dst in closes or e2.dst in errors)
            chk.ob('a', wr.ref, f'errno {errno} (transient): neither an error event nor a close', sig is not None or not requeue_whole, loc(wr, h.ast),
                   discr=f'errno-class=TRANSIENT-quiet:{errno}')
        else:
            p = esc(errno, lambda n: n in closes or n in errors, ('exit',))
            chk.ob('a', wr.ref, f'errno {errno} (fatal): signalled by an error event and/or closing the endpoint', p is None, loc(wr, h.ast),
                   path=pat.path_lines(p, h) if p else None, discr=f'errno-class=FATAL:{errno}')
            q = esc(errno, lambda n: False, ('exit', 'raise'), avoid_edge=lambda e2: e2.dst in requeue_whole)
            chk.ob('a', wr.ref, f'errno {errno} (fatal): the payload is not put back for ever', q is not None, loc(wr, h.ast),
                   discr=f'errno-class=FATAL-no-requeue:{errno}')
            p2 = esc(errno, lambda n: n in closes, ('exit',))
            chk.ob('a', wr.ref, f'errno {errno} (fatal): the endpoint is closed or its output abandoned (buffer cleared), so that nothing is sent after the lost payload',
                   p2 is None and bool(closes), loc(wr, h.ast), path=pat.path_lines(p2, h) if p2 else None, discr=f'errno-class=FATAL-closes:{errno}')
    if not is_file:
        # the TLS layer says "want write" (or "want read", during a renegotiation) where a plain socket says EAGAIN: nothing was sent, the payload goes back
        tls = {'$' + src(c): True for c in calls_in(wr.node) if call_name(c) == 'isinstance' and len(c.args) == 2 and src(c.args[0]) == en
               and 'SSL' in src(c.args[1])}
        want = [w for w in ('SSL_ERROR_WANT_WRITE', 'SSL_ERROR_WANT_READ') if w in consts or any(k.endswith('.' + w) for k in consts)]
        okw = bool(tls) and len(want) == 2
        for wcode in want:
            env = dict(consts)
            env.update(tls)
            env[f'${en}.args[0]'] = env[f'${en}.errno'] = wcode
            lost = concrete.escapes(g, h, env, lambda n: n in requeue_whole, exits=('exit', 'raise'))
            loud = concrete.escapes(g, h, env, lambda n: False, exits=(), goal=lambda n: n in errors)
            if lost is not None or loud is not None:
                okw = False
        chk.ob('a', wr.ref, 'a TLS write that wants to be repeated (SSLWantWrite / SSLWantRead) is transient: the whole payload is put back, no error, nothing dropped', okw,
               loc(wr, h.ast), detail=f'codes the clause names: {want}', discr='tls-want-transient')


_ERRNO_ALIASES = {}     # exception variable -> locals holding its errno (filled per write routine)


def _errno_test(t, en):
    """(names, negated) for tests `e.args[0] in (A, B)` / `not in` / `== A` / `!= A` on the caught exception."""
    if not (isinstance(t, ast.Compare) and len(t.ops) == 1):
        return None
    left = src(t.left)
    if left not in (f'{en}.args[0]', f'{en}.errno') and not (isinstance(t.left, ast.Name) and t.left.id in _ERRNO_ALIASES.get(en, ())):
        return None
    c = t.comparators[0]
    op = t.ops[0]
    if isinstance(op, (ast.In, ast.NotIn)) and isinstance(c, (ast.Tuple, ast.List, ast.Set)):
        return [src(x).split('.')[-1] for x in c.elts], isinstance(op, ast.NotIn)
    if isinstance(op, (ast.Eq, ast.NotEq)):
        return [src(c).split('.')[-1]], isinstance(op, ast.NotEq)
    return None
