"""C19 — node: remote events run once and return their result; peers cannot harm the loop.

a  add_buffer: new data is appended to the carry; the piece after the last delimiter is taken out of the packet list and
   is either found complete before it is processed or stored back as carry; delimited packets are each processed once
b  META_EXCLUDE ⊇ the attributes the dispatcher reads/writes on events (statically reconstructed dir(Event()) + .add() calls)
c  peer data that becomes dispatch keys (channels) is type-checked before the event is returned
d  transmit is dominated by the send firewall, dispatch by the receive firewall
e  the relay asks for success *and* failure feedback of the remote event and routes both back
f  decode errors cannot escape add_buffer; load_event/load_value failures are caught by the packet handlers
g  every setattr of a peer-provided key on an event is dominated by "not dunder and not in META_EXCLUDE"
"""

import ast

from sa import AnalysisError, pat
from sa import query as Q
from sa.cfg import handler_names
from sa.model import call_name, calls_in, src, walk_no_defs

from .common import EVENTS, MANAGER, NODE_PROTOCOL, NODE_UTILS, VALUES, loc, need

MIN_OBLIGATIONS = 22
OBJECT_DIR = set(dir(object()))   # names every instance has: a fact about the language, not about /repo
OBJECT_DIR |= {'__dict__', '__module__', '__weakref__'}


def run(repo, chk):
    chk.not_decided = ['exactly-once execution on the peer and result routing across a real connection', 'packets containing the delimiter in their payload',
                       'resource exhaustion by oversized packets']
    chk.rule('C19.a', 'add_buffer keeps the undelimited tail unless it is a complete document; carry + data; every delimited packet processed once')
    chk.rule('C19.b', 'every attribute the dispatcher touches on an event is in META_EXCLUDE')
    chk.rule('C19.c', 'channels taken from a peer are checked to be strings before the event leaves load_event')
    chk.rule('C19.d', 'send firewall dominates transmission; receive firewall dominates dispatch')
    chk.rule('C19.e', 'the remote event is marked for success and failure feedback, both routed to the result channel')
    chk.rule('C19.f', 'UnicodeDecodeError/ValueError cannot leave add_buffer; load_event/load_value are called inside handlers for their errors')
    chk.rule('C19.g', 'setattr of peer keys only after the dunder / META_EXCLUDE filter')
    rule_a_f(repo, chk)
    rule_b(repo, chk)
    rule_c_g(repo, chk)
    rule_d_e(repo, chk)
    rule_tables(repo, chk)
    rule_k_l(repo, chk)
    rule_m(repo, chk)
    rule_resend(repo, chk)
    rule_reply_total(repo, chk)
    rule_own_connections(repo, chk)
    rule_auto_remote(repo, chk)
    rule_marks_private(repo, chk)
    rule_send_option(repo, chk)


def rule_send_option(repo, chk):
    """`no_result` is an option of one send; the node server hands it to the protocol as an attribute of the event."""
    chk.rule('C19.s', 'the per-send option the node server sets on an event (no result wanted) is taken off again before send() returns, on every path: the same event '
                      'object may be sent again with a result wanted')
    f = need(repo.cls('circuits/node/server.py', 'Server').methods.get('send'), 'C19.s: node Server.send missing')
    chk.touch(f)
    g = f.cfg()
    ev = f.params[1]
    sets = [n for n in g.nodes if n.kind == 'stmt' and any(recv == ev and attr.startswith('node_') for recv, attr, _v in pat.attr_store(n.ast)) and isinstance(n.ast, ast.Assign)]
    for n in sets:
        attr = [a for r_, a, _v in pat.attr_store(n.ast) if r_ == ev][0]
        dels = [m for m in g.nodes if m.kind == 'stmt' and ((isinstance(m.ast, ast.Delete) and any(src(t) == f'{ev}.{attr}' for t in m.ast.targets)) or
                                                            any(call_name(c) == 'delattr' and len(c.args) == 2 and src(c.args[0]) == ev and pat.is_const(c.args[1], attr) for c in calls_in(m.ast)))]
        p = Q.escapes(g, [n], lambda m: m in dels, exits=('exit', 'raise'), weak=True)
        chk.ob('s', f.ref, f'`{ev}.{attr}` is an option of this send only: it is removed again on every way out of send()', p is None and bool(dels), loc(f, n.ast),
               path=pat.path_lines(p, n) if p else None, discr=f'option-removed:{attr}')
    chk.ob('s', f.ref, 'the per-send options set on the event were looked for', True, loc(f, f.node), detail=f'{len(sets)} found', discr='options', nontrivial=False)


def rule_marks_private(repo, chk):
    """Protocol keeps the state of a round trip on the event object it has sent (completion mark, error flag) and node.Server a per-send option.  dump_event ships
    every attribute of the event that is not in META_EXCLUDE as meta data, and the peer echoes meta data back with the reply, where it is set on the event after the
    outcome was recorded: such an attribute must be excluded, or the outcome of one round trip overwrites that of the next."""
    chk.rule('C19.r', 'every attribute the node layer itself writes on an event it sends (round-trip marks, per-send options) is in META_EXCLUDE')
    excl, _ok = static_meta_exclude(repo)
    written = {}
    for rel, cname in ((NODE_PROTOCOL, 'Protocol'), ('circuits/node/server.py', 'Server'), ('circuits/node/client.py', 'Client'), ('circuits/node/node.py', 'Node')):
        cls = repo.cls(rel, cname)
        for m in list(cls.methods.values()):
            for fn in [m] + list(m.nested.values()):
                evs = {p_ for p_ in fn.params if p_ in ('event', 'ev', 'remote_event', 'e')}
                evs |= {src(n.targets[0]) for n in walk_no_defs(fn.node) if isinstance(n, ast.Assign) and isinstance(n.targets[0], ast.Name) and '__events' in src(n.value)}
                for n in walk_no_defs(fn.node):
                    if isinstance(n, ast.stmt):
                        for recv, attr, _v in pat.attr_store(n):
                            if recv in evs or (recv in m.params and recv in ('event', 'ev', 'remote_event')):
                                written.setdefault(attr, f'{rel}:{n.lineno}')
                    if isinstance(n, ast.Call) and isinstance(n.func, ast.Attribute) and n.func.attr == 'setdefault' and src(n.func.value).endswith('.__dict__') \
                            and src(n.func.value)[:-len('.__dict__')] in evs and n.args and isinstance(n.args[0], ast.Constant):
                        written.setdefault(n.args[0].value, f'{rel}:{n.lineno}')
                    if isinstance(n, ast.Call) and call_name(n) == 'setattr' and len(n.args) == 3 and src(n.args[0]) in evs and isinstance(n.args[1], ast.Constant):
                        written.setdefault(n.args[1].value, f'{rel}:{n.lineno}')
    need(len(written) >= 3, f'C19.r: only {sorted(written)} found as attributes the node layer writes on events, 4 confirmed by hand')
    # `value` and `channels` are Event attributes (excluded through dir(Event())); what matters is that none is left out
    missing = sorted(a for a in written if a not in excl)
    chk.ob('r', f'{NODE_UTILS}::META_EXCLUDE', f'all {len(written)} attributes the node layer writes on the events it sends are excluded from the meta data that travels '
                                               'with them', not missing, NODE_UTILS,
           detail=('missing: ' + ', '.join(f'{a} (written at {written[a]})' for a in missing)) if missing else f'written: {sorted(written)}', discr='own-marks-excluded')


def rule_auto_remote(repo, chk):
    """auto_remote_event: a local event fired on one of the listed channels is forwarded to the peer (once) and its result comes back to whoever waits for the local
    event."""
    chk.rule('C19.q', 'Node.add registers one forwarding handler per listed channel (inside the loop that decorates it), and forwarding an event does not change the '
                      'channels of the local event object (a copy goes over the wire)')
    nd = repo.cls('circuits/node/node.py', 'Node')
    a = need(nd.methods.get('add'), 'C19.q: Node.add missing')
    chk.touch(a)
    g = a.cfg()
    defs = [n for n in g.nodes if n.kind == 'stmt' and isinstance(n.ast, ast.FunctionDef) and any('handler' in src(d) for d in n.ast.decorator_list)
            and any(k == 'loop' for k, _a in n.ctx)]
    need(defs, 'C19.q: Node.add defines no forwarding handler in a loop')
    for d in defs:
        loops = [x for x in d.ctx if x[0] == 'loop']
        # the loops whose variable the decorator uses
        used = [lp for lp in loops if any(isinstance(w, ast.Name) and w.id in {t.id for t in ast.walk(lp[1].target) if isinstance(t, ast.Name)}
                                          for dec in d.ast.decorator_list for w in ast.walk(dec))]
        regs = [n for n in g.nodes if n.kind == 'stmt' and any(r == 'self' and [src(x) for x in c.args] == [d.ast.name] for r, c in pat.method_calls(n.ast, 'addHandler'))]
        ok = bool(regs) and all(all(lp in n.ctx for lp in used) for n in regs)
        chk.ob('q', a.ref, 'the forwarding handler is registered once per event name and channel: inside every loop whose variable its decorator uses (handler() records the '
                           'channel on the function: registering after the loop keeps the last channel only)', ok, loc(a, (regs or [d])[0].ast), discr='handler-per-channel')
    # one event fired on several of the listed channels (or on '*') meets one forwarding handler per channel: it must still be forwarded once
    for d in defs:
        per_channel = any(k.arg == 'channel' and not isinstance(k.value, ast.Constant) for dec in d.ast.decorator_list if isinstance(dec, ast.Call) for k in dec.keywords)
        fw = a.nested.get(d.ast.name)
        if not per_channel or fw is None:
            continue
        gf = fw.cfg()
        sends = [n for n in gf.nodes if n.kind == 'stmt' and 'remote(' in src(n.ast)]
        marks = [n for n in gf.nodes if n.kind == 'stmt' and any(isinstance(c.func, ast.Attribute) and c.func.attr in ('append', 'add') for c in calls_in(n.ast))]
        once = pat.test_edge(lambda tt, pol: (lambda fc: fc is not None and fc[1] == 'not in')(pat.compare_fact(tt, pol)))
        ok = bool(sends) and bool(marks) and all(pat.guarded_by(gf, s_, once) is None for s_ in sends) and \
            all(Q.reachable_without(gf, s_, avoid_node=lambda n: n in marks) is None for s_ in sends)
        chk.ob('q', fw.ref, 'an event that matches several of the per-channel forwarding handlers is sent to the peer once: the handler records on the event that it was '
                            'forwarded to this connection and does nothing when it already was', ok, loc(fw, (sends or [gf.entry])[0].ast) if sends else loc(fw, fw.node),
               discr='forwarded-once')
    r = need(_m(nd, '__on_remote'), 'C19.q: Node.__on_remote missing')
    chk.touch(r)
    params = set(r.params)
    n_stores = 0
    for fn in [r] + list(r.nested.values()):
        gr = fn.cfg()
        stores = [n for n in gr.nodes if n.kind == 'stmt' and any(attr == 'channels' and recv in params for recv, attr, _v in pat.attr_store(n.ast))]
        for n in stores:
            recv = [recv for recv, attr, _v in pat.attr_store(n.ast) if attr == 'channels' and recv in params][0]
            val = [v for rc, attr, v in pat.attr_store(n.ast) if attr == 'channels' and rc == recv][0]
            # a restore: the value is a local that was bound from `<recv>.channels` before
            def is_saved(node, v):
                if not isinstance(v, ast.Name):
                    return False
                ds = Q.reaching_defs(gr, node, v.id)
                return bool(ds) and all(d.kind == 'stmt' and isinstance(d.ast, ast.Assign) and src(d.ast.value) == f'{recv}.channels' for d in ds)
            if is_saved(n, val):
                continue
            n_stores += 1
            restores = [m for m in stores if m is not n and is_saved(m, [v for rc, attr, v in pat.attr_store(m.ast) if attr == 'channels' and rc == recv][0])]
            gives_back = lambda m: m.kind == 'stmt' and m.has_yield()  # noqa: E731
            p = Q.escapes(gr, [n], lambda m: m in restores, exits=('exit', 'raise'), weak=True, extra_exit=gives_back)
            chk.ob('q', fn.ref, 'the channels for the peer are on the local event object only while the packet is written: they are put back (also when the send raises) '
                                'before the handler gives control back — the event\'s own done/success notifications are addressed by its channels, and the result and error '
                                'flag of the call are recorded on this very object (not on a copy nobody else holds)', p is None and bool(restores), loc(fn, n.ast),
                   path=pat.path_lines(p, n) if p else None, discr='forward-restores-channels')
    copies = [n for fn in [r] + list(r.nested.values()) for n in walk_no_defs(fn.node) if isinstance(n, ast.Assign) and isinstance(n.value, ast.Call)
              and (call_name(n.value) or '').split('.')[-1] in ('copy', 'deepcopy') and any(src(a_) in params for a_ in n.value.args)]
    chk.ob('q', r.ref, 'what is sent is the caller\'s event object itself (the reply handler records result, error flag and returned attributes on the object it sent)',
           not copies, loc(r, (copies or [r.node])[0]), discr='forward-same-object')


def rule_own_connections(repo, chk):
    """The node server reacts to the transport's events on a channel that other servers may share: the receive firewall of a server is only worth something if no
    other node server builds a second protocol (with other firewalls) for the same connection."""
    chk.rule('C19.p', 'the node server builds a Protocol only for connections accepted by its own transport, and feeds reads only to protocols it has built')
    cls = repo.cls('circuits/node/server.py', 'Server')
    cp = need(_m(cls, '__connect_peer'), 'C19.p: Server.__connect_peer missing')
    chk.touch(cp)
    g = cp.cfg()
    sk = cp.params[1]
    builds = [n for n in g.nodes if n.kind == 'stmt' and isinstance(n.ast, ast.Assign) and isinstance(n.ast.targets[0], ast.Subscript) and 'protocols' in src(n.ast.targets[0].value)]
    need(builds, 'C19.p: the connect handler builds no protocol')
    def own(e2):
        # `sock in self.server._clients`, the transport possibly through a local (`server = self.server`)
        if e2.src.kind != 'test' or e2.kind not in ('T', 'F'):
            return False
        fc = pat.compare_fact(e2.src.ast, e2.kind)
        return fc is not None and fc[0] == sk and fc[1] == 'in' and pat.expand_alias(cp, e2.src, fc[2]).startswith('self.server.')
    for b in builds:
        q = pat.guarded_by(g, b, own)
        chk.ob('p', cp.ref, 'a protocol (with this server\'s firewalls) is built only for a connection of this server\'s own transport', q is None, loc(cp, b.ast),
               path=pat.path_lines(q) if q else None, discr='protocol-for-own-connection')
    rd = need(cls.methods.get('_on_read'), 'C19.p: Server._on_read missing')
    chk.touch(rd)
    gr = rd.cfg()
    rk = rd.params[1]
    raw = [n for n in gr.nodes if n.ast is not None and n.kind in ('stmt', 'test') and any(isinstance(w, ast.Subscript) and 'protocols' in src(w.value) and src(w.slice) == rk
                                                                                             for w in ast.walk(n.ast))]
    known = pat.test_edge(lambda tt, pol: (lambda fc: fc is not None and fc[0] == rk and fc[1] == 'in' and 'protocols' in fc[2])(pat.compare_fact(tt, pol)))
    okr = all(pat.guarded_by(gr, n, known) is None for n in raw)
    chk.ob('p', rd.ref, 'a read of a connection this server has no protocol for (another server\'s connection) is ignored', okr, loc(rd, (raw or [gr.entry])[0].ast) if raw else loc(rd, rd.node),
           discr='read-of-known-connection')


def rule_reply_total(repo, chk):
    """The sender waits until a reply arrives: the reply must not depend on whether json can carry what the handler returned."""
    chk.rule('C19.o', 'dump_value answers for every value: when json cannot carry the result (bytes, a nested Value, an arbitrary object) an error reply with the same id is '
                      'produced instead of an exception that leaves the sender waiting')
    f = repo.func(NODE_UTILS, 'dump_value')
    chk.touch(f)
    g = f.cfg()
    dumps = [n for n in g.nodes if n.kind == 'stmt' and any((call_name(c) or '').endswith('dumps') for c in calls_in(n.ast))]
    need(dumps, 'C19.o: dump_value does not serialise')
    def catches_type_error(h):
        names = handler_names(h.ast)
        return names is None or bool(set(names) & {'TypeError', 'Exception', 'BaseException'})
    guarded = [n for n in dumps if any(e.kind == 'x' and e.dst.kind == 'except' and catches_type_error(e.dst) for e in n.succ)]
    ok = bool(guarded)
    path = None
    for n in guarded:
        hs = [e.dst for e in n.succ if e.kind == 'x' and e.dst.kind == 'except' and catches_type_error(e.dst)]
        for h in hs:
            # the clause ends in a reply that carries the error flag and the id of the call
            rets = [m for m in pat.region(g, 'except', h.ast) if m.kind == 'stmt' and isinstance(m.ast, ast.Return) and m.ast.value is not None]
            p = pat.escapes_region(g, h, pat.region(g, 'except', h.ast), lambda m: m in rets, exits=('exit', 'raise'))
            if p is not None or not rets:
                ok, path = False, p
            # the reply built in the clause: a document whose `errors` entry is True and whose `id` is the id of the call (entries may be given through locals)
            def entry(dct, key, node):
                for k_, v_ in zip(dct.keys, dct.values):
                    if isinstance(k_, ast.Constant) and k_.value == key:
                        if isinstance(v_, ast.Name):
                            ds = Q.reaching_defs(g, node, v_.id)
                            return [d.ast.value for d in ds if d.kind == 'stmt' and isinstance(d.ast, ast.Assign)]
                        return [v_]
                return []
            docs = [(m, w) for m in pat.region(g, 'except', h.ast) if m.kind == 'stmt' for w in ast.walk(m.ast) if isinstance(w, ast.Dict)]
            good = [1 for m, w in docs if (lambda es: bool(es) and all(pat.is_const(x, True) for x in es))(entry(w, 'errors', m))
                    and (lambda ids: bool(ids) and all('node_call_id' in src(x) for x in ids))(entry(w, 'id', m))]
            if not good:
                ok = False
    chk.ob('o', f.ref, 'a result that json cannot carry is answered with an error reply for the same call (the sender is not left waiting)', ok, loc(f, dumps[0].ast),
           path=pat.path_lines(path) if path else None, discr='unencodable-result-answered')


def rule_resend(repo, chk):
    """send() waits for the reply by polling a mark that the reply handler sets on the event object: a mark left by an earlier round trip of the same object must not
    end the wait of this one."""
    chk.rule('C19.n', 'the completion mark send() waits for is taken off the event before the wait begins (the same event object may be sent again: it must be waited '
                      'for and get its own result)')
    snd = need(_m(repo.cls(NODE_PROTOCOL, 'Protocol'), 'send'), 'C19.n: Protocol.send missing')
    chk.touch(snd)
    g = snd.cfg()
    ev = snd.params[1]
    loop_tests = [w.test for w in walk_no_defs(snd.node) if isinstance(w, ast.While)]
    waits = [n for n in g.nodes if n.kind == 'test' and 'hasattr' in src(n.ast) and any(n.ast is t or any(x is n.ast for x in ast.walk(t)) for t in loop_tests)]
    need(waits, 'C19.n: send() has no wait for a completion mark')
    marks = set()
    for n in waits:
        for c in calls_in(n.ast):
            if call_name(c) == 'hasattr' and len(c.args) == 2 and isinstance(c.args[1], ast.Constant):
                marks.add(c.args[1].value)
    def clears(n, mark):
        if n.kind != 'stmt':
            return False
        if isinstance(n.ast, ast.Delete) and any(src(t) == f'{ev}.{mark}' for t in n.ast.targets):
            return True
        return any(call_name(c) == 'delattr' and len(c.args) == 2 and src(c.args[0]) == ev and pat.is_const(c.args[1], mark) for c in calls_in(n.ast))
    for mark in sorted(marks):
        cl = [n for n in g.nodes if clears(n, mark)]
        absent = pat.test_edge(lambda tt, pol, mark=mark: any(call_name(c) == 'hasattr' and len(c.args) == 2 and src(c.args[0]) == ev and pat.is_const(c.args[1], mark)
                                                              for c in calls_in(tt)) and ((pol == 'F') != (isinstance(tt, ast.UnaryOp) and isinstance(tt.op, ast.Not))))
        for w in waits:
            first = [e for e in w.pred] if hasattr(w, 'pred') else []
            q = Q.reachable_without(g, w, avoid_node=lambda n: n in cl, avoid_edge=lambda e2: absent(e2) and e2.src is not w)
            chk.ob('n', snd.ref, f'the wait for `{mark}` cannot be ended by a mark that was on the event before this send', q is None, loc(snd, w.ast),
                   path=pat.path_lines(q) if q else None, discr=f'mark-cleared:{mark}')


def _m(cls, name):
    """Method by unmangled name (private names are written with two leading underscores in the source)."""
    return cls.methods.get(name)


def rule_a_f(repo, chk):
    cls = repo.cls(NODE_PROTOCOL, 'Protocol')
    f = need(_m(cls, 'add_buffer'), 'C19.a: Protocol.add_buffer missing')
    chk.touch(f)
    g = f.cfg()
    dv = f.params[1]
    buf = 'self.__buffer'
    app = [n for n in g.nodes if n.kind == 'stmt' and isinstance(n.ast, ast.AugAssign) and src(n.ast.target) == buf and src(n.ast.value) == dv]
    split = [n for n in g.nodes if n.kind == 'stmt' and isinstance(n.ast, ast.Assign) and src(n.ast.value) == f'{buf}.split(DELIMITER)']
    need(split, 'C19.a: add_buffer does not split the buffer at the delimiter')
    sp = split[0]
    pv = src(sp.ast.targets[0])
    q = Q.reachable_without(g, sp, avoid_node=lambda n: n in app, avoid_edge=pat.test_edge(lambda t, pol: pol == 'F' and src(t) == dv))
    chk.ob('a', f.ref, 'new data is appended to the carry before the buffer is split', q is None and bool(app), loc(f, sp.ast), discr='carry-plus-data')
    tails = [n for n in g.nodes if n.kind == 'stmt' and isinstance(n.ast, ast.Assign) and src(n.ast.value) in (f'{pv}.pop()', f'{pv}.pop(-1)')]
    star_tail = None
    t0 = sp.ast.targets[0]
    if isinstance(t0, ast.Tuple) and len(t0.elts) == 2 and isinstance(t0.elts[0], ast.Starred) and isinstance(t0.elts[0].value, ast.Name) and isinstance(t0.elts[1], ast.Name):
        # `*complete, remainder = buffer.split(DELIMITER)`: the split statement itself separates the tail
        pv, star_tail, tails = t0.elts[0].value.id, t0.elts[1].id, [sp]
    chk.ob('a', f.ref, 'the piece after the last delimiter is taken out of the list of complete packets', bool(tails), loc(f, sp.ast),
           detail='expected `tail = packets.pop()` (or an equivalent) before the packets are processed', discr='tail-separated')
    loops = [n for n in g.nodes if n.kind == 'for' and src(n.ast.iter) == pv]
    chk.ob('a', f.ref, 'every delimited packet is processed', bool(loops) and all(any(True for _r, _c in pat.method_calls(lp.ast, '__process_packet')) for lp in loops),
           loc(f, sp.ast), discr='packets-processed')
    for lp in loops:
        for t in tails:
            ok = Q.reachable_without(g, lp, avoid_node=lambda n: n is t) is None
            chk.ob('a', f.ref, 'the tail is removed before the loop over the complete packets', ok, loc(f, lp.ast), discr='tail-before-loop')
    if tails:
        tv = star_tail or src(tails[0].ast.targets[0])
        procs = [n for n in g.nodes if n.kind == 'stmt' and any(r == 'self' and [src(a) for a in c.args] == [tv] for r, c in pat.method_calls(n.ast, '__process_packet'))]
        checks = [n for n in g.nodes if n.kind == 'stmt' and any(call_name(c) in ('json.loads', 'loads') and tv in Q.names_used(c) for c in calls_in(n.ast))]
        stores = [n for n in g.nodes if n.kind == 'stmt' and isinstance(n.ast, ast.Assign) and src(n.ast.targets[0]) == buf and src(n.ast.value) == tv]
        for p_ in procs:
            q = Q.reachable_without(g, p_, avoid_node=lambda n: n in checks)
            chk.ob('a', f.ref, 'the undelimited tail is processed only after it was found to be a complete document', q is None and bool(checks), loc(f, p_.ast),
                   path=pat.path_lines(q) if q else None, discr='tail-complete-before-processing')
        ok = False
        path = None
        for c in checks:
            xs = [e for e in c.succ if e.kind == 'x' and e.exc == 'ValueError' and e.dst.kind == 'except']
            for e in xs:
                reg = pat.region(g, 'except', e.dst.ast)
                path = pat.escapes_region(g, e.dst, reg, lambda n: n in stores, exits=('exit',))
                ok = path is None and bool(stores)
        chk.ob('a', f.ref, 'an incomplete tail is stored back as the carry on every path', ok, loc(f, (checks or tails)[0].ast),
               path=pat.path_lines(path) if path else None, discr='tail-retained')
        # nothing else overwrites the carry after the tail was stored
        clears = [n for n in g.nodes if n.kind == 'stmt' and isinstance(n.ast, ast.Assign) and src(n.ast.targets[0]) == buf and n not in stores]
        bad = any(Q.reaches(s_, c_) for s_ in stores for c_ in clears)
        chk.ob('a', f.ref, 'the stored tail is not overwritten before add_buffer returns', not bad, loc(f, (stores or tails)[0].ast), discr='tail-not-overwritten')
    # f: decode errors
    pp = need(_m(cls, '__process_packet'), 'C19.f: __process_packet missing')
    chk.touch(pp)
    dec = [c for c in calls_in(pp.node) if isinstance(c.func, ast.Attribute) and c.func.attr == 'decode']
    for n in g.nodes:
        if n.kind == 'stmt':
            for r, c in pat.method_calls(n.ast, '__process_packet'):
                in_try = any(k == 'try' and any(handler_names(h) is None or set(handler_names(h)) & {'ValueError', 'UnicodeDecodeError', 'UnicodeError', 'Exception'}
                                                for h in a.handlers) for k, a in n.ctx)
                arg = src(c.args[0])
                predecoded = any(m.kind == 'stmt' and any(isinstance(c2.func, ast.Attribute) and c2.func.attr == 'decode' and src(c2.func.value) == arg
                                                           for c2 in calls_in(m.ast)) and Q.reachable_without(g, n, avoid_node=lambda x, m=m: x is m) is None
                                 for m in g.nodes)
                chk.ob('f', f.ref, f'a decoding error of `{arg}` cannot leave add_buffer (handled here, or the same bytes were decoded successfully before)',
                       in_try or predecoded or not dec, loc(f, c), discr=f'decode-contained:{arg}')
    # routing: decided on the structure of the decoded document, never by searching the raw text (payload data can contain any text)
    chk.rule('C19.i', 'a packet is routed to the call or the value decoder by the keys of the decoded document, not by a substring of its text')
    gp = pp.cfg()
    raw = pp.params[1]
    text_tests = [n for n in gp.nodes if n.kind == 'test' and any(isinstance(w, ast.Compare) and any(isinstance(o, (ast.In, ast.NotIn)) for o in w.ops)
                                                                  and any(src(c) == raw for c in w.comparators) and isinstance(w.left, ast.Constant)
                                                                  for w in ast.walk(n.ast))]
    docs = [n for n in gp.nodes if n.kind == 'stmt' and isinstance(n.ast, ast.Assign) and any(call_name(c) in ('json.loads', 'loads') for c in calls_in(n.ast))]
    routes = [n for n in gp.nodes if n.kind == 'stmt' and any(r == 'self' for m_ in ('__process_packet_value', '__process_packet_call') for r, _c in pat.method_calls(n.ast, m_))]
    ok_doc = bool(docs) and all(Q.reachable_without(gp, r_, avoid_node=lambda n: n in docs) is None for r_ in routes)
    chk.ob('i', pp.ref, 'the routing decision is taken on the decoded document', ok_doc and not text_tests and len(routes) >= 2, loc(pp, pp.node),
           detail='; '.join(src(n.ast) for n in text_tests), discr='routed-by-structure')
    if docs:
        dv_ = src(docs[0].ast.targets[0])
        key_tests = [n for n in gp.nodes if n.kind == 'test' and isinstance(n.ast, ast.Compare) and isinstance(n.ast.left, ast.Constant) and
                     src(n.ast.comparators[0]) == dv_ and n.ast.left.value == 'name']
        chk.ob('i', pp.ref, 'the discriminating key is one that only events carry at top level (name)', bool(key_tests), loc(pp, pp.node), discr='routing-key')
    for name, loader in (('__process_packet_call', 'load_event'), ('__process_packet_value', 'load_value')):
        h = need(_m(cls, name), f'C19.f: {name} missing')
        chk.touch(h)
        gh = h.cfg()
        for n in gh.nodes:
            if n.kind == 'stmt' and any(call_name(c) == loader for c in calls_in(n.ast)):
                names = set()
                for k, a in n.ctx:
                    if k == 'try':
                        for hh in a.handlers:
                            names |= set(handler_names(hh) or ('BaseException',))
                ok = {'TypeError', 'ValueError'} <= names or 'Exception' in names or 'BaseException' in names
                ok_lookup = 'LookupError' in names or {'KeyError', 'IndexError'} <= names or 'Exception' in names or 'BaseException' in names
                chk.ob('f', h.ref, f'{loader}() is called inside a handler for malformed input (TypeError, ValueError, LookupError)', ok and ok_lookup,
                       loc(h, n.ast), detail=f'handlers: {sorted(names)}', discr=f'loader-guarded:{loader}')


def static_meta_exclude(repo):
    """dir(Event()) reconstructed from source + explicit META_EXCLUDE.add('…') calls."""
    ev = repo.cls(EVENTS, 'Event')
    names = set(OBJECT_DIR)
    for c in ev.mro():
        names |= set(c.class_attrs)
        names |= set(c.methods)
        if c.node is not None:
            for st in c.node.body:
                if isinstance(st, (ast.FunctionDef, ast.AsyncFunctionDef)):
                    names.add(st.name)
        init = c.methods.get('__init__')
        if init is not None:
            for n in walk_no_defs(init.node):
                if isinstance(n, ast.Assign):
                    for recv, attr, _v in pat.attr_store(n):
                        if recv == 'self':
                            names.add(attr)
    m = repo.module(NODE_UTILS)
    base_ok = False

    def class_dir(c0):
        out = set()
        for c in c0.mro():
            out |= set(c.class_attrs) | set(c.methods)
            if c.node is not None:
                out |= {st.name for st in c.node.body if isinstance(st, (ast.FunctionDef, ast.AsyncFunctionDef))}
            i_ = c.methods.get('__init__')
            if i_ is not None:
                for n_ in walk_no_defs(i_.node):
                    if isinstance(n_, ast.Assign):
                        out |= {attr for recv, attr, _v in pat.attr_store(n_) if recv == 'self'}
        return out
    for n in m.tree.body:
        # META_EXCLUDE.update(dir(SomeEvent(...))): the attributes of that event class, reconstructed the same way
        if isinstance(n, ast.Expr) and isinstance(n.value, ast.Call) and call_name(n.value) == 'META_EXCLUDE.update' and n.value.args \
                and isinstance(n.value.args[0], ast.Call) and call_name(n.value.args[0]) == 'dir' and n.value.args[0].args \
                and isinstance(n.value.args[0].args[0], ast.Call):
            cn = call_name(n.value.args[0].args[0])
            tgt = repo.resolve_name(m, cn) if cn else None
            if tgt is not None and hasattr(tgt, 'mro'):
                names |= class_dir(tgt)
        if isinstance(n, ast.Assign) and src(n.targets[0]) == 'META_EXCLUDE':
            base_ok = src(n.value).replace(' ', '') == 'set(dir(Event()))'
        if isinstance(n, ast.Expr) and isinstance(n.value, ast.Call) and call_name(n.value) == 'META_EXCLUDE.add' and n.value.args \
                and isinstance(n.value.args[0], ast.Constant):
            names.add(n.value.args[0].value)
        if isinstance(n, ast.Expr) and isinstance(n.value, ast.Call) and call_name(n.value) == 'META_EXCLUDE.update' and n.value.args \
                and isinstance(n.value.args[0], (ast.Set, ast.List, ast.Tuple)):
            names |= {e.value for e in n.value.args[0].elts if isinstance(e, ast.Constant)}
    return names, base_ok


def dispatcher_touched(repo, chk):
    """Attribute names read or written on event-typed receivers by the core dispatch machinery."""
    touched = {}
    mgr = repo.cls(MANAGER, 'Manager')
    funcs = []
    for name in ('_dispatcher', '_eventDone', '_eventComplete', '_fire', 'fireEvent', 'processTask', 'tick'):
        f = mgr.methods.get(name)
        if f is not None:
            funcs.append((f, [f.params[1]] if len(f.params) > 1 else []))
    w = mgr.methods.get('waitEvent')
    if w is not None:
        for nf in w.nested.values():
            if 'event' in nf.params:
                funcs.append((nf, ['event']))
    v = repo.cls(VALUES, 'Value')
    inf = v.methods.get('inform')
    if inf is not None:
        funcs.append((inf, ['self.event']))
    for f, recvs in funcs:
        chk.touch(f)
        # aliases: `cause = getattr(event, 'cause', None)` … `event = cause` keep the same type; `self._currently_handling`
        recvs = set(recvs) | ({'self._currently_handling'} if f.name == '_fire' else set())
        for n in ast.walk(f.node):
            narrowed = False
            p = getattr(n, '_parent', None)
            cur = n
            while p is not None and p is not f.node:
                if isinstance(p, ast.If) and 'isinstance(' in src(p.test) and cur in p.body and any(r in src(p.test) for r in recvs):
                    narrowed = True
                if isinstance(p, ast.ExceptHandler):
                    pass
                cur = p
                p = getattr(p, '_parent', None)
            if narrowed:
                continue
            if isinstance(n, ast.Attribute) and src(n.value) in recvs:
                touched.setdefault(n.attr, f'{f.ref}:{n.lineno}')
            if isinstance(n, ast.Call) and call_name(n) in ('getattr', 'hasattr', 'delattr', 'setattr') and len(n.args) >= 2 and src(n.args[0]) in recvs \
                    and isinstance(n.args[1], ast.Constant):
                touched.setdefault(n.args[1].value, f'{f.ref}:{n.lineno}')
    return touched


def rule_b(repo, chk):
    excl, base_ok = static_meta_exclude(repo)
    m = repo.module(NODE_UTILS)
    chk.ob('b', f'{NODE_UTILS}::META_EXCLUDE', 'META_EXCLUDE starts from dir(Event())', base_ok, NODE_UTILS, discr='base')
    touched = dispatcher_touched(repo, chk)
    need(len(touched) >= 15, f'C19.b: only {len(touched)} event attributes found in the dispatcher, 20 confirmed by hand')
    missing = sorted(a for a in touched if a not in excl and a != 'reduce_time_left')
    chk.ob('b', f'{NODE_UTILS}::META_EXCLUDE', f'all {len(touched)} attributes the dispatcher touches on events are excluded from peer-settable meta data',
           not missing, NODE_UTILS, detail=('missing: ' + ', '.join(f'{a} (used at {touched[a]})' for a in missing)) if missing else
           f'touched: {sorted(touched)}', discr='dispatcher-attrs-excluded')
    for a in missing:
        chk.ob('b', f'{NODE_UTILS}::META_EXCLUDE', f'`{a}` is excluded', False, NODE_UTILS, detail=f'used at {touched[a]}', discr=f'missing:{a}')
    # handlers are matched by event *name*: what the handlers of the loop's own idle event read from "their" event must not be peer-settable either
    idle = {}
    for f in repo.handlers_of('generate_events'):
        if len(f.params) < 2 or not f.module.relpath.startswith('circuits/core/'):
            continue
        chk.touch(f)
        evp = f.params[1]
        todo = [(f, evp)]
        seen_f = set()
        while todo:
            ff, pv = todo.pop()
            if (ff.ref, pv) in seen_f:
                continue
            seen_f.add((ff.ref, pv))
            rebound = set()     # loops that re-use the parameter's name for something else (KQueue: `for event in events`)
            for w in ast.walk(ff.node):
                if isinstance(w, ast.For) and any(isinstance(t, ast.Name) and t.id == pv for t in ast.walk(w.target)):
                    rebound |= {id(x) for x in ast.walk(w)}
            for w in ast.walk(ff.node):
                if isinstance(w, ast.Attribute) and isinstance(w.value, ast.Name) and w.value.id == pv and isinstance(w.ctx, ast.Load) and id(w) not in rebound:
                    idle.setdefault(w.attr, f'{ff.module.relpath}:{w.lineno}')
                # the event handed on to a method of the same class (pollers: self._generate_events(event))
                if isinstance(w, ast.Call) and isinstance(w.func, ast.Attribute) and src(w.func.value) == 'self' and ff.cls is not None and id(w) not in rebound:
                    for c2 in [ff.cls] + repo.subclasses(ff.cls):
                        m2 = c2.methods.get(w.func.attr)
                        if m2 is not None:
                            for i, a in enumerate(w.args):
                                if src(a) == pv and i + 1 < len(m2.params):
                                    todo.append((m2, m2.params[i + 1]))
    need(len(idle) >= 2, f'C19.b: attributes read by generate_events handlers: {sorted(idle)}; time_left/stop/lock confirmed by hand')
    miss3 = sorted(a for a in idle if a not in excl)
    chk.ob('b', f'{NODE_UTILS}::META_EXCLUDE', f'the {len(idle)} attributes the idle handlers (matched by the name generate_events) read from their event are excluded from '
           'peer-settable meta data', not miss3, NODE_UTILS, detail=('missing: ' + ', '.join(f'{a} (read at {idle[a]})' for a in miss3)) if miss3 else f'read: {sorted(idle)}',
           discr='idle-attrs-excluded')
    # node's own bookkeeping attributes
    p = repo.cls(NODE_PROTOCOL, 'Protocol')
    own = set()
    for f in p.methods.values():
        for n in walk_no_defs(f.node):
            if isinstance(n, ast.Assign):
                for recv, attr, _v in pat.attr_store(n):
                    if recv.isidentifier() and recv != 'self' and (attr.startswith('node_') or attr in ('success_channels', 'remote_finish', 'errors')):
                        own.add(attr)
    miss2 = sorted(a for a in own if a not in excl and a.startswith('node_') or (a == 'success_channels' and a not in excl))
    chk.ob('b', f'{NODE_UTILS}::META_EXCLUDE', 'the node layer\'s own routing attributes are excluded as well', not miss2, NODE_UTILS, detail=f'{sorted(own)}; missing {miss2}',
           discr='node-attrs-excluded')


def rule_c_g(repo, chk):
    le = repo.func(NODE_UTILS, 'load_event')
    chk.touch(le)
    g = le.cfg()
    ch = [n for n in g.nodes if n.kind == 'stmt' and any(a == 'channels' for _r, a, _v in pat.attr_store(n.ast))]
    need(ch, 'C19.c: load_event does not set channels')
    rets = [n for n in g.nodes if n.kind == 'stmt' and isinstance(n.ast, ast.Return)]
    chv = {src(t) for n in ch for t in n.ast.targets}        # the expression(s) the channels are stored in (`e.channels`)

    def is_str_test(t, x):
        return isinstance(t, ast.Call) and call_name(t) == 'isinstance' and len(t.args) == 2 and src(t.args[0]) == x and src(t.args[1]) in ('str', '(str,)')
    # form 1: `if not all(isinstance(c, str) for c in e.channels): raise`
    gates = []
    for n in g.nodes:
        if n.kind != 'test' or not isinstance(n.ast, ast.Call) or call_name(n.ast) != 'all' or len(n.ast.args) != 1:
            continue
        ge = n.ast.args[0]
        if isinstance(ge, (ast.GeneratorExp, ast.ListComp)) and len(ge.generators) == 1 and not ge.generators[0].ifs and src(ge.generators[0].iter) in chv \
                and isinstance(ge.generators[0].target, ast.Name) and is_str_test(ge.elt, ge.generators[0].target.id):
            if any(e.kind == 'F' and e.dst.kind == 'stmt' and isinstance(e.dst.ast, ast.Raise) for e in n.succ):
                gates.append(n)
    # form 2: `for c in e.channels: if not isinstance(c, str): raise` — every iteration passes the test first, and its failing edge raises
    for lp in g.nodes:
        if lp.kind != 'for' or src(lp.ast.iter) not in chv or not isinstance(lp.ast.target, ast.Name):
            continue
        tests = [n for n in g.nodes if n.kind == 'test' and ('loop', lp.ast) in n.ctx and is_str_test(n.ast, lp.ast.target.id)
                 and any(e.kind == 'F' and e.dst.kind == 'stmt' and isinstance(e.dst.ast, ast.Raise) for e in n.succ)]
        body_entry = [e.dst for e in lp.succ if e.kind in ('T', 'n') and e.dst is not None and ('loop', lp.ast) in e.dst.ctx]
        if tests and body_entry and all(b_ in tests for b_ in body_entry):
            gates.append(lp)
    checks = gates
    ok = bool(checks)
    path = None
    for r in rets:
        q = Q.reachable_without(g, r, avoid_node=lambda n: n in checks)
        if q is not None:
            ok = False
            path = q
    # the channels are not re-bound after the check
    for c in checks:
        if any(Q.reaches(c, n) and n is not c for n in ch):
            ok = False
    chk.ob('c', le.ref, 'an event only leaves load_event after its channels were checked to be strings (else an exception the caller handles)', ok,
           loc(le, ch[0].ast), path=pat.path_lines(path) if path else None, discr='channels-checked')
    tup = all('tuple(' in src(n.ast.value) for n in ch)
    chk.ob('c', le.ref, 'channels become a tuple (hashable container)', tup, loc(le, ch[0].ast), discr='channels-tuple')
    flags = [n for n in g.nodes if n.kind == 'stmt' and any(a in ('success', 'failure', 'notify') for _r, a, _v in pat.attr_store(n.ast))]
    chk.ob('c', le.ref, 'feedback flags from the peer are coerced to bool', len(flags) >= 3 and all(src(n.ast.value).startswith('bool(') for n in flags), loc(le, le.node),
           discr='flags-bool')
    # g: setattr filter
    sets = [n for n in g.nodes if n.kind == 'stmt' and any(call_name(c) == 'setattr' for c in calls_in(n.ast))]
    need(sets, 'C19.g: load_event does not apply meta data')
    for n in sets:
        c = [c for c in calls_in(n.ast) if call_name(c) == 'setattr'][0]
        kv = src(c.args[1])
        q1 = pat.guarded_by(g, n, pat.test_edge(lambda t, pol: pol == 'F' and src(t).replace('"', "'") == f"{kv}.startswith('__')"))
        q2 = pat.guarded_by(g, n, pat.test_edge(lambda t, pol: pat.fact_matches(pat.compare_fact(t, pol), kv, ('not in',), 'META_EXCLUDE')))
        chk.ob('g', le.ref, 'a peer-provided key is set on the event only if it is not a dunder and not in META_EXCLUDE', q1 is None and q2 is None, loc(le, c),
               path=pat.path_lines(q1 or q2) if (q1 or q2) else None, discr='load_event-filter')
    lv = repo.func(NODE_UTILS, 'load_value')
    chk.touch(lv)
    comp = [n for n in ast.walk(lv.node) if isinstance(n, ast.DictComp)]
    ok = False
    for dc in comp:
        conds = ' and '.join(src(i) for gen in dc.generators for i in gen.ifs).replace('"', "'")
        kv = src(dc.key)
        ok = f"not {kv}.startswith('__')" in conds and f'{kv} not in META_EXCLUDE' in conds
    if not comp:
        # loop form: `for k, v in data['meta'].items(): if <reserved>: continue; meta[k] = v`
        gl = lv.cfg()
        puts = [n for n in gl.nodes if n.kind == 'stmt' and isinstance(n.ast, ast.Assign) and isinstance(n.ast.targets[0], ast.Subscript) and any(k == 'loop' for k, _a in n.ctx)]
        ok = bool(puts)
        for n in puts:
            kv = src(n.ast.targets[0].slice)
            q1 = pat.guarded_by(gl, n, pat.test_edge(lambda t, pol: pol == 'F' and src(t).replace('"', "'") == f"{kv}.startswith('__')"))
            q2 = pat.guarded_by(gl, n, pat.test_edge(lambda t, pol: pat.fact_matches(pat.compare_fact(t, pol), kv, ('not in',), 'META_EXCLUDE')))
            ok = ok and q1 is None and q2 is None
    chk.ob('g', lv.ref, 'meta data of a returned value is filtered the same way', ok, loc(lv, lv.node), discr='load_value-filter')
    pv = need(_m(repo.cls(NODE_PROTOCOL, 'Protocol'), '__process_packet_value'), 'C19.g: __process_packet_value missing')
    gp = pv.cfg()
    for n in gp.nodes:
        if n.kind == 'stmt' and any(call_name(c) == 'setattr' for c in calls_in(n.ast)):
            loops = [a for k, a in n.ctx if k == 'loop']
            # the dict that is applied: the one the loop iterates over with .items(); it must come out of load_value (4th component)
            mv_ = None
            if loops and isinstance(loops[-1].iter, ast.Call) and isinstance(loops[-1].iter.func, ast.Attribute) and loops[-1].iter.func.attr == 'items' \
                    and isinstance(loops[-1].iter.func.value, ast.Name):
                mv_ = loops[-1].iter.func.value.id
            ok = mv_ is not None
            defs = [m for m in gp.nodes if m.kind == 'stmt' and isinstance(m.ast, ast.Assign) and mv_ in Q.node_defs(m)] if mv_ else []
            ok = ok and bool(defs) and all('load_value(' in src(m.ast.value) and isinstance(m.ast.targets[0], ast.Tuple) and len(m.ast.targets[0].elts) == 4
                                           and src(m.ast.targets[0].elts[3]) == mv_ for m in defs)
            chk.ob('g', pv.ref, 'the value path applies only the meta data filtered by load_value', ok, loc(pv, n.ast), discr='value-path-filtered')


def rule_tables(repo, chk):
    """Writer/reader agreement of the two packet formats."""
    chk.rule('C19.j', 'the keys dump_event/dump_value write are exactly the keys load_event/load_value read, and each field is written from / restored '
                      'to the attribute of the same name')
    for dname, lname in (('dump_event', 'load_event'), ('dump_value', 'load_value')):
        d = repo.func(NODE_UTILS, dname)
        l_ = repo.func(NODE_UTILS, lname)
        chk.touch(d)
        chk.touch(l_)
        written = {}
        for n in walk_no_defs(d.node):
            if isinstance(n, ast.Dict) and n.keys and all(isinstance(k, ast.Constant) for k in n.keys) and len(n.keys) >= 3:
                written = {k.value: src(v) for k, v in zip(n.keys, n.values)}
        read = set()
        for n in walk_no_defs(l_.node):
            if isinstance(n, ast.Subscript) and src(n.value) == 'data' and isinstance(n.slice, ast.Constant):
                read.add(n.slice.value)
        for n in ast.walk(l_.node):
            if isinstance(n, ast.Subscript) and src(n.value) == 'data' and isinstance(n.slice, ast.Constant):
                read.add(n.slice.value)
        chk.ob('j', f'{NODE_UTILS}::{dname}/{lname}', f'{dname} writes exactly the keys {lname} reads', bool(written) and set(written) == read, NODE_UTILS,
               detail=f'written {sorted(written)}, read {sorted(read)}', discr=f'keys:{dname}')
        if dname == 'dump_event':
            ev = d.params[0]
            same = {k: v for k, v in written.items() if k not in ('id', 'meta')}
            ok = all(v == f'{ev}.{k}' for k, v in same.items()) and written.get('id') == d.params[1]
            chk.ob('j', d.ref, 'every field of the event packet is taken from the event attribute of the same name; the id is the call id', ok, loc(d, d.node),
                   detail=f'{same}', discr='fields:dump_event')
            restored = {}
            for n in walk_no_defs(l_.node):
                if isinstance(n, ast.Assign):
                    for recv, attr, val in pat.attr_store(n):
                        if recv == 'e':
                            keys = [w.slice.value for w in ast.walk(val) if isinstance(w, ast.Subscript) and src(w.value) == 'data' and isinstance(w.slice, ast.Constant)]
                            restored[attr] = keys
            ok = all(v == [k] for k, v in restored.items()) and set(restored) >= {'success', 'failure', 'notify', 'channels'}
            chk.ob('j', l_.ref, 'load_event restores each flag from the packet field of the same name', ok, loc(l_, l_.node), detail=f'{restored}', discr='fields:load_event')
            ctor = [c for c in calls_in(l_.node) if (call_name(c) or '').endswith('.create')]
            ok = bool(ctor) and [src(a) for a in ctor[0].args] == ['name', '*args'] and any(k.arg is None and src(k.value) == 'kwargs' for k in ctor[0].keywords)
            chk.ob('j', l_.ref, 'the event is re-created from name, args and kwargs of the packet', ok, loc(l_, l_.node), discr='recreated')
            # … and whatever keyword the sender used can be passed through: the factory binds no keyword itself
            cr = repo.cls(EVENTS, 'Event').methods.get('create')
            okk = cr is not None and not [a.arg for a in cr.node.args.args if a.arg not in ('cls', 'self')] and \
                (not cr.node.args.args or all(a.arg in ('cls', 'self') for a in cr.node.args.args)) and \
                (len(cr.node.args.posonlyargs) >= 1 or cr.node.args.vararg is not None and not cr.node.args.args)
            named = [a.arg for a in (cr.node.args.args if cr is not None else [])]
            chk.ob('j', cr.ref if cr is not None else l_.ref, 'Event.create takes its own parameters positionally only, so every keyword argument of the packet '
                   '(including `cls`, `_name`) reaches the event', cr is not None and not named, loc(cr, cr.node) if cr is not None else loc(l_, l_.node),
                   detail=f'parameters that can be bound by keyword: {named}', discr='factory-binds-no-keyword')
        else:
            v = d.params[0]
            ok = written.get('id') == f'{v}.node_call_id' and written.get('errors') == f'{v}.errors' and written.get('value') in (f'{v}._value', f'{v}.value')
            chk.ob('j', d.ref, 'the value packet carries the call id, the error flag and the value of the Value it was made from', ok, loc(d, d.node),
                   detail=f'{written}', discr='fields:dump_value')
            rets = [n for n in walk_no_defs(l_.node) if isinstance(n, ast.Return)]
            ok = bool(rets) and all(isinstance(r.value, ast.Tuple) and [src(x) for x in r.value.elts[:3]] == ["data['value']", "data['id']", "data['errors']"] for r in rets)
            chk.ob('j', l_.ref, 'load_value returns (value, id, errors, meta) from the fields of the same name', ok, loc(l_, l_.node), discr='fields:load_value')
    pv = _m(repo.cls(NODE_PROTOCOL, 'Protocol'), '__process_packet_value')
    unp = [n for n in walk_no_defs(pv.node) if isinstance(n, ast.Assign) and isinstance(n.targets[0], ast.Tuple) and 'load_value(' in src(n.value)]
    ok = bool(unp) and len(unp[0].targets[0].elts) == 4 and all(isinstance(x, ast.Name) for x in unp[0].targets[0].elts)
    uses = False
    if ok:
        v_, i_, e_, _m_ = [x.id for x in unp[0].targets[0].elts]
        body = src(pv.node)
        # the in-flight event looked up by the id of the packet; value and error flag stored on it
        look = [n for n in walk_no_defs(pv.node) if isinstance(n, ast.Assign) and isinstance(n.targets[0], ast.Name) and
                src(n.value).replace(' ', '') in (f'self.__events.get({i_})', f'self.__events[{i_}]')]
        if look:
            evn = look[0].targets[0].id
            uses = f'setValue({v_})' in body and any(isinstance(n, ast.Assign) and src(n.targets[0]) == f'{evn}.errors' and src(n.value) == e_ for n in walk_no_defs(pv.node))
    chk.ob('j', pv.ref, 'a received result is matched to the in-flight call by its id and stores value and error flag on that call\'s event', ok and uses,
           loc(pv, pv.node), discr='result-matched-by-id')


def rule_d_e(repo, chk):
    cls = repo.cls(NODE_PROTOCOL, 'Protocol')
    entry = need(_m(cls, 'send'), 'C19.d: Protocol.send missing')
    # the function that puts an event on the wire: the one that serialises it (send itself, or a helper it was moved into)
    txf = [m for m in cls.methods.values() if any(call_name(c) == 'dump_event' for c in calls_in(m.node))]
    need(txf, 'C19.d: no method of Protocol serialises events')
    s = txf[0]
    chk.touch(s)
    chk.touch(entry)
    g = s.cfg()
    ev = s.params[1]
    tx = [n for n in g.nodes if n.kind == 'stmt' and any(r == 'self' for r, _c in pat.method_calls(n.ast, '__send'))]
    need(tx, 'C19.d: the serialising method never transmits')
    fw = 'self.__send_event_firewall'

    def passed_for(evx):
        return pat.test_edge(lambda t, pol: (pol == 'F' and src(t) == fw) or (pol == 'T' and src(t).startswith(f'{fw}({evx}')))
    if s is entry:
        for n in tx:
            q = pat.guarded_by(g, n, passed_for(ev))
            chk.ob('d', s.ref, 'an event is transmitted only if no send firewall is configured or the firewall accepted it', q is None, loc(s, n.ast),
                   path=pat.path_lines(q) if q else None, discr='send-firewall')
    helpers_ = [m for m in txf if m is not entry] if s is entry else [s]
    for s in helpers_:
        # transmission (also) lives in a helper: every call of the helper, anywhere in the node package, must have passed the firewall of this protocol
        # (calls that were inlined into their caller — sa/inline.py — are judged there, as part of the caller)
        n_sites = 0
        for f in repo.all_functions():
            if not f.module.relpath.startswith('circuits/node/'):
                continue
            gf = None
            for c in calls_in(f.node):
                if isinstance(c.func, ast.Attribute) and c.func.attr == s.name and c.args:
                    n_sites += 1
                    gf = gf or f.cfg()
                    inside = f.cls is cls and src(c.func.value) == 'self'
                    okc = False
                    for n in gf.node_for(c):
                        okc = inside and pat.guarded_by(gf, n, passed_for(src(c.args[0]))) is None
                    chk.ob('d', f.ref, f'`{src(c)[:60]}` puts an event on the wire only after the send firewall of the protocol accepted it (or none is configured)',
                           okc, loc(f, c), discr=f'send-firewall:{f.qualname}')
        chk.ob('d', s.ref, 'the transmitting helper is used', n_sites > 0 or getattr(s, 'absorbed', False) or bool(repo.inlined), loc(s, s.node), discr='send-firewall', nontrivial=False)
    s = txf[0]
    # every transmitted packet consumes a call id (the peer answers every event under its id)
    ids = [n for n in g.nodes if n.kind == 'stmt' and isinstance(n.ast, ast.Assign) and src(n.ast.value) == 'self.__nid']
    incs = [n for n in g.nodes if n.kind == 'stmt' and isinstance(n.ast, ast.AugAssign) and src(n.ast.target) == 'self.__nid' and isinstance(n.ast.op, ast.Add)]
    chk.rule('C19.h', 'every transmitted event takes a fresh call id (the counter is advanced on every path that transmits)')
    for n in tx:
        q1 = Q.reachable_without(g, n, avoid_node=lambda m: m in ids)
        before = Q.reachable_without(g, n, avoid_node=lambda m: m in incs)
        after = Q.escapes(g, [n], lambda m: m in incs, exits=('exit',), exc=()) if before is not None else None
        chk.ob('h', s.ref, 'a transmitted event carries the current call id and the counter is advanced on every path, whether or not a result is awaited',
               q1 is None and bool(ids) and bool(incs) and (before is None or after is None), loc(s, n.ast),
               path=pat.path_lines((before or []) + (after or [])) if (before is not None and after is not None) else None, discr='fresh-call-id')
    dump = [n for n in g.nodes if n.kind == 'stmt' and any(call_name(c) == 'dump_event' and src(c.args[0]) == ev for c in calls_in(n.ast))]
    chk.ob('d', s.ref, 'what is transmitted is the serialised event followed by the delimiter', bool(dump) and all('+ DELIMITER' in src(n.ast) for n in dump), loc(s, s.node),
           discr='packet-shape')
    rc = need(_m(cls, '__process_packet_call'), 'C19.d: __process_packet_call missing')
    chk.touch(rc)
    gr = rc.cfg()
    # the received event and its call id: what load_event() is unpacked into
    rev, rid = 'event', 'id'
    for n_ in walk_no_defs(rc.node):
        if isinstance(n_, ast.Assign) and isinstance(n_.value, ast.Call) and call_name(n_.value) == 'load_event' and isinstance(n_.targets[0], ast.Tuple) \
                and len(n_.targets[0].elts) == 2 and all(isinstance(x, ast.Name) for x in n_.targets[0].elts):
            rev, rid = n_.targets[0].elts[0].id, n_.targets[0].elts[1].id
    fires = [n for n in gr.nodes if n.kind == 'stmt' and any(src(e) == rev for _c, _r, e in pat.fire_calls(n.ast))]
    need(fires, 'C19.d: received events are never dispatched')
    fw = 'self.__receive_event_firewall'
    passed = pat.test_edge(lambda t, pol: (pol == 'F' and src(t) == fw) or (pol == 'T' and src(t).startswith(f'{fw}({rev}')))
    for n in fires:
        q = pat.guarded_by(gr, n, passed)
        chk.ob('d', rc.ref, 'a received event is dispatched only if no receive firewall is configured or the firewall accepted it', q is None, loc(rc, n.ast),
               path=pat.path_lines(q) if q else None, discr='receive-firewall')
        # e: feedback requested before firing
        via_exc = _failure_via_exception(cls, chk)
        for flag, label in (('success', 'success'), ('failure', 'failure')):
            st = [m for m in gr.nodes if m.kind == 'stmt' and rev in pat.stores_attr(m.ast, flag, True)]
            q = Q.reachable_without(gr, n, avoid_node=lambda m: m in st)
            ok_ = (q is None and bool(st)) or (label == 'failure' and via_exc)
            chk.ob('e', rc.ref, f'the remote event is marked for {label} feedback before it is dispatched (so that its outcome can be sent back)' +
                   (', or its failure is reported from the exception event of the call' if label == 'failure' else ''), ok_,
                   loc(rc, n.ast), discr=f'feedback-requested:{label}')
        st = [m for m in gr.nodes if m.kind == 'stmt' and rev in pat.stores_attr(m.ast, 'success_channels') and "'node_result'" in src(m.ast.value)]
        chk.ob('e', rc.ref, 'success feedback is routed to the result channel', bool(st), loc(rc, n.ast), discr='success-routed')
        ids = [m for m in gr.nodes if m.kind == 'stmt' and rev in pat.stores_attr(m.ast, 'node_call_id') and src(m.ast.value) == rid]
        chk.ob('e', rc.ref, 'the call id of the peer is remembered on the event', bool(ids), loc(rc, n.ast), discr='call-id')
    rh = need(_m(cls, 'result_handler'), 'C19.e: result_handler missing')
    chk.touch(rh)
    ok = rh.handler is not None and rh.handler.channel is not None and src(rh.handler.channel) == "'node_result'"
    chk.ob('e', rh.ref, 'the result handler listens on the result channel', ok, loc(rh, rh.node), discr='result-channel')
    sends = [c for r, c in pat.method_calls(rh.node, 'send_result') if r == 'self']
    ok = bool(sends) and all(src(c.args[0]).endswith('.node_call_id') and src(c.args[1]).endswith('.value') for c in sends)
    chk.ob('e', rh.ref, 'the result handler sends the value of the finished event back under its call id', ok, loc(rh, rh.node), discr='result-sent')
    names = {w.value for w in ast.walk(rh.node) if isinstance(w, ast.Constant) and isinstance(w.value, str)}
    chk.ob('e', rh.ref, 'the result handler reacts to failure feedback as well as to success feedback (or an exception handler of the protocol relays failures)',
           ('_failure' in names and '_success' in names) or ('_success' in names and _failure_via_exception(cls, None)), loc(rh, rh.node),
           detail=f'suffixes handled: {sorted(n for n in names if n.startswith("_"))}', discr='failure-relayed')
    # blocked by the receive firewall: an (empty) result is still sent so that the caller is not left waiting
    blocked = [e for n in gr.nodes if n.kind == 'test' and src(n.ast).startswith(f'{fw}({rev}') for e in n.succ if e.kind == 'F']
    for e in blocked:
        sr = [m for m in gr.nodes if m.kind == 'stmt' and any(r == 'self' for r, _c in pat.method_calls(m.ast, 'send_result'))]
        p = Q.escapes(gr, [e.dst], lambda m: m in sr) if e.dst not in sr else None
        chk.ob('d', rc.ref, 'a rejected call is answered (with an empty value) instead of being dispatched', p is None and bool(sr), loc(rc, e.src.ast),
               discr='rejected-answered')


MUTABLE_CTORS = ('dict', 'list', 'set', 'deque', 'defaultdict', 'OrderedDict', 'bytearray')


def _mutable_literal(v):
    return isinstance(v, (ast.Dict, ast.List, ast.Set, ast.DictComp, ast.ListComp, ast.SetComp)) or \
        (isinstance(v, ast.Call) and (call_name(v) or '').split('.')[-1] in MUTABLE_CTORS)


def rule_k_l(repo, chk):
    chk.rule('C19.k', 'every Protocol listens on the result channel, so the relay answers a finished call only through the protocol that received it: '
                      'the call is stamped with the receiving protocol before dispatch and the relay tests that stamp against itself')
    chk.rule('C19.l', 'per-connection state of the node protocol (buffer, call counter, in-flight calls) is per instance: a class-level mutable '
                      'container is rebound to a fresh one in init() on every path')
    cls = repo.cls(NODE_PROTOCOL, 'Protocol')
    pc = need(_m(cls, '__process_packet_call'), 'C19.k: Protocol.__process_packet_call missing')
    rh = need(_m(cls, 'result_handler'), 'C19.k: Protocol.result_handler missing')
    chk.touch(pc)
    chk.touch(rh)
    g = pc.cfg()
    fires = [n for n in g.nodes if n.kind == 'stmt' and any(True for _c, _r, _e in pat.fire_calls(n.ast))]
    need(fires, 'C19.k: __process_packet_call never fires the received event')
    stamps = {}
    for n in g.nodes:
        if n.kind == 'stmt' and isinstance(n.ast, ast.Assign):
            for recv, attr, val in pat.attr_store(n.ast):
                if src(val) == 'self' and recv != 'self':
                    stamps.setdefault(attr, []).append(n)
    decl = handler_decl_channel(rh)
    shared = decl == "'node_result'"
    rg = rh.cfg()
    sends = [n for n in rg.nodes if n.kind in ('stmt', 'test') and n.ast is not None and any(r == 'self' for r, _c in pat.method_calls(n.ast, 'send_result'))]
    need(sends, 'C19.k: result_handler never sends a result')

    def own_test(attr):
        def pred(tt, pol):
            t = src(tt)
            if f"'{attr}'" not in t and f'.{attr}' not in t:
                return False
            f_ = pat.compare_fact(tt, pol)
            return f_ is not None and f_[1] in ('is', '==') and 'self' in (f_[0], f_[2])
        return pat.test_edge(pred)
    ok = False
    why = 'no attribute of the received event is stamped with the receiving protocol'
    for attr, ns in stamps.items():
        stamped = all(Q.reachable_without(g, f_, avoid_node=lambda n, ns=ns: n in ns) is None for f_ in fires)
        guarded = all(pat.guarded_by(rg, s_, own_test(attr)) is None for s_ in sends)
        if stamped and guarded:
            ok = True
        else:
            why = f'stamp `{attr}`: set before every dispatch={stamped}, tested before every relay={guarded}'
    chk.ob('k', rh.ref, 'a result is relayed only by the protocol that received the call', ok or not shared, loc(rh, rh.node), detail=None if ok else why,
           discr='relay-own-calls-only')
    # l: per-instance state
    _per_instance(repo, chk, cls, NODE_PROTOCOL, 3)
    _per_instance(repo, chk, repo.cls('circuits/node/node.py', 'Node'), 'circuits/node/node.py', 1)
    _per_instance(repo, chk, repo.cls('circuits/node/server.py', 'Server'), 'circuits/node/server.py', 1)
    # the counter and the buffer are immutable values rebound through self (augmented assignment creates the instance attribute)
    for nm in ('__nid', '__buffer'):
        shared_write = [n for f in cls.methods.values() for n in ast.walk(f.node) if isinstance(n, ast.Attribute) and isinstance(n.ctx, ast.Store) and n.attr == nm
                        and src(n.value) not in ('self',)]
        chk.ob('l', f'{NODE_PROTOCOL}::Protocol.{nm}', f'`{nm}` is only written through the instance', not shared_write, NODE_PROTOCOL, discr=f'instance-write:{nm}')


def _per_instance(repo, chk, cls, relpath, min_attrs):
    if True:
        ini = need(_m(cls, 'init') or _m(cls, '__init__'), f'C19.l: {cls.name} has no init')
        chk.touch(ini)
        gi = ini.cfg()
        n_attrs = 0
        for st in cls.node.body:
            if isinstance(st, ast.Assign) and len(st.targets) == 1 and isinstance(st.targets[0], ast.Name):
                nm = st.targets[0].id
                n_attrs += 1
                if not _mutable_literal(st.value):
                    continue
                mutated = any(isinstance(n, (ast.Subscript, ast.Attribute)) and src(n).startswith(f'self.{nm}') and isinstance(getattr(n, 'ctx', None), (ast.Store, ast.Del))
                              and src(n) != f'self.{nm}' for f in cls.methods.values() for n in ast.walk(f.node)) or \
                    any(isinstance(c.func, ast.Attribute) and src(c.func.value) == f'self.{nm}' and c.func.attr in ('append', 'add', 'update', 'setdefault', 'pop', 'extend', 'remove', 'clear', 'appendleft')
                        for f in cls.methods.values() for c in calls_in(f.node))
                fresh = [n for n in gi.nodes if n.kind == 'stmt' and isinstance(n.ast, ast.Assign) and any(r == 'self' and a == nm and _mutable_literal(v) for r, a, v in pat.attr_store(n.ast))]
                p = Q.escapes(gi, [gi.entry], lambda n: n in fresh, exits=('exit',)) if fresh else ['none']
                chk.ob('l', f'{relpath}::{cls.name}.{nm}', f'`{nm}` is mutated in place, so every instance gets its own container in init()', (not mutated) or p is None,
                       f'{relpath}:{st.lineno}', discr=f'per-instance:{nm}')
        need(n_attrs >= min_attrs, f'C19.l: the class-level state of {cls.name} was not found')


def handler_decl_channel(f):
    for d in f.node.decorator_list:
        if isinstance(d, ast.Call) and (call_name(d) or '').split('.')[-1] == 'handler':
            for k in d.keywords:
                if k.arg == 'channel':
                    return src(k.value)
    return None


def _failure_via_exception(cls, chk):
    """A handler of `exception` events of the protocol class that, for a failed call received by this very protocol (stamp tested against
    self), sends a result carrying the call id of the failed event and an error flag set to True on every path."""
    for f in cls.methods.values():
        if f.handler is None or 'exception' not in f.handler.names:
            continue
        if chk is not None:
            chk.touch(f)
        g = f.cfg()
        sends = [n for n in g.nodes if n.kind in ('stmt',) and any(r == 'self' for r, _c in pat.method_calls(n.ast, 'send_result'))]
        if not sends:
            continue
        ok = True
        for s_ in sends:
            c = [c for r, c in pat.method_calls(s_.ast, 'send_result') if r == 'self'][0]
            if len(c.args) < 2 or not src(c.args[0]).endswith('.node_call_id'):
                ok = False
                continue
            vv = src(c.args[1])
            flagged = [n for n in g.nodes if n.kind == 'stmt' and any(r == vv and a == 'errors' and src(v) == 'True' for r, a, v in pat.attr_store(n.ast))]
            if not flagged or Q.reachable_without(g, s_, avoid_node=lambda n: n in flagged) is not None:
                ok = False
            own = pat.guarded_by(g, s_, pat.test_edge(lambda tt, pol: (pat.compare_fact(tt, pol) or (None, None, None))[1] in ('is', '==') and
                                                     'self' in ((pat.compare_fact(tt, pol) or (None, None, None))[0], (pat.compare_fact(tt, pol) or (None, None, None))[2])))
            if own is not None:
                ok = False
        if ok:
            return True
    return False


def rule_m(repo, chk):
    chk.rule('C19.m', 'the carry of the receive buffer does not outlive its connection: the client keeps one Protocol for all its connections, so the '
                      'protocol handles `disconnected` and empties the buffer on every path (the server builds a protocol per connection)')
    cls = repo.cls(NODE_PROTOCOL, 'Protocol')
    cl = repo.cls('circuits/node/client.py', 'Client')
    per_conn = any(isinstance(c, ast.Call) and call_name(c) == 'Protocol' for m in cl.methods.values() if m.handler is not None and {'connected', 'connect', 'ready'} & set(m.handler.names)
                   for c in calls_in(m.node))
    hs = [m for m in cls.methods.values() if m.handler is not None and 'disconnected' in m.handler.names]
    ok = per_conn
    where = NODE_PROTOCOL
    for h in hs:
        chk.touch(h)
        g = h.cfg()
        clr = [n for n in g.nodes if n.kind == 'stmt' and any(r == 'self' and a == '__buffer' and src(v) in ("b''", 'b""', 'bytes()') for r, a, v in pat.attr_store(n.ast))]
        if clr and Q.escapes(g, [g.entry], lambda n: n in clr, exits=('exit',)) is None:
            ok = True
        where = loc(h, h.node)
    chk.ob('m', cls.ref, 'an unfinished packet is dropped together with the connection it arrived on', ok, where, discr='carry-reset-on-disconnect')
