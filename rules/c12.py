"""C12 — every connection: one connect, ordered reads, one disconnect, then no trace.

a  connect is fired from one site per accepted socket, after the socket is in the client list and known to the poller
b  _close is guarded (membership / connected flag), the guard state is cleared before the one disconnect fire
c  every per-socket container of Server is released by _close; the poller forgets the socket before it is closed
d  handlers that would create per-socket state (write, close, the _write readiness handler) do so only for live sockets
e  _read: data → read event; empty read → deferred-aware close; error → error event + _close; unknown sockets ignored
"""

import ast

from sa import AnalysisError, pat
from sa import query as Q
from sa.model import call_name, calls_in, src, walk_no_defs

from .common import SOCKETS, loc, need

MIN_OBLIGATIONS = 24
SOCK_VARS = ('sock', 'newsock')


def containers(cls):
    """Attributes of the server that are keyed by / hold connection sockets: {attr: how it is filled}."""
    out = {}
    for m in cls.methods.values():
        for n in walk_no_defs(m.node):
            if isinstance(n, ast.Call) and isinstance(n.func, ast.Attribute) and n.func.attr in ('append', 'add') and n.args \
                    and _is_sock_name(m, n.args[0]) and isinstance(n.func.value, ast.Attribute) and src(n.func.value.value) == 'self':
                out.setdefault(n.func.value.attr, set()).add(n.func.attr)
            if isinstance(n, ast.Subscript) and _is_sock_name(m, n.slice) and isinstance(n.value, ast.Attribute) and src(n.value.value) == 'self':
                out.setdefault(n.value.attr, set()).add('[]')
    return out


def _is_sock_name(func, e):
    """A name that denotes a connection socket: called sock/newsock, or a loop variable over a list of sockets."""
    if not isinstance(e, ast.Name):
        return False
    if e.id in SOCK_VARS:
        return True
    for n in walk_no_defs(func.node):
        if isinstance(n, ast.For) and isinstance(n.target, ast.Name) and n.target.id == e.id:
            if 'sock' in src(n.iter) or 'client' in src(n.iter):
                return True
            if isinstance(n.iter, ast.Name) and any('sock' in src(x) or '_clients' in src(x) for x in pat.flows_from(func, n.iter.id, depth=2)):
                return True
    return False


def run(repo, chk):
    _run(repo, chk)
    rule_g(repo, chk)
    rule_client_pairing(repo, chk)
    rule_upgrade(repo, chk)


def rule_upgrade(repo, chk):
    """STARTTLS: observers have seen `connect` for the connection; the upgrade takes the socket out of the client list for the handshake.  When the handshake fails the
    connection must still end in one `disconnect` and leave nothing behind."""
    chk.rule('C12.i', 'a failed STARTTLS handshake ends the connection like any other failure: the failure path reaches the disconnect of _close (the socket it passes is '
                      'still a client) or fires disconnect itself, and the upgrade record is dropped')
    st = repo.func(SOCKETS, 'Server.starttls')
    chk.touch(st)
    he = repo.func(SOCKETS, 'Server._on_handshake_error')
    chk.touch(he)
    g = st.cfg()
    sk = st.params[1]
    removed = [n for n in g.nodes if n.kind == 'stmt' and any(r == 'self._clients' and [src(a) for a in c.args] == [sk] for r, c in pat.method_calls(n.ast, 'remove'))]
    shakes = [n for n in g.nodes if n.ast is not None and n.kind in ('stmt', 'iter', 'for') and any((call_name(c) or '').endswith('_do_handshake') for c in pat.node_calls(n))]
    need(shakes, 'C12.i: starttls never starts a handshake')
    taken_out = any(Q.reaches(r_, s_) for r_ in removed for s_ in shakes)
    own_disc = any(pat.fires(n, 'disconnect') for n in walk_no_defs(he.node) if isinstance(n, ast.stmt))
    chk.ob('i', st.ref, 'when the handshake of an upgrade fails the connection still ends in a disconnect: the failure path goes through _close with a socket that is (still) '
                        'in the client list, or fires disconnect itself', (not taken_out) or own_disc, loc(st, (removed or shakes)[0].ast),
           detail='starttls takes the socket out of _clients before the handshake; _on_handshake_error calls _close(), which ignores sockets that are not clients',
           discr='upgrade-failure-disconnects')


def rule_client_pairing(repo, chk):
    """Client components: one `disconnected` per `connected`.  TCPClient marks the transport connected before a TLS handshake and announces `connected` only when the
    handshake is done: the failure callback of the handshake must not announce a `disconnected`."""
    chk.rule('C12.h', 'a client whose TLS handshake fails was never announced by `connected`: the failure path tears the connection down without announcing `disconnected`')
    f = repo.func(SOCKETS, 'TCPClient.connect')
    chk.touch(f)
    cl = repo.func(SOCKETS, 'Client._close')
    chk.touch(cl)
    gc = cl.cfg()
    disc = [n for n in gc.nodes if n.kind == 'stmt' and pat.fires(n.ast, 'disconnected')]
    need(disc, 'C12.h: Client._close never fires disconnected')
    # the condition under which _close announces: a parameter (keyword) tested on the way to the fire
    quiet_params = [p_ for p_ in cl.params[1:] if all(pat.guarded_by(gc, d, pat.test_edge(lambda tt, pol, p_=p_: pol == 'T' and src(tt) == p_)) is None for d in disc)]
    n_err = 0
    for name, h in f.nested.items():
        # the failure callbacks handed to do_handshake: closures that fire `error`
        if not any(pat.fires(n, 'error') for n in walk_no_defs(h.node) if isinstance(n, ast.stmt)):
            continue
        closes = [c for r, c in pat.method_calls(h.node, '_close') if r == 'self']
        connected_before = any(pat.fires(n, 'connected') for n in walk_no_defs(h.node) if isinstance(n, ast.stmt))
        for c in closes:
            n_err += 1
            quiet = any(k.arg in quiet_params and pat.is_const(k.value, False) for k in c.keywords) or \
                (quiet_params and c.args and cl.params[1:2] == quiet_params[:1] and pat.is_const(c.args[0], False))
            chk.ob('h', h.ref, 'the handshake failure path closes without announcing `disconnected` (no `connected` was announced for this connection)', bool(quiet) or connected_before,
                   loc(h, c), detail=f'`{src(c)}`; parameters of _close that switch the announcement off: {quiet_params}', discr='failed-handshake-quiet')
    need(n_err >= 1, 'C12.h: TCPClient.connect has no handshake failure path that closes')
    # … and every way the handshake can fail reaches that callback: a reset or close by the peer during the handshake is an OSError that is no SSLError
    dh = repo.func(SOCKETS, 'do_handshake')
    chk.touch(dh)
    gd = dh.cfg()
    from sa.cfg import handler_names
    calls = [n for n in gd.nodes if n.kind == 'stmt' and any(isinstance(c.func, ast.Attribute) and c.func.attr == 'do_handshake' for c in calls_in(n.ast))]
    need(calls, 'C12.h: do_handshake() never performs the handshake')
    for n in calls:
        hs = [e.dst for e in n.succ if e.kind == 'x' and e.dst.kind == 'except']
        broad = [h for h in hs if handler_names(h.ast) is None or set(handler_names(h.ast)) & {'OSError', 'Exception', 'BaseException', 'EnvironmentError', 'IOError', 'socket.error', 'error'}]
        ok = bool(broad)
        path = None
        for h in broad:
            reg = pat.region(gd, 'except', h.ast)
            # (the callback itself, or a local closure that calls it)
            tellers = {dh.params[2]} | {nm for nm, nf in dh.nested.items() if any(call_name(c) == dh.params[2] for c in calls_in(nf.node))}
            told = [m for m in reg if m.kind in ('stmt', 'test') and m.ast is not None and any(call_name(c) in tellers for c in calls_in(m.ast))]
            # (the TLS layer asking for the handshake to be repeated is not a failure)
            again = pat.test_edge(lambda tt, pol: (lambda fc: fc is not None and fc[1] in ('==', 'in') and 'SSL_ERROR_WANT' in fc[2])(pat.compare_fact(tt, pol)))
            no_cb = pat.test_edge(lambda tt, pol: pol == 'F' and src(tt).replace(' ', '') in (f'callable({dh.params[2]})', dh.params[2], f'{dh.params[2]}isnotNone'))
            p = pat.escapes_region(gd, h, reg, lambda m: m in told, exits=('exit',), avoid_edge=lambda e2: again(e2) or no_cb(e2))
            if p is not None or not told:
                ok, path = False, p
        chk.ob('h', dh.ref, 'a handshake that fails with any OSError (the peer resets or closes the connection during it), not only with an SSLError, is reported to the '
                            'failure callback', ok, loc(dh, n.ast), path=pat.path_lines(path) if path else None, discr='handshake-failure-reported')


def _run(repo, chk):
    chk.not_decided = ['order and content of the bytes delivered as read events', 'what the kernel reports for half-closed connections',
                       'client components other than the one-disconnect guard']
    chk.rule('C12.a', 'connect is fired once per accepted socket, after it is in the client list and registered with the poller')
    chk.rule('C12.b', '_close returns early for unknown/closed endpoints, clears the guard state before firing the single disconnect')
    chk.rule('C12.c', 'every per-socket container is released by _close (unless absent); poller discard precedes socket close')
    chk.rule('C12.d', 'write/close/_write-readiness handlers create no per-socket state for sockets that are not live')
    chk.rule('C12.e', '_read: data → read; empty → close (deferred-aware); OSError → error + _close; unknown sockets ignored')
    srv = repo.cls(SOCKETS, 'Server')
    cl = repo.func(SOCKETS, 'Server._close')
    chk.touch(cl)
    g = cl.cfg()
    sock = cl.params[1]
    # ---- b
    disc = [n for n in g.nodes if n.kind == 'stmt' and pat.fires(n.ast, 'disconnect')]
    chk.ob('b', cl.ref, 'disconnect is fired from exactly one site, outside loops', len(disc) == 1 and not any(k == 'loop' for k, _a in disc[0].ctx),
           loc(cl, cl.node), discr='disconnect-once')
    need(disc, 'C12.b: Server._close never fires disconnect')
    d = disc[0]
    live = pat.test_edge(lambda tt, pol: pat.fact_matches(pat.compare_fact(tt, pol), sock, ('in',), 'self._clients') or
                         pat.fact_matches(pat.compare_fact(tt, pol), sock, ('==', 'is'), 'self._sock'))
    q = pat.guarded_by(g, d, live)
    chk.ob('b', cl.ref, 'disconnect is fired only for a socket that is a connected client (or the listening socket)', q is None, loc(cl, d.ast),
           path=pat.path_lines(q) if q else None, discr='disconnect-guard')
    rem = [n for n in g.nodes if n.kind == 'stmt' and any(r == 'self._clients' and [src(a) for a in c.args] == [sock]
                                                         for r, c in pat.method_calls(n.ast, 'remove'))]
    own = [n for n in g.nodes if n.kind == 'stmt' and 'self' in pat.stores_attr(n.ast, '_sock') and pat.is_const(n.ast.value, None)]
    q = Q.reachable_without(g, d, avoid_node=lambda n: n in rem or n in own)
    chk.ob('b', cl.ref, 'the socket leaves the client list (or the listening socket is forgotten) before disconnect is fired: a second _close is a no-op',
           q is None and bool(rem), loc(cl, d.ast), path=pat.path_lines(q) if q else None, discr='guard-cleared-first')
    c0 = pat.fires(d.ast, 'disconnect')[0]
    chk.ob('b', cl.ref, 'disconnect names the socket', [src(a) for a in c0.args[0].args] == [sock], loc(cl, c0), discr='disconnect-arg', nontrivial=False)
    # ---- c
    conts = containers(srv)
    need(len(conts) >= 4, f'C12.c: only {sorted(conts)} found as per-socket containers of Server, 4 confirmed by hand')
    chk.info('per-socket containers of Server: ' + ', '.join(sorted(conts)))
    for attr in sorted(conts):
        full = f'self.{attr}'
        rel = [n for n in g.nodes if n.kind == 'stmt' and (
            (isinstance(n.ast, ast.Delete) and any(src(t) == f'{full}[{sock}]' for t in n.ast.targets)) or
            any(r == full and c.args and src(c.args[0]) == sock for m in ('remove', 'discard', 'pop') for r, c in pat.method_calls(n.ast, m)))]
        absent = pat.test_edge(lambda tt, pol: pat.fact_matches(pat.compare_fact(tt, pol), sock, ('not in',), full))
        p = Q.escapes(g, [d], lambda n: False, exits=()) if False else None
        # every path that reaches the disconnect fire has released the container or found the socket absent
        q = Q.reachable_without(g, d, avoid_node=lambda n: n in rel, avoid_edge=absent)
        chk.ob('c', cl.ref, f'`{full}` holds nothing for the socket when disconnect is fired', q is None and bool(rel), loc(cl, d.ast),
               path=pat.path_lines(q) if q else None, discr=f'released:{attr}')
    # containers released with list.remove() lose one occurrence per call: handlers that can run repeatedly for the same socket must not add it twice
    for attr in sorted(conts):
        if 'append' not in conts[attr]:
            continue
        full = f'self.{attr}'
        for m in srv.methods.values():
            if m.handler is None:
                continue
            gm = m.cfg()
            for n in gm.nodes:
                if n.kind != 'stmt':
                    continue
                for r, c in pat.method_calls(n.ast, 'append'):
                    if r == full and c.args and src(c.args[0]) in SOCK_VARS:
                        sv_ = src(c.args[0])
                        q = pat.guarded_by(gm, n, pat.test_edge(lambda tt, pol: pat.fact_matches(pat.compare_fact(tt, pol), sv_, ('not in',), full)))
                        chk.touch(m)
                        chk.ob('c', m.ref, f'a socket is put on `{full}` at most once (the entry is removed one occurrence at a time)', q is None, loc(m, c),
                               path=pat.path_lines(q) if q else None, discr=f'single-entry:{attr}')
    pd = [n for n in g.nodes if n.kind == 'stmt' and any(r == 'self._poller' and [src(a) for a in c.args] == [sock] for r, c in pat.method_calls(n.ast, 'discard'))]
    sc = [n for n in g.nodes if n.kind == 'stmt' and any(r == sock for r, _c in pat.method_calls(n.ast, 'close'))]
    q = Q.reachable_without(g, d, avoid_node=lambda n: n in pd)
    chk.ob('c', cl.ref, 'the poller forgets the socket on every path to the disconnect', q is None and bool(pd), loc(cl, d.ast), discr='released:poller')
    bad = None
    for s_ in sc:
        q = Q.reachable_without(g, s_, avoid_node=lambda n: n in pd)
        if q is not None:
            bad = q
    chk.ob('c', cl.ref, 'the socket is discarded from the poller before it is closed (its descriptor number may be reused afterwards)', bad is None and bool(sc),
           loc(cl, (sc or [d])[0].ast), path=pat.path_lines(bad) if bad else None, discr='discard-before-close')
    q = Q.reachable_without(g, d, avoid_node=lambda n: n in sc)
    chk.ob('c', cl.ref, 'the socket is closed on every path to the disconnect', q is None and bool(sc), loc(cl, d.ast), discr='socket-closed')
    # ---- a
    acc = repo.func(SOCKETS, 'Server._on_accept_done')
    chk.touch(acc)
    ga = acc.cfg()
    s2 = acc.params[1]
    conn = [n for n in ga.nodes if n.kind == 'stmt' and pat.fires(n.ast, 'connect')]
    chk.ob('a', acc.ref, 'connect is fired from exactly one site, outside loops', len(conn) == 1 and not any(k == 'loop' for k, _a in conn[0].ctx),
           loc(acc, acc.node), discr='connect-once')
    need(conn, 'C12.a: connect is never fired')
    addr = [n for n in ga.nodes if n.kind == 'stmt' and any(r == 'self._poller' and src(c.args[-1]) == s2 for r, c in pat.method_calls(n.ast, 'addReader'))]
    addc = [n for n in ga.nodes if n.kind == 'stmt' and any(r == 'self._clients' and [src(a) for a in c.args] == [s2] for r, c in pat.method_calls(n.ast, 'append'))]
    q1 = Q.reachable_without(ga, conn[0], avoid_node=lambda n: n in addr)
    q2 = Q.reachable_without(ga, conn[0], avoid_node=lambda n: n in addc)
    chk.ob('a', acc.ref, 'connect is fired only after the socket is registered with the poller and in the client list', q1 is None and q2 is None
           and bool(addr) and bool(addc), loc(acc, conn[0].ast), path=pat.path_lines(q1 or q2) if (q1 or q2) else None, discr='connect-after-bookkeeping')
    # a socket that is not listed must have been closed without any event (the peer had gone before it was accepted)
    closed_quietly = [n for n in ga.nodes if n.kind in ('stmt', 'with') and any(r == s2 for r, _c in pat.method_calls(n.ast if n.kind == 'stmt' else n.ast, 'close'))]
    p = Q.escapes(ga, [ga.entry], lambda n: n in addc or n in closed_quietly)
    fires_ = [n for n in ga.nodes if n.kind == 'stmt' and pat.fire_calls(n.ast)]
    noisy = any(Q.reaches(c_, f_) for c_ in closed_quietly for f_ in fires_)
    chk.ob('a', acc.ref, 'every accepted socket enters the client list, or is closed without any event', p is None and not noisy, loc(acc, acc.node), discr='client-listed')
    # once the socket is listed, _close() will fire disconnect for it: the connect event must then be certain. Anything that can fail
    # (the peer name of a connection that was reset in the listen queue) is evaluated before the socket is listed
    risky = [c for c in calls_in(conn[0].ast) if (call_name(c) or '').split('.')[-1] in ('getpeername', 'getsockname', 'fileno')]
    late = [n for n in ga.nodes if n.kind == 'stmt' and n is not conn[0] and any((call_name(c) or '').split('.')[-1] in ('getpeername', 'getsockname') for c in calls_in(n.ast))
            and any(Q.reaches(a_, n) for a_ in addc)]
    chk.ob('a', acc.ref, 'nothing that can fail stands between listing the socket and firing its connect event (no disconnect without a connect)',
           not risky and not late, loc(acc, conn[0].ast), detail='; '.join(src(c) for c in risky) or '; '.join(n.text for n in late), discr='connect-certain')
    esc = None
    no_connect = pat.test_edge(lambda tt, pol: pol == 'F' and src(tt) == acc.params[2])
    for a_ in addc:
        if pat.guarded_by(ga, a_, no_connect) is None:
            continue        # listed on the branch on which the caller asked for no connect event
        esc = esc or Q.escapes(ga, [a_], lambda n: n in conn, exits=('exit',), avoid_edge=no_connect)
    chk.ob('a', acc.ref, 'a listed socket gets its connect event on every path (except when the caller asked for none: TLS upgrade of a known connection)', esc is None,
           loc(acc, acc.node), path=pat.path_lines(esc) if esc else None, discr='listed-implies-connect')
    c1 = pat.fires(conn[0].ast, 'connect')[0]
    chk.ob('a', acc.ref, 'connect names the accepted socket', bool(c1.args[0].args) and src(c1.args[0].args[0]) == s2, loc(acc, c1), discr='connect-arg',
           nontrivial=False)
    ac = repo.func(SOCKETS, 'Server._accept')
    chk.touch(ac)
    gacc = ac.cfg()
    accepts = [n for n in gacc.nodes if n.kind == 'stmt' and isinstance(n.ast, ast.Assign) and any((call_name(c) or '').endswith('.accept') for c in calls_in(n.ast))]
    need(accepts, 'C12.a: _accept never accepts')
    nv = src(accepts[0].ast.targets[0].elts[0]) if isinstance(accepts[0].ast.targets[0], ast.Tuple) else src(accepts[0].ast.targets[0])
    done = [n for n in gacc.nodes if n.kind in ('stmt', 'iter') and any(src(a) == nv for c in pat.node_calls(n) for a in c.args
                                                                       if (call_name(c) or '').split('.')[-1] in ('_on_accept_done', '_do_handshake'))]
    p = Q.escapes(gacc, [accepts[0]], lambda n: n in done, exc=())
    chk.ob('a', ac.ref, 'an accepted socket is always handed on (directly or through the TLS handshake)', p is None and bool(done), loc(ac, accepts[0].ast),
           path=pat.path_lines(p, accepts[0]) if p else None, discr='accepted-handed-on')
    # ---- d
    for name in ('write', 'close', '_on_write'):
        f = need(srv.methods.get(name), f'C12.d: Server.{name} missing')
        chk.touch(f)
        gf = f.cfg()
        creating = []
        for n in gf.nodes:
            if n.kind not in ('stmt', 'test') or n.ast is None:
                continue
            for w in walk_no_defs(n.ast):
                if isinstance(w, ast.Subscript) and src(w.value) == 'self._buffers' and src(w.slice) in SOCK_VARS:
                    creating.append((n, 'defaultdict entry `self._buffers[sock]`'))
            for r, c in pat.method_calls(n.ast, 'addWriter') + pat.method_calls(n.ast, 'addReader'):
                if r == 'self._poller':
                    creating.append((n, 'poller registration'))
        sv = 'sock'
        has_buf = pat.test_edge(lambda tt, pol: (pol == 'T' and src(tt) == f'self._buffers.get({sv})') or
                                pat.fact_matches(pat.compare_fact(tt, pol), sv, ('in',), 'self._buffers'))
        live2 = pat.test_edge(lambda tt, pol: pat.fact_matches(pat.compare_fact(tt, pol), sv, ('in',), 'self._clients'))
        seen = set()
        for n, what in creating:
            if (n.id, what) in seen:
                continue
            seen.add((n.id, what))
            q = pat.guarded_by(gf, n, lambda e: has_buf(e) or live2(e))
            chk.ob('d', f.ref, f'{what} is only touched for a socket that is live (connected client / has a buffer)', q is None, loc(f, n.ast),
                   path=pat.path_lines(q) if q else None, discr=f'live-only:{what.split()[0]}:{n.text[:40]}')
    # ---- e
    rd = repo.func(SOCKETS, 'Server._read')
    chk.touch(rd)
    gr = rd.cfg()
    s3 = rd.params[1]
    recv = [n for n in gr.nodes if n.kind == 'stmt' and isinstance(n.ast, ast.Assign) and any((call_name(c) or '') == f'{s3}.recv' for c in calls_in(n.ast))]
    need(recv, 'C12.e: _read never receives')
    dv = src(recv[0].ast.targets[0])
    q = pat.guarded_by(gr, recv[0], pat.test_edge(lambda tt, pol: pat.fact_matches(pat.compare_fact(tt, pol), s3, ('in',), 'self._clients')))
    chk.ob('e', rd.ref, 'only connected clients are read from', q is None, loc(rd, recv[0].ast), discr='read-live-only')
    reads = [n for n in gr.nodes if n.kind == 'stmt' and pat.fires(n.ast, 'read')]
    closes = [n for n in gr.nodes if n.kind == 'stmt' and any(r == 'self' and [src(a) for a in c.args] == [s3] for r, c in pat.method_calls(n.ast, 'close'))]
    # a TLS record is decrypted as a whole: after a read that returned data, what is left of the record inside the SSL object is read too (no poller reports it)
    for f_, rcv in ((rd, lambda c: (call_name(c) or '') == f'{s3}.recv'), (repo.func(SOCKETS, 'Client._read'), lambda c: (call_name(c) or '').endswith(('._ssock.read', '._sock.recv')))):
        chk.touch(f_)
        gx = f_.cfg()
        loops = [n for n in gx.nodes if n.kind == 'test' and isinstance(n.ast, ast.Call) and (call_name(n.ast) or '').endswith('.pending') and
                 any(e.kind == 'T' and any(k == 'loop' for k, _a in e.dst.ctx) for e in n.succ)]
        inner = [n for n in gx.nodes if n.kind == 'stmt' and any(k == 'loop' for k, _a in n.ctx) and any(rcv(c) for c in calls_in(n.ast))]
        fired = [n for n in gx.nodes if n.kind == 'stmt' and any(k == 'loop' for k, _a in n.ctx) and pat.fires(n.ast, 'read')]
        first = [n for n in gx.nodes if n.kind == 'stmt' and not any(k == 'loop' for k, _a in n.ctx) and pat.fires(n.ast, 'read')]
        okp = bool(loops) and bool(inner) and bool(fired) and all(any(Q.reaches(r_, lp) for lp in loops) for r_ in first)
        chk.ob('e', f_.ref, 'after a read that returned data the rest of a TLS record pending inside the SSL object is read and delivered as well', okp, loc(f_, f_.node),
               discr='tls-record-drained')
    def in_while_test(a):
        p_ = getattr(a, '_parent', None)
        while p_ is not None and not isinstance(p_, ast.stmt):
            p_ = getattr(p_, '_parent', None)
        return isinstance(p_, ast.While)
    for e in [e for n in gr.nodes if n.kind == 'test' and src(n.ast) == dv and not any(k == 'loop' for k, _a in n.ctx) and not in_while_test(n.ast) for e in n.succ]:
        grp, label = (reads, 'data → read event') if e.kind == 'T' else (closes, 'empty read → close (deferred while data is buffered)')
        p = Q.escapes(gr, [e.dst], lambda n: n in grp, exc=()) if e.dst not in grp else None
        chk.ob('e', rd.ref, label, p is None and bool(grp), loc(rd, e.src.ast), discr=f'outcome:{e.kind}')
    for n in reads:
        c = pat.fires(n.ast, 'read')[0]
        chk.ob('e', rd.ref, 'the read event carries the socket and exactly the received bytes', [src(a) for a in c.args[0].args] == [s3, dv], loc(rd, c),
               discr='read-args')
    xe = [e for e in recv[0].succ if e.kind == 'x' and e.exc == 'OSError' and e.dst.kind == 'except']
    chk.ob('e', rd.ref, 'a failing recv is caught', bool(xe), loc(rd, recv[0].ast), discr='oserror-caught')
    if xe:
        h = xe[0].dst
        reg = pat.region(gr, 'except', h.ast)
        errs = [n for n in reg if n.kind == 'stmt' and pat.fires(n.ast, 'error')]
        cls_ = [n for n in reg if n.kind == 'stmt' and any(r == 'self' and [src(a) for a in c.args] == [s3] for r, c in pat.method_calls(n.ast, '_close'))]
        def _would(tt, pol):
            # the edge on which the error is known to be "would block": `== EWOULDBLOCK` true, `!= EWOULDBLOCK` false, `in (EAGAIN, EWOULDBLOCK)` true …
            fc = pat.compare_fact(tt, pol)
            return fc is not None and fc[1] in ('==', 'in', 'is') and any(w_ in fc[2] or w_ in fc[0] for w_ in ('EWOULDBLOCK', 'EAGAIN', 'SSL_ERROR_WANT_READ', 'SSL_ERROR_WANT_WRITE'))
        would = pat.test_edge(_would)
        # the TLS layer reports an incomplete record as SSLWantRead (and a renegotiation as SSLWantWrite): that is "nothing to read yet", not a failure
        tls_wait = [e for n in reg if n.kind == 'test' for e in n.succ if (lambda fc: fc is not None and fc[1] in ('==', 'in') and 'SSL_ERROR_WANT_READ' in fc[2])(
            pat.compare_fact(n.ast, e.kind))]
        okw = bool(tls_wait)
        for e in tls_wait:
            seen_, _ = Q.search([e.dst], exc=())
            if any(x in seen_ or x is e.dst for x in errs + cls_):
                okw = False
        chk.ob('e', rd.ref, 'an incomplete TLS record (SSLWantRead / SSLWantWrite from recv) is waited for: no error event, no close', okw, loc(rd, h.ast), discr='tls-want-is-wait')
        p1 = pat.escapes_region(gr, h, reg, lambda n: n in errs, avoid_edge=would, exits=('exit',))
        p2 = pat.escapes_region(gr, h, reg, lambda n: n in cls_, avoid_edge=would, exits=('exit',))
        chk.ob('e', rd.ref, 'a receive error other than "would block" produces an error event and closes the connection', p1 is None and p2 is None
               and bool(errs) and bool(cls_), loc(rd, h.ast), path=pat.path_lines(p1 or p2, h) if (p1 or p2) else None, discr='error-closes')
    # ---- f: received bytes are not lost when the peer hangs up: the pollers give a descriptor up only when drained
    chk.rule('C12.f', 'Poll/EPoll report a hang-up (which makes the server close and discard) only when the kernel reports nothing left to read')
    from .common import POLLERS
    for cname in ('Poll', 'EPoll'):
        pf = repo.func(POLLERS, f'{cname}._process')
        chk.touch(pf)
        gp = pf.cfg()
        evp = pf.params[2]
        dis = [n for n in gp.nodes if n.kind == 'stmt' and pat.fires(n.ast, '_disconnect') and not any(k == 'except' for k, _a in n.ctx)]
        need(dis, f'C12.f: {cname}._process never reports a hang-up')
        # (not the branch that drops an object which was closed without being discarded: what the kernel reports there is not about that object, C10.c)
        stale_flags = {n.ast.targets[0].id for n in gp.nodes if n.kind == 'stmt' and isinstance(n.ast, ast.Assign) and isinstance(n.ast.targets[0], ast.Name)
                       and '.fileno()' in src(n.ast.value) and pf.params[1] in Q.names_used(n.ast.value)}
        dis = [n for n in dis if pat.guarded_by(gp, n, pat.test_edge(lambda tt, pol: pol == 'T' and isinstance(tt, ast.Name) and tt.id in stale_flags)) is not None]
        for dn in dis:
            q = pat.guarded_by(gp, dn, pat.test_edge(lambda tt, pol: pol == 'F' and isinstance(tt, ast.BinOp) and isinstance(tt.op, ast.BitAnd) and
                                                     src(tt.left) == evp and src(tt.right) in ('select.POLLIN', 'select.EPOLLIN')))
            chk.ob('f', pf.ref, 'the hang-up is reported only without the readable bit (pending data is delivered by further read events first)', q is None,
                   loc(pf, dn.ast), path=pat.path_lines(q) if q else None, discr='hangup-only-when-drained')
    # client side: one disconnected per connected
    ccl = repo.func(SOCKETS, 'Client._close')
    chk.touch(ccl)
    from .common import snapshot_view
    ccl = snapshot_view(ccl)        # (`sock = self._sock` … `sock.close()`)
    gc = ccl.cfg()
    dd = [n for n in gc.nodes if n.kind == 'stmt' and pat.fires(n.ast, 'disconnected')]
    need(dd, 'C12.b: Client._close never fires disconnected')
    q = pat.guarded_by(gc, dd[0], pat.test_edge(lambda tt, pol: pol == 'T' and src(tt) in ('self._connected', 'self.connected')))
    clr = [n for n in gc.nodes if n.kind == 'stmt' and 'self' in pat.stores_attr(n.ast, '_connected', False)]
    q2 = Q.reachable_without(gc, dd[0], avoid_node=lambda n: n in clr)
    chk.ob('b', ccl.ref, 'a client fires disconnected only when connected and clears the flag first (one per connection)', q is None and q2 is None
           and len(dd) == 1, loc(ccl, dd[0].ast), discr='client-disconnected-once')
    pdc = [n for n in gc.nodes if n.kind == 'stmt' and any(r == 'self._poller' for r, _c in pat.method_calls(n.ast, 'discard'))]
    scc = [n for n in gc.nodes if n.kind == 'stmt' and any(r == 'self._sock' for r, _c in pat.method_calls(n.ast, 'close'))]
    bad = any(Q.reachable_without(gc, s_, avoid_node=lambda n: n in pdc) is not None for s_ in scc)
    chk.ob('c', ccl.ref, 'the client discards its socket from the poller before closing it', bool(pdc) and bool(scc) and not bad, loc(ccl, ccl.node),
           discr='client-discard-before-close')


def rule_g(repo, chk):
    chk.rule('C12.g', 'the write routine of a server connection never tears the connection down: a failed send gives up the output only; input that has '
                      'arrived is still delivered and the read path (end of stream / its own error), a close request or the poller ends the connection')
    w = repo.func(SOCKETS, 'Server._write')
    chk.touch(w)
    g = w.cfg()
    tears = [n for n in g.nodes if n.kind == 'stmt' and (any(r == 'self' for r, _c in pat.method_calls(n.ast, '_close')) or
                                                         any(r == w.params[1] for m_ in ('close', 'shutdown') for r, _c in pat.method_calls(n.ast, m_)) or
                                                         any(r == 'self._poller' for m_ in ('discard', 'removeReader') for r, _c in pat.method_calls(n.ast, m_)))]
    chk.ob('g', w.ref, 'a send error does not close the socket or stop reading from it (unread input would be lost)', not tears, loc(w, tears[0].ast if tears else w.node),
           detail='; '.join(n.text for n in tears), discr='send-error-keeps-reading')
