"""C06 — call()/wait() resume the caller exactly once with the result, leaving no residue.

a  temporary handlers: per terminal scenario of waitEvent (seen→done, timeout) the released set equals the installed set
b  retire ⇒ continue or account: every path of the stepper that unregisters a task registers a continuation, hands the
   generator to a wait state, or reaches the completion call (clause by clause, incl. the except clauses)
c  identity guards: resuming only for the done event of the awaited event; arming only once and only for the awaited object
d  guard agreement: the tick handler is removed on the done path in exactly the countdown states in which it was installed
e  callEvent = fire + wait on the fired event's channels + CallValue of the fired event's value
"""

import ast

from sa import AnalysisError, pat
from sa import query as Q
from sa.cfg import handler_names
from sa.model import call_name, calls_in, src, walk_no_defs

from .common import MANAGER, loc, need

MIN_OBLIGATIONS = 24


def run(repo, chk):
    chk.not_decided = [
        'the exact loop iteration at which TimeoutError is delivered',
        'results of several in-flight calls not being mixed up (per-wait _State objects are closures: by construction)',
    ]
    chk.rule('C06.a', 'every temporary handler installed by waitEvent is removed on each terminal scenario (awaited event seen '
                      'and done; timeout before/after it was seen)')
    chk.rule('C06.b', 'a task that is unregistered is continued (registerTask / handed to a wait state) or accounted for '
                      '(completion call, or other handlers still pending) on every path')
    chk.rule('C06.c', 'the waiter is resumed only by the done event whose parent is the awaited event; the wait is armed once, '
                      'by the awaited object only')
    chk.rule('C06.d', 'install and removal conditions of the countdown handler agree on every countdown state')
    chk.rule('C06.e', 'callEvent fires the event, waits for it on its channels and yields CallValue of its value')
    w = repo.func(MANAGER, 'Manager.waitEvent')
    t = repo.func(MANAGER, 'Manager.processTask')
    chk.touch(w)
    chk.touch(t)
    rule_a_c_d(repo, chk, w)
    rule_b(chk, t)
    rule_e(repo, chk)
    rule_f(repo, chk)
    rule_g_h(repo, chk)
    rule_resumed_yield(chk, t)


def rule_resumed_yield(chk, t):
    """After being resumed (with a result by send(), with an exception by throw()) the caller runs on to its next yield; what it yields there is an ordinary
    yielded object and must go through the stepper's classification (value / None / sleep / nested call), not be stored as a value on the spot."""
    chk.rule('C06.i', 'what the caller yields right after it was resumed (parent.send / parent.throw) is either a nested call (wait state armed) or is handed back to '
                      'the stepper through a one-shot generator; it is never stored as the event value directly')
    g = t.cfg()
    ev = t.params[1]
    n_res = 0
    for n in g.nodes:
        if not (n.kind == 'stmt' and isinstance(n.ast, ast.Assign) and isinstance(n.ast.value, ast.Call) and isinstance(n.ast.value.func, ast.Attribute)
                and n.ast.value.func.attr in ('send', 'throw') and isinstance(n.ast.targets[0], ast.Name)):
            continue
        n_res += 1
        v = n.ast.targets[0].id
        kind = n.ast.value.func.attr
        plain = [e for m in g.nodes if m.kind == 'test' and Q.reaches(n, m) for e in m.succ
                 if e.kind == 'F' and isinstance(m.ast, ast.Call) and call_name(m.ast) == 'isinstance' and src(m.ast.args[0]) == v and 'GeneratorType' in src(m.ast.args[1])]
        chk.ob('i', t.ref, f'after {kind}() the stepper tells a nested call (generator) from anything else', bool(plain), loc(t, n.ast), discr=f'classified:{kind}')
        requeue = [m for m in g.nodes if m.kind == 'stmt' and any(
            c.args and isinstance(c.args[0], ast.Tuple) and len(c.args[0].elts) == 3 and any(
                isinstance(x, ast.GeneratorExp) and src(x.generators[0].iter).replace(' ', '') == f'({v},)' for x in pat.deref(t, c.args[0].elts[1]))
            for _r, c in pat.method_calls(m.ast, 'registerTask'))]
        stores = [m for m in g.nodes if m.kind == 'stmt' and isinstance(m.ast, ast.Assign) and src(m.ast.value) == v and any(a == 'value' for _r, a, _v in pat.attr_store(m.ast))]
        for e in plain:
            p = Q.escapes(g, [e.dst], lambda m: m in requeue, exc=()) if e.dst not in requeue else None
            seen, _ = Q.search([e.dst], exc=())
            direct = [m for m in stores if m in seen or m is e.dst]
            chk.ob('i', t.ref, f'a non-generator object yielded after {kind}() is handed back to the stepper (one-shot generator), not stored as the value here',
                   p is None and bool(requeue) and not direct, loc(t, (direct[0] if direct else e.src).ast), path=pat.path_lines(p) if p else None, discr=f'requeued:{kind}')
    need(n_res >= 2, f'C06.i: {n_res} resume sites (send/throw) in processTask, 2 confirmed by hand')


def rule_f(repo, chk):
    """The done notification the waiters rely on."""
    chk.rule('C06.f', '<name>_done is fired exactly when the awaited event has no suspended handler left and a waiter asked for it; '
                      'the request flag is shared by all waiters and only ever set')
    e = repo.func(MANAGER, 'Manager._eventDone')
    chk.touch(e)
    g = e.cfg()
    ev = e.params[1]
    done = [n for n in g.nodes if n.kind == 'stmt' and pat.fires(n.ast, 'child:done')]
    need(done, 'C06.f: _eventDone never fires <name>_done')
    gate = pat.test_edge(lambda tt, pol: (pol == 'F' and src(tt) == f'{ev}.waitingHandlers') or
                         pat.fact_matches(pat.compare_fact(tt, pol), f'{ev}.waitingHandlers', ('==', '<='), '0'))
    for n in done:
        q = pat.guarded_by(g, n, gate)
        chk.ob('f', e.ref, '<name>_done is fired only when no handler of the event is still suspended (whether or not a handler failed)', q is None,
               loc(e, n.ast), path=pat.path_lines(q) if q else None, discr='done-after-all-handlers')
        c = pat.fires(n.ast, 'child:done')[0]
        chk.ob('f', e.ref, '<name>_done goes to the channels of the finished event', [src(a) for a in c.args[1:]] == [f'*{ev}.channels'], loc(e, c),
               discr='done-channels')
    reqs = [e2 for n in g.nodes if n.kind == 'test' and src(n.ast) == f'{ev}.alert_done' for e2 in n.succ if e2.kind == 'T']
    ok = bool(reqs) and all(e2.dst in done or Q.escapes(g, [e2.dst], lambda n: n in done) is None for e2 in reqs)
    chk.ob('f', e.ref, 'when a waiter asked for it and no handler is suspended, <name>_done is fired on every path', ok, loc(e, e.node), discr='done-when-requested')
    chk.ob('f', e.ref, '<name>_done is fired from exactly one site', len(done) == 1, loc(e, e.node), discr='done-once')
    # who-may-write alert_done
    bad = []
    n_sets = 0
    for f in repo.all_functions():
        for n in walk_no_defs(f.node):
            if isinstance(n, (ast.Assign, ast.AugAssign)):
                for recv, attr, val in pat.attr_store(n):
                    if attr == 'alert_done':
                        n_sets += 1
                        if not pat.is_const(val, True):
                            bad.append((f, n))
            if isinstance(n, ast.Call) and call_name(n) in ('delattr', 'setattr') and len(n.args) >= 2 and pat.is_const(n.args[1], 'alert_done'):
                bad.append((f, n))
            if isinstance(n, ast.Delete) and any(isinstance(t, ast.Attribute) and t.attr == 'alert_done' for t in n.targets):
                bad.append((f, n))
    chk.ob('f', f'{MANAGER}::alert_done', 'the done-request flag of an event is only ever set to True (it is shared by all handlers waiting for that event)',
           not bad and n_sets >= 1, bad[0][0].loc(bad[0][1]) if bad else MANAGER, detail='; '.join(f'{f.ref}: `{src(n)}`' for f, n in bad[:3]), discr='alert-done-only-set')


def _parents(n):
    p = getattr(n, '_parent', None)
    while p is not None:
        yield p
        p = getattr(p, '_parent', None)


def _removes(node, handler_var_pred):
    """removeHandler calls in an AST subtree whose first arg satisfies the predicate."""
    return [c for _r, c in pat.method_calls(node, 'removeHandler') if c.args and handler_var_pred(src(c.args[0]))]


def rule_a_c_d(repo, chk, w):
    # installed handlers: X = self.addHandler(handler(<name>, …)(closure))
    installs = {}
    for n in walk_no_defs(w.node):
        if isinstance(n, ast.Assign) and isinstance(n.value, ast.Call) and call_name(n.value) == 'self.addHandler':
            inner = n.value.args[0] if n.value.args else None
            if isinstance(inner, ast.Call) and isinstance(inner.func, ast.Call) and call_name(inner.func) == 'handler':
                closure = src(inner.args[0]) if inner.args else None
                ename = src(inner.func.args[0]) if inner.func.args else None
                if inner.func.args and isinstance(inner.func.args[0], ast.Name) and ename != 'event_name':
                    # (a local that holds the name: `done_name = '%s_done' % event_name`)
                    ename = ' | '.join([ename] + [src(v) for v in pat.deref(w, inner.func.args[0])])
                for tg in n.targets:
                    installs[src(tg)] = (closure, ename, n)
    need(len(installs) >= 3, f'C06.a: waitEvent installs {len(installs)} temporary handlers, 3 confirmed by hand')
    by_closure = {}
    for var, (closure, ename, n) in installs.items():
        by_closure.setdefault(closure, []).append(var)
    ev_h = [v for v, (c, e, n) in installs.items() if e == 'event_name']
    done_h = [v for v, (c, e, n) in installs.items() if '_done' in (e or '')]
    tick_h = [v for v, (c, e, n) in installs.items() if e == "'generate_events'"]
    need(ev_h and done_h and tick_h, 'C06.a: temporary handler roles (event, done, tick) not all found')
    # the arming handler must see the awaited event whatever the other handlers do with it: highest priority
    for v in ev_h:
        inner = installs[v][2].value.args[0]
        kw = {k.arg: src(k.value).replace('"', "'") for k in inner.func.keywords if k.arg}
        chk.ob('c', w.ref, 'the handler that arms the wait (records the event, asks for its done notification) runs before every other handler of the awaited event, so '
                           'that a handler which stop()s the event cannot keep the wait from being armed', kw.get('priority') in ("float('inf')", 'math.inf', 'inf'),
               loc(w, installs[v][2]), detail=f'priority={kw.get("priority", "0 (default)")}', discr='armed-first')
    # one wait may listen on several channels: each channel needs a handler object of its own (handler() records the channel on the function it decorates)
    shared_, first_ = [], None
    for v, (closure, ename, n) in sorted(installs.items()):
        if '.' in v:
            continue
        lp = [p_ for p_ in _parents(n) if isinstance(p_, ast.For)]
        if not lp:
            continue
        inner = n.value.args[0]
        per_channel = any(k.arg == 'channel' and src(k.value) == src(lp[0].target) for k in inner.func.keywords)
        shared = isinstance(inner.args[0], ast.Name) and inner.args[0].id in w.nested and not any(
            isinstance(d_, (ast.FunctionDef, ast.Lambda)) and getattr(d_, 'name', None) == inner.args[0].id for d_ in ast.walk(lp[0]))
        if per_channel:
            first_ = first_ or n
            if shared:
                shared_.append(closure)
    if first_ is not None:
        chk.ob('c', w.ref, 'each channel of a wait gets handler objects of its own (handler() records the channel on the function it decorates: decorating one function '
                           'once per channel leaves it listening on the last channel only)', not shared_, loc(w, first_), detail='shared: ' + ', '.join(sorted(shared_)),
               discr='per-channel-handlers')
    # aliases through state.<attr>
    tick_alias = set(tick_h)
    on_event = need(w.nested.get(installs[ev_h[0]][0]), 'C06: _on_event closure missing')
    on_done = need(w.nested.get(installs[done_h[0]][0]), 'C06: _on_done closure missing')
    on_tick = need(w.nested.get(installs[[v for v in tick_h if '.' not in v][0] if [v for v in tick_h if '.' not in v] else tick_h[0]][0]),
                   'C06: _on_tick closure missing')
    for f in (on_event, on_done, on_tick):
        chk.touch(f)
    is_ev = lambda s: s in ev_h  # noqa: E731
    is_done = lambda s: s in done_h  # noqa: E731
    is_tick = lambda s: s in tick_alias  # noqa: E731

    # --- scenario seen → done -------------------------------------------------
    g = on_event.cfg()
    arm = [n for n in g.nodes if n.kind == 'stmt' and 'state' in pat.stores_attr(n.ast, 'run', True)]
    need(arm, 'C06.c: _on_event never arms the wait')
    rem = [n for n in g.nodes if n.kind == 'stmt' and _removes(n.ast, is_ev)]
    for a in arm:
        p = Q.escapes(g, [g.entry], lambda n: n in rem) if False else None
        # arming ⇒ the event handler is removed on the same path
        before = Q.reachable_without(g, a, avoid_node=lambda n: n in rem)
        after = Q.escapes(g, [a], lambda n: n in rem)
        ok = bool(rem) and (before is None or after is None)
        chk.ob('a', on_event.ref, 'when the awaited event is seen its temporary handler is removed', ok, loc(on_event, a.ast),
               discr='seen:event-handler-removed')
        q = pat.guarded_by(g, a, pat.test_edge(lambda t, pol: pol == 'F' and src(t) == 'state.run'))
        chk.ob('c', on_event.ref, 'the wait is armed at most once', q is None, loc(on_event, a.ast), path=pat.path_lines(q) if q else None,
               discr='arm-once')
        ev = on_event.params[1]
        q = pat.guarded_by(g, a, pat.test_edge(lambda t, pol: pat.fact_matches(pat.compare_fact(t, pol), 'event_object', ('is', '=='), 'None')
                                               or pat.fact_matches(pat.compare_fact(t, pol), ev, ('is',), 'event_object')))
        chk.ob('c', on_event.ref, 'when waiting for an event object only that object arms the wait', q is None, loc(on_event, a.ast),
               path=pat.path_lines(q) if q else None, discr='arm-identity')
        rec = [n for n in g.nodes if n.kind == 'stmt' and 'state' in pat.stores_attr(n.ast, 'event') and src(n.ast.value) == ev]
        al = [n for n in g.nodes if n.kind == 'stmt' and ev in pat.stores_attr(n.ast, 'alert_done', True)]
        chk.ob('c', on_event.ref, 'arming records the awaited event and asks for its done notification', bool(rec) and bool(al),
               loc(on_event, a.ast), discr='arm-records')
    g = on_done.cfg()
    ev = on_done.params[1]
    resume = [n for n in g.nodes if n.kind == 'stmt' and any(True for _r, _c in pat.method_calls(n.ast, 'registerTask'))]
    need(resume, 'C06.c: _on_done never resumes the waiter')
    for r in resume:
        q = pat.guarded_by(g, r, pat.test_edge(lambda t, pol: pat.fact_matches(pat.compare_fact(t, pol), 'state.event', ('==', 'is'), f'{ev}.parent')))
        chk.ob('c', on_done.ref, 'the waiter is resumed only by the done event of the awaited event', q is None, loc(on_done, r.ast),
               path=pat.path_lines(q) if q else None, discr='resume-identity')
        # … which presupposes that the wait has seen its event: before that `state.event` is None, and so is the parent of any event that is nobody's child
        qn = pat.guarded_by(g, r, pat.test_edge(lambda t, pol: pat.fact_matches(pat.compare_fact(t, pol), 'state.event', ('is not', '!='), 'None')))
        chk.ob('c', on_done.ref, 'the waiter is not resumed before the wait has seen the awaited event (an application event named <name>_done has no parent either)', qn is None,
               loc(on_done, r.ast), path=pat.path_lines(qn) if qn else None, discr='resume-after-armed')
        c = [c for _r, c in pat.method_calls(r.ast, 'registerTask')][0]
        ok = src(c.args[0]).replace(' ', '') == '(state.task_event,state.task,state.parent)'
        chk.ob('c', on_done.ref, 'the resumed task is the waiting generator with its event and caller', ok, loc(on_done, c), detail=f'`{src(c)}`',
               discr='resume-triple')
    chk.ob('c', on_done.ref, 'the waiter is resumed from exactly one site', len(resume) == 1, loc(on_done, on_done.node), discr='resume-once')
    # d: guard agreement over countdown states
    from sa import concrete
    inst_stmt = installs[[v for v in tick_h][0]][2]
    gw0 = w.cfg()
    inst_nodes = [n for n in gw0.nodes if n.kind == 'stmt' and n.ast is inst_stmt]
    need(inst_nodes, 'C06.d: the installation of the countdown handler is not a statement of waitEvent')

    def runs_with(cfg, node, v):
        """is *node* reached when the countdown stands at v?  (every other test is followed both ways)"""
        return bool(concrete.envs_at(cfg, cfg.entry, {'$state.timeout': v}, lambda n: n is node))
    inst_guard = _guard_of(w, inst_stmt)
    rem_nodes = [n for n in g.nodes if n.kind == 'stmt' and _removes(n.ast, is_tick)]
    chk.ob('a', on_done.ref, 'the done path removes the countdown handler', bool(rem_nodes), loc(on_done, on_done.node), discr='done:tick-removed')
    for rn in rem_nodes:
        rem_guard = _guard_of(on_done, rn.ast)
        rows = []
        ok = True
        for v in (-1, 0, 1, 2, 5):
            i = runs_with(gw0, inst_nodes[0], v)
            r_ = runs_with(g, rn, v)
            rows.append((v, i, r_))
            if i != r_:
                ok = False
        ok = ok and any(i for _v, i, _r in rows)
        chk.ob('d', on_done.ref, 'the countdown handler is removed on the done path exactly in the states in which it was installed '
                                 '(timeout values -1, 0, 1, 2, 5)', ok, loc(on_done, rn.ast),
               detail=f'install `{src(inst_guard) if inst_guard is not None else None}`, removal `{src(rem_guard) if rem_guard is not None else None}`; '
                      f'(value, installed, removed) = {rows}', discr='guard-agreement')
        q = Q.reachable_without(g, rn, avoid_node=lambda n: n in resume)
        # removal happens on the resuming path
        q2 = pat.guarded_by(g, rn, pat.test_edge(lambda t, pol: pat.fact_matches(pat.compare_fact(t, pol), 'state.event', ('==', 'is'), f'{ev}.parent')))
        chk.ob('d', on_done.ref, 'the countdown handler is removed only together with resuming the waiter', q2 is None, loc(on_done, rn.ast),
               discr='removal-with-resume')
    # after the yield of the state, the generator removes the done handler on every path
    gw = w.cfg()
    ys = [n for n in gw.nodes if n.kind == 'stmt' and n.has_yield() and 'state' in src(n.ast)]
    need(ys, 'C06.a: waitEvent does not yield its state')
    rem = [n for n in gw.nodes if n.kind == 'stmt' and _removes(n.ast, is_done)]
    p = Q.escapes(gw, [ys[0]], lambda n: n in rem)
    chk.ob('a', w.ref, 'after being resumed the wait removes its done handler on every path', p is None and bool(rem), loc(w, ys[0].ast),
           path=pat.path_lines(p, ys[0]) if p else None, discr='done:done-handler-removed')
    # --- scenario timeout ---------------------------------------------------------
    g = on_tick.cfg()
    fire_edges = [e for n in g.nodes if n.kind == 'test' for e in n.succ
                  if pat.fact_matches(pat.compare_fact(n.ast, e.kind), 'state.timeout', ('==', '<='), '0')]
    # (not the edge of a later test that can only be reached when the timeout was found positive just before: that combination does not exist)
    still_running = [e for n in g.nodes if n.kind == 'test' for e in n.succ if pat.fact_matches(pat.compare_fact(n.ast, e.kind), 'state.timeout', ('>',), '0')]
    fire_edges = [e for e in fire_edges if Q.reachable_without(g, e.src, avoid_edge=lambda x: x in still_running and x.src is not e.src) is not None]
    need(fire_edges, 'C06.a: _on_tick has no expiry test')
    # the countdown steps by one from whatever number the caller gave: expiry is "not above zero", not "equal to zero" (0.5 steps over zero)
    exact = [e for e in fire_edges if pat.fact_matches(pat.compare_fact(e.src.ast, e.kind), 'state.timeout', ('==',), '0')]
    chk.ob('d', on_tick.ref, 'the countdown expires when it is no longer positive (a timeout that is not a whole number must not step over the expiry test)', not exact,
           loc(on_tick, (exact or fire_edges)[0].src.ast), discr='expiry-not-exact')
    for e in fire_edges:
        wrap = [n for n in g.nodes if n.kind == 'stmt' and any(
            c.args and _carries_timeout(on_tick, c.args[0]) for _r, c in pat.method_calls(n.ast, 'registerTask'))]
        # (once the countdown was found expired, an edge that says it is still positive cannot be taken: `if t > 0: … elif t <= 0: …`)
        expired = lambda x: x in still_running  # noqa: E731
        p = Q.escapes(g, [e.dst], lambda n: n in wrap, avoid_edge=expired) if e.dst not in wrap else None
        chk.ob('a', on_tick.ref, 'on expiry the waiter is resumed with a wrapped TimeoutError', p is None and bool(wrap), loc(on_tick, e.src.ast),
               discr='timeout:resumed')
        for label, pred in (('done-handler', is_done), ('tick-handler', is_tick)):
            rem = [n for n in g.nodes if n.kind == 'stmt' and _removes(n.ast, pred)]
            p = Q.escapes(g, [e.dst], lambda n: n in rem, avoid_edge=expired) if e.dst not in rem else None
            chk.ob('a', on_tick.ref, f'on expiry the temporary {label} is removed', p is None and bool(rem), loc(on_tick, e.src.ast),
                   path=pat.path_lines(p) if p else None, discr=f'timeout:{label}-removed')
        rem = [n for n in g.nodes if n.kind == 'stmt' and _removes(n.ast, is_ev)]
        p = Q.escapes(g, [e.dst], lambda n: n in rem, avoid_edge=lambda x: expired(x) or pat.test_edge(lambda t, pol: pol == 'T' and src(t) == 'state.run')(x)) \
            if e.dst not in rem else None
        chk.ob('a', on_tick.ref, 'on expiry the temporary handler for the awaited event is removed unless the event was already seen',
               p is None and bool(rem), loc(on_tick, e.src.ast), path=pat.path_lines(p) if p else None, discr='timeout:event-handler-removed')
        for rn in rem:
            q = pat.guarded_by(g, rn, pat.test_edge(lambda t, pol: pol == 'F' and src(t) == 'state.run'))
            chk.ob('a', on_tick.ref, 'the event handler is not removed a second time when the event was already seen', q is None,
                   loc(on_tick, rn.ast), discr='timeout:event-handler-once')
    dec = [n for n in g.nodes if n.kind == 'stmt' and isinstance(n.ast, ast.AugAssign) and src(n.ast.target) == 'state.timeout'
           and isinstance(n.ast.op, ast.Sub) and pat.is_const(n.ast.value, 1)]
    for dn in dec:
        q = pat.guarded_by(g, dn, pat.test_edge(lambda t, pol: pat.fact_matches(pat.compare_fact(t, pol), 'state.timeout', ('>',), '0')))
        chk.ob('d', on_tick.ref, 'the countdown only decrements positive values (never below 0)', q is None, loc(on_tick, dn.ast),
               discr='countdown-positive')
    chk.ob('d', on_tick.ref, 'the countdown decrements by one per iteration', len(dec) == 1, loc(on_tick, on_tick.node), discr='countdown-step')
    # the countdown is counted in loop iterations: while it runs the handler must keep the loop from blocking (bound the idle wait of this generate_events)
    evp = on_tick.params[1] if len(on_tick.params) > 1 else None
    keep = [n for n in g.nodes if n.kind == 'stmt' and evp is not None and any(r == evp and len(c.args) == 1 for r, c in pat.method_calls(n.ast, 'reduce_time_left'))]
    for dn in dec:
        before = Q.reachable_without(g, dn, avoid_node=lambda n: n in keep)
        after = Q.escapes(g, [dn], lambda n: n in keep)
        chk.ob('d', on_tick.ref, 'an iteration that only counts down bounds the idle wait of the loop (reduce_time_left on the generate_events event), so that the next '
                                 'iteration comes', bool(keep) and (before is None or after is None), loc(on_tick, dn.ast), discr='countdown-keeps-loop-turning')
    # state records the tick handler under the name the done path removes
    alias_ok = any(isinstance(n, ast.Assign) and 'state.tick_handler' in [src(t) for t in n.targets] and call_name(n.value) == 'self.addHandler'
                   for n in walk_no_defs(w.node))
    chk.ob('d', w.ref, 'the installed countdown handler is the one recorded in the wait state', alias_ok, loc(w, w.node), discr='tick-alias',
           nontrivial=False)


def _guard_of(func, stmt):
    """The single comparison on state.timeout guarding *stmt* (innermost enclosing if), or None."""
    p = getattr(stmt, '_parent', None)
    cur = stmt
    while p is not None and p is not func.node:
        if isinstance(p, ast.If) and 'state.timeout' in src(p.test) and cur in p.body:
            return p.test
        cur = p
        p = getattr(p, '_parent', None)
    return None


def _eval_guard(test, v):
    """Evaluate a comparison / boolean combination over `state.timeout` := v."""
    if isinstance(test, ast.BoolOp):
        vals = [_eval_guard(x, v) for x in test.values]
        return all(vals) if isinstance(test.op, ast.And) else any(vals)
    if isinstance(test, ast.UnaryOp) and isinstance(test.op, ast.Not):
        return not _eval_guard(test.operand, v)
    if isinstance(test, ast.Compare) and len(test.ops) == 1:
        def val(e):
            if src(e) == 'state.timeout':
                return v
            if isinstance(e, ast.Constant) and isinstance(e.value, (int, float)):
                return e.value
            if isinstance(e, ast.UnaryOp) and isinstance(e.op, ast.USub) and isinstance(e.operand, ast.Constant):
                return -e.operand.value
            raise AnalysisError(f'C06.d: cannot evaluate `{src(test)}`')
        a, b = val(test.left), val(test.comparators[0])
        op = test.ops[0]
        return {ast.Lt: a < b, ast.LtE: a <= b, ast.Gt: a > b, ast.GtE: a >= b, ast.Eq: a == b, ast.NotEq: a != b}[type(op)]
    if src(test) == 'state.timeout':
        return bool(v)
    raise AnalysisError(f'C06.d: cannot evaluate `{src(test)}`')


def _carries_timeout(f, e):
    """The task entry holds a generator of a wrapped TimeoutError (written in place, or bound to a local first)."""
    vs = list(pat.deref(f, e))
    if vs and all('ExceptionWrapper(TimeoutError())' in src(v) for v in vs):
        return True
    return any(isinstance(v, ast.Tuple) and any(isinstance(x, ast.Name) and (ds := list(pat.deref(f, x))) and
                                                 all('ExceptionWrapper(TimeoutError())' in src(d_) for d_ in ds) for x in v.elts) for v in vs)


def _is_wait_state(f, recv):
    """*recv* names the wait state of a call()/wait() generator: the first object that generator yields (`x = next(gen)`)."""
    if recv.endswith('state'):
        return True
    return any(isinstance(v, ast.Call) and call_name(v) == 'next' for v in pat.local_feeds(f, recv))


def rule_b(chk, t):
    g = t.cfg()
    ev, task, parent = t.params[1], t.params[2], t.params[3]
    retire = [n for n in g.nodes if n.kind == 'stmt' and any(True for _r, _c in pat.method_calls(n.ast, 'unregisterTask'))]
    need(len(retire) >= 5, f'C06.b: only {len(retire)} task retirements in the stepper, 7 confirmed by hand')
    cont = set()
    for n in g.nodes:
        if n.kind != 'stmt':
            continue
        if any(True for _r, _c in pat.method_calls(n.ast, 'registerTask')):
            cont.add(n)
        if any(a == 'task' and _is_wait_state(t, recv) for recv, a, _v in pat.attr_store(n.ast)):
            cont.add(n)   # generator handed to the wait state (resumed by _on_done)
        if any(True for _r, _c in pat.method_calls(n.ast, '_eventDone')):
            cont.add(n)
    # clauses for KeyboardInterrupt / SystemExit stop the manager: exempt
    stop_nodes = {n for n in g.nodes if any(k == 'except' and handler_names(a) and set(handler_names(a)) & {'KeyboardInterrupt', 'SystemExit'}
                                            for k, a in n.ctx)}
    pending_edge = pat.test_edge(lambda tt, pol: pat.fact_matches(pat.compare_fact(tt, pol), f'{ev}.waitingHandlers', ('!=', '>'), '0'))
    for u in retire:
        tgt = lambda n: n in cont or n in stop_nodes  # noqa: E731
        before = Q.reachable_without(g, u, avoid_node=tgt, weak=True)
        after = Q.escapes(g, [u], tgt, exits=('exit',), weak=True, avoid_edge=pending_edge) if before is not None else None
        if before is not None and after is None:
            # "other handlers are still pending" excuses nothing while the task has a caller that must be continued:
            # such a path has to establish that there is no caller (`parent` tested false)
            after = Q.escapes(g, [u], tgt, exits=('exit',), weak=True,
                              avoid_edge=pat.test_edge(lambda tt, pol: pol == 'F' and src(tt) == parent))
        ok = before is None or after is None
        clause = [handler_names(a) for k, a in u.ctx if k == 'except']
        where = ('except ' + '/'.join(clause[-1] or ('*',))) if clause else _branch_of(u)
        chk.ob('b', t.ref, 'a retired task is continued, handed to a wait state or accounted for on every path', ok, loc(t, u.ast),
               path=pat.path_lines((before or []) + (after or [])) if not ok else None, discr=f'retire:{where}')
    # a wait is linked to the generator that yielded it: that generator is the one to resume when the wait is over
    g_ = g
    for n in g_.nodes:
        if n.kind != 'stmt':
            continue
        for recv, a, v in pat.attr_store(n.ast):
            if a != 'parent' or not _is_wait_state(t, recv):
                continue
            # the wait generator handed to this state: `<recv>.task = V`
            tasks = [v2 for m in g_.nodes if m.kind == 'stmt' for r2, a2, v2 in pat.attr_store(m.ast) if r2 == recv and a2 == 'task' and isinstance(v2, ast.Name)
                     and (Q.reaches(m, n, exc=()) or Q.reaches(n, m, exc=()))]
            yielders = set()
            for v2 in tasks:
                for d in Q.reaching_defs(g_, n, v2.id):
                    dv = d.ast.value if d.kind == 'stmt' and isinstance(d.ast, ast.Assign) else None
                    if isinstance(dv, ast.Call) and call_name(dv) == 'next' and dv.args:
                        yielders.add(src(dv.args[0]))
                    elif isinstance(dv, ast.Call) and isinstance(dv.func, ast.Attribute) and dv.func.attr in ('send', 'throw'):
                        yielders.add(src(dv.func.value))
                    else:
                        yielders.add('?')
            ok = bool(yielders) and yielders == {src(v)}
            chk.ob('b', t.ref, 'a wait is linked to the generator that yielded it (the one stepped with next/send/throw just before): that is the caller resumed when the wait is over',
                   ok, loc(t, n.ast), detail=f'yielded by {sorted(yielders)}, linked to `{src(v)}`', discr=f'wait-linked-to-yielder:{_branch_of(n)}')
    # except clauses agree on the accounting: both decrement the waiting count
    for h in pat.except_nodes(g):
        names = handler_names(h.ast)
        if names and set(names) & {'KeyboardInterrupt', 'SystemExit'}:
            continue
        reg = pat.region(g, 'except', h.ast)
        dec = [n for n in reg if n.kind == 'stmt' and isinstance(n.ast, ast.AugAssign) and src(n.ast.target) == f'{ev}.waitingHandlers'
               and isinstance(n.ast.op, ast.Sub)]
        p = pat.escapes_region(g, h, reg, lambda n: n in dec, exits=('exit',))
        chk.ob('b', t.ref, 'a finished or failed generator is taken off the waiting count on every path of its clause', p is None and bool(dec),
               loc(t, h.ast), path=pat.path_lines(p, h) if p else None, discr=f'decrement:{"/".join(names or ("*",))}')
        # completion is attempted when nothing else is pending
        fin = [n for n in reg if n.kind == 'stmt' and any(True for _r, _c in pat.method_calls(n.ast, '_eventDone'))]
        regs = [n for n in reg if n.kind == 'stmt' and any(True for _r, _c in pat.method_calls(n.ast, 'registerTask'))]
        p = pat.escapes_region(g, h, reg, lambda n: n in fin or n in regs, exits=('exit',), avoid_edge=pending_edge)
        chk.ob('b', t.ref, 'the clause continues the caller or attempts completion unless other handlers are pending', p is None, loc(t, h.ast),
               path=pat.path_lines(p, h) if p else None, discr=f'complete-or-continue:{"/".join(names or ("*",))}')
    # a finished/failed task that has a caller always hands control back to the caller (the caller's own share of the waiting
    # count is only released when the caller is stepped again), whatever else is tested in the clause
    for h in pat.except_nodes(g):
        names = handler_names(h.ast)
        if names and set(names) & {'KeyboardInterrupt', 'SystemExit'}:
            continue
        reg = pat.region(g, 'except', h.ast)
        regs_p = [n for n in reg if n.kind == 'stmt' and any(src(c.args[0]).replace(' ', '').startswith(f'({ev},{parent},') for _r, c in pat.method_calls(n.ast, 'registerTask') if c.args)]
        p = pat.escapes_region(g, h, reg, lambda n: n in regs_p, exits=('exit',),
                               avoid_edge=pat.test_edge(lambda tt, pol: pol == 'F' and src(tt) == parent))
        chk.ob('b', t.ref, 'in this clause a task that has a caller re-registers the caller on every path (no further condition)', p is None and bool(regs_p),
               loc(t, h.ast), path=pat.path_lines(p, h) if p else None, discr=f'caller-always-continued:{"/".join(names or ("*",))}')
    # timeout delivery: the caller is stepped again whatever it yields after catching the exception
    thr = [n for n in g.nodes if n.kind == 'stmt' and any((call_name(c) or '').endswith('.throw') for c in calls_in(n.ast))]
    for n in thr:
        regs = [m for m in g.nodes if m.kind == 'stmt' and (any(True for _r, _c in pat.method_calls(m.ast, 'registerTask')) or
                                                           any(a == 'task' and _is_wait_state(t, recv) for recv, a, _v in pat.attr_store(m.ast)))]
        p = Q.escapes(g, [n], lambda m: m in regs, exits=('exit',), exc=())
        # a generator yielded after the throw (another call()/wait()) is handed to its wait state, not stepped as a value
        rv_ = src(n.ast.targets[0]) if isinstance(n.ast, ast.Assign) else None
        gen_edges = [e for m in g.nodes if m.kind == 'test' and Q.reaches(n, m) for e in m.succ if e.kind == 'T' and rv_ and
                     src(m.ast).replace(' ', '') == f'isinstance({rv_},GeneratorType)' and Q.reachable_without(g, m, start=n, avoid_node=lambda x: rv_ in Q.node_defs(x) and x is not n) is not None]
        hand = [m for m in g.nodes if m.kind == 'stmt' and any(a == 'task' and _is_wait_state(t, recv) and src(v) == rv_ for recv, a, v in pat.attr_store(m.ast))]
        okg = bool(gen_edges) and all(e.dst in hand or Q.escapes(g, [e.dst], lambda m: m in hand, exits=('exit',), exc=()) is None for e in gen_edges)
        chk.ob('b', t.ref, 'a generator yielded by the caller after the timeout was thrown into it (another call()/wait()) is handed to its wait state',
               okg, loc(t, n.ast), discr='throw-then-call')
        chk.ob('b', t.ref, 'after throwing the timeout into the caller, the caller is stepped again whatever it yields', p is None,
               loc(t, n.ast), path=pat.path_lines(p, n) if p else None, discr='throw-continue')


def _branch_of(n):
    p = getattr(n.ast, '_parent', None)
    while p is not None:
        if isinstance(p, ast.If) and 'isinstance(value' in src(p.test):
            return 'if ' + src(p.test)[:40]
        p = getattr(p, '_parent', None)
    return 'body'


def rule_e(repo, chk):
    f = repo.func(MANAGER, 'Manager.callEvent')
    chk.touch(f)
    ev = f.params[1]
    g = f.cfg()
    fires = [n for n in g.nodes if n.kind == 'stmt' and isinstance(n.ast, ast.Assign) and any(src(e) == ev for _c, _r, e in pat.fire_calls(n.ast))]
    chk.ob('e', f.ref, 'callEvent fires the event and keeps its value', bool(fires), loc(f, f.node), discr='fires')
    yf = [n for n in walk_no_defs(f.node) if isinstance(n, ast.YieldFrom)]
    ok = False
    if yf:
        cs = pat.deref(f, yf[0].value)       # `w = self.waitEvent(…); yield from w`
        c = cs[0] if len(cs) == 1 else yf[0].value
        ok = isinstance(c, ast.Call) and call_name(c) in ('self.waitEvent', 'self.wait') and c.args and src(c.args[0]) == ev and \
            any(isinstance(a, ast.Starred) and src(a.value) == f'{ev}.channels' for a in c.args[1:]) and any(k.arg is None for k in c.keywords)
    chk.ob('e', f.ref, 'callEvent delegates to waitEvent for the same event object on its channels, passing the options', ok,
           loc(f, yf[0] if yf else f.node), discr='waits')
    if fires:
        var = src(fires[0].ast.targets[0])
        ys = [n for n in walk_no_defs(f.node) if isinstance(n, ast.Yield) and n.value is not None and src(n.value) == f'CallValue({var})']
        chk.ob('e', f.ref, 'callEvent finally yields CallValue of the fired event\'s value', bool(ys), loc(f, f.node), discr='callvalue')
        if yf and fires:
            wn = g.node_for(yf[0])
            p = Q.reachable_without(g, wn[0], avoid_node=lambda n: n in fires) if wn else []
            chk.ob('e', f.ref, 'the event is fired before waiting for it', p is None, loc(f, f.node), discr='fire-before-wait')
    w = repo.func(MANAGER, 'Manager.waitEvent')
    ys = [n for n in walk_no_defs(w.node) if isinstance(n, ast.Yield) and n.value is not None and 'CallValue(' in src(n.value)]
    ok = bool(ys) and all(src(y.value) == 'CallValue(state.event.value)' for y in ys)
    chk.ob('e', w.ref, 'waitEvent finally yields CallValue of the awaited event\'s value', ok, loc(w, w.node), discr='wait-callvalue')


def rule_g_h(repo, chk):
    from .common import dispatcher_loop
    chk.rule('C06.g', 'the temporary handlers of a wait take effect and disappear at once: addHandler/removeHandler invalidate the dispatcher memo on '
                      'every path (decided for C01.a)')
    n = chk.adopt('g', 'C01', repo, lambda o: o.rule == 'C01.a' and o.construct.split('::')[-1] in ('Manager.addHandler', 'Manager.removeHandler'))
    need(n >= 2, f'C06.g: only {n} invalidation obligations for addHandler/removeHandler found')
    chk.rule('C06.h', 'a task registered by a generate_events handler (the countdown registering the TimeoutError task) cancels the idle wait: after every '
                      'handler of the loop the dispatcher tests the task list and reduces the budget')
    d = repo.func(MANAGER, 'Manager._dispatcher')
    chk.touch(d)
    loop, v, sites, helper = dispatcher_loop(repo, d)
    g = d.cfg()
    inloop = [n for n in g.nodes if ('loop', loop.ast) in n.ctx]
    tests = [n for n in inloop if n.kind == 'test' and src(n.ast) == 'self._tasks']
    reduces = [n for n in inloop if n.kind == 'stmt' and any(True for _r, c in pat.method_calls(n.ast, 'reduce_time_left'))]
    ok = bool(tests) and bool(reduces)
    p = None
    for s_ in sites:
        p = p or Q.escapes(g, [s_], lambda n: n in tests, exits=('exit',), weak=True, extra_exit=lambda n: n is loop,
                           avoid_edge=lambda e: e.kind == 'F' and e.src.kind == 'test' and 'generate_events' in src(e.src.ast) and 'isinstance' in src(e.src.ast))
    for t_ in tests:
        dst = [e.dst for e in t_.succ if e.kind == 'T']
        ok = ok and bool(dst) and all(x in reduces for x in dst)
    small = all(src(c.args[0]) in ('TIMEOUT', '0') for n in reduces for _r, c in pat.method_calls(n.ast, 'reduce_time_left') if c.args)
    chk.ob('h', d.ref, 'after every handler of a generate_events dispatch the task list is tested and a pending task reduces the idle budget', ok and p is None and small,
           loc(d, loop.ast), path=pat.path_lines(p) if p else None, discr='tasks-tested-after-each-handler')
