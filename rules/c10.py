"""C10 — pollers report exactly the registered-and-ready descriptors; all three agree.

a  every registration mutator overridden by Poll/EPoll does the base bookkeeping and then recomputes the kernel
   registration of the same descriptor, on every path
b  sibling agreement of _updateRegistration: read interest ↔ IN bit, write interest ↔ OUT bit; non-empty mask ⇒ kernel
   register + map entry; empty mask ⇒ base discard + map entry removed
c  the hang-up/error path fires _disconnect and releases kernel registration, bookkeeping and map entry
d  readiness events are addressed to getTarget(fd) of the same descriptor, fired under the matching readiness bit /
   current-interest filter; unknown descriptors are ignored
e  base bookkeeping: interest lists and the target map are updated together
"""

import ast

from sa import AnalysisError, pat
from sa import query as Q
from sa.model import call_name, calls_in, src, walk_no_defs

from .common import POLLERS, loc, need

MIN_OBLIGATIONS = 50
MUTATORS = ('addReader', 'addWriter', 'removeReader', 'removeWriter', 'discard')
BITS = {'Poll': ('select.POLLIN', 'select.POLLOUT'), 'EPoll': ('select.EPOLLIN', 'select.EPOLLOUT')}
IN_ALIASES = {'select.POLLIN', 'select.EPOLLIN'}     # numerically equal on Linux; accepted for the *test* side
OUT_ALIASES = {'select.POLLOUT', 'select.EPOLLOUT'}


def run(repo, chk):
    chk.not_decided = ['"iff actually readable/writable" (kernel)', 'reuse of a descriptor number between close and the next poll',
                       'KQueue is only swept for the control descriptor (not available on this platform)']
    chk.rule('C10.a', 'Poll/EPoll mutators: super().<mutator>(…) then self._updateRegistration(fd) on every path')
    chk.rule('C10.b', '_updateRegistration: mask bits follow list membership; register+map on non-empty mask; discard+unmap on empty mask')
    chk.rule('C10.c', 'on hang-up/error: _disconnect fired, kernel unregister, base discard, map entry deleted')
    chk.rule('C10.d', 'readiness events go to getTarget of the same descriptor under the matching bit / interest filter; unknown fds ignored')
    chk.rule('C10.e', 'BasePoller keeps interest lists and the target map consistent')
    base = repo.cls(POLLERS, 'BasePoller')
    for cname in ('Poll', 'EPoll'):
        c = repo.cls(POLLERS, cname)
        rule_a(chk, c)
        rule_b(chk, c, cname)
        rule_c_d(chk, c, cname)
    rule_select(repo, chk)
    rule_preen(repo, chk)
    rule_e(chk, base)
    rule_g(repo, chk)
    rule_order(repo, chk)
    rule_stale(repo, chk)
    rule_roles(chk, base)
    rule_wait(repo, chk)
    rule_closed_noticed(repo, chk)


def rule_wait(repo, chk):
    """The kernel wait of the interchangeable pollers fails alike."""
    chk.rule('C10.i', 'the wait call of Poll and EPoll: an interrupted wait (EINTR) ends the iteration quietly, any other failure leaves the handler as the exception it is; '
                      'the readiness list is bound on every path that reaches the loop over it')
    from sa import concrete
    for cname in ('Poll', 'EPoll'):
        f = repo.cls(POLLERS, cname).methods.get('_generate_events')
        need(f, f'C10.i: {cname}._generate_events missing')
        chk.touch(f)
        g = f.cfg()
        loops = [n for n in g.nodes if n.kind == 'for' and isinstance(n.ast.iter, ast.Name)]
        need(loops, f'C10.i: {cname}._generate_events has no loop over the readiness list')
        lp = loops[0]
        rv = lp.ast.iter.id
        it = [n for n in g.nodes if n.kind == 'iter' and n.ast is lp.ast.iter]
        defs = Q.reaching_defs(g, it[0] if it else lp, rv)
        unbound = [d for d in defs if d.kind == 'entry']
        chk.ob('i', f.ref, 'the readiness list is bound on every path that reaches the loop over it (a failed wait does not fall through to the loop)', not unbound and bool(defs),
               loc(f, lp.ast), discr='wait-result-bound')
        waits = [n for n in g.nodes if n.kind == 'stmt' and rv in Q.node_defs(n)]
        hs = [e.dst for n in waits for e in n.succ if e.kind == 'x' and e.dst.kind == 'except' and e.exc in ('OSError', 'Exception', '*')]
        need(hs, f'C10.i: {cname}._generate_events does not catch a failing wait')
        h = hs[0]
        en = h.ast.name
        if en is None:
            chk.ob('i', f.ref, 'a failed wait is classified by its errno', False, loc(f, h.ast), discr='wait-errno')
            continue
        env = {'EINTR': 'EINTR', '$errno.EINTR': 'EINTR'}
        quiet = concrete.escapes(g, h, dict(env, **{f'${en}.args[0]': 'EINTR', f'${en}.errno': 'EINTR'}), lambda n: False, exits=('raise',), goal=lambda n: n is lp)
        chk.ob('i', f.ref, 'an interrupted wait (EINTR) ends the iteration quietly', quiet is None, loc(f, h.ast), path=pat.path_lines(quiet, h) if quiet else None,
               discr='wait-eintr-quiet')
        lost = concrete.escapes(g, h, dict(env, **{f'${en}.args[0]': 'EOTHER', f'${en}.errno': 'EOTHER'}), lambda n: False, exits=('exit',), goal=lambda n: n is lp)
        chk.ob('i', f.ref, 'a wait that failed for another reason leaves the handler as the exception it is (as in the sibling poller)', lost is None, loc(f, h.ast),
               path=pat.path_lines(lost, h) if lost else None, discr='wait-error-raised')


def rule_roles(chk, base):
    """The channel readiness events go to is the channel of the component that registered the descriptor *for that role*."""
    ar, aw = base.methods['addReader'], base.methods['addWriter']
    def tgt(f):
        return {src(n.targets[0].value) for n in walk_no_defs(f.node) if isinstance(n, ast.Assign) and isinstance(n.targets[0], ast.Subscript) and 'target' in src(n.targets[0].value)}
    shared = tgt(ar) & tgt(aw)
    chk.ob('e', base.ref if hasattr(base, 'ref') else POLLERS, 'the reader and the writer of a descriptor each keep their own target channel (registering a writer must not redirect the reader\'s events)',
           not shared, loc(ar, ar.node), detail=f'one map for both roles: {sorted(shared)}', discr='target-per-role')


def rule_a(chk, c):
    for m in MUTATORS:
        f = c.methods.get(m)
        if f is None:
            chk.ob('a', c.ref, f'{m} is overridden so that the kernel registration follows the bookkeeping', False, c.module.relpath,
                   discr=f'override:{m}')
            continue
        chk.touch(f)
        g = f.cfg()
        fd = f.params[-1]
        sup = [n for n in g.nodes if n.kind == 'stmt' and any(r == 'super()' and [src(a) for a in c2.args] == f.params[1:]
                                                             for r, c2 in pat.method_calls(n.ast, m))]
        upd = [n for n in g.nodes if n.kind == 'stmt' and any(r == 'self' and [src(a) for a in c2.args] == [fd]
                                                             for r, c2 in pat.method_calls(n.ast, '_updateRegistration'))]
        p1 = Q.escapes(g, [g.entry], lambda n: n in sup)
        p2 = Q.escapes(g, [g.entry], lambda n: n in upd)
        chk.ob('a', f.ref, 'the base bookkeeping is done with the same arguments on every path', p1 is None and bool(sup), loc(f, f.node),
               path=pat.path_lines(p1) if p1 else None, discr='base-called')
        chk.ob('a', f.ref, 'the kernel registration of the same descriptor is recomputed on every path', p2 is None and bool(upd), loc(f, f.node),
               path=pat.path_lines(p2) if p2 else None, discr='registration-updated')
        if sup and upd:
            q = Q.reachable_without(g, upd[0], avoid_node=lambda n: n in sup)
            chk.ob('a', f.ref, 'the registration is recomputed after the bookkeeping changed', q is None, loc(f, upd[0].ast), discr='order')


def rule_b(chk, c, cname):
    f = c.methods.get('_updateRegistration')
    need(f, f'C10.b: {cname}._updateRegistration missing')
    chk.touch(f)
    g = f.cfg()
    fd = f.params[1]
    inb, outb = BITS[cname]
    # mask variable: what the kernel registration is made with
    mv = None
    for n in g.nodes:
        if n.kind == 'stmt':
            for r, c2 in pat.method_calls(n.ast, 'register'):
                if r == 'self._poller' and len(c2.args) == 2 and isinstance(c2.args[1], ast.Name):
                    mv = c2.args[1].id
    need(mv, f'C10.b: {cname}._updateRegistration has no mask variable')
    # the mask is computed for the four combinations of membership in the two interest lists (the bits taken as 1 and 4), whatever way the code spells it
    from sa import concrete
    tests0 = [n for n in g.nodes if n.kind == 'test' and (src(n.ast) == mv or (isinstance(n.ast, ast.Compare) and src(n.ast.left) == mv))]
    need(tests0, f'C10.b: {cname}._updateRegistration never tests the mask')
    bad = {'read': [], 'write': []}
    n_envs = 0
    for r_ in (False, True):
        for w_ in (False, True):
            env = {f'${fd} in self._read': r_, f'${fd} in self._write': w_, f'${fd} not in self._read': not r_, f'${fd} not in self._write': not w_,
                   '$' + inb: 1, '$' + outb: 4}
            got = concrete.envs_at(g, g.entry, env, lambda n: n in tests0 or n in [x for x in g.nodes if x.kind == 'stmt' and any(
                rr == 'self._poller' for rr, _c in pat.method_calls(x.ast, 'register'))])
            n_envs += len(got)
            for _n, e_ in got:
                v = e_.get(mv, concrete.UNKNOWN)
                if v is concrete.UNKNOWN or not isinstance(v, int):
                    bad['read'].append(f'in _read={r_}, in _write={w_}: {mv} not determined')
                    bad['write'].append(f'in _read={r_}, in _write={w_}: {mv} not determined')
                    continue
                if bool(v & 1) != r_:
                    bad['read'].append(f'in _read={r_}, in _write={w_}: {mv}={v}')
                if bool(v & 4) != w_ or (v & ~5):
                    bad['write'].append(f'in _read={r_}, in _write={w_}: {mv}={v}')
    for label in ('read', 'write'):
        chk.ob('b', f.ref, f'the {label} bit is set exactly when the descriptor is in the {label} interest list', n_envs >= 4 and not bad[label],
               loc(f, tests0[0].ast), detail='; '.join(bad[label][:3]) or f'{n_envs} valuations reach the mask test', discr=f'bit:{label}')
    mask_T = pat.test_edge(lambda tt, pol: (pol == 'T' and src(tt) == mv) or pat.fact_matches(pat.compare_fact(tt, pol), mv, ('!=', '>'), '0'))
    mask_F = pat.test_edge(lambda tt, pol: (pol == 'F' and src(tt) == mv) or pat.fact_matches(pat.compare_fact(tt, pol), mv, ('==',), '0'))
    reg = [n for n in g.nodes if n.kind == 'stmt' and any(r == 'self._poller' and len(c2.args) == 2 and src(c2.args[1]) == mv
                                                         for r, c2 in pat.method_calls(n.ast, 'register'))]
    mapset = [n for n in g.nodes if n.kind == 'stmt' and isinstance(n.ast, ast.Assign) and src(n.ast.targets[0]).startswith('self._map[')
              and src(n.ast.value) == fd]
    disc = [n for n in g.nodes if n.kind == 'stmt' and any(r == 'super()' and [src(a) for a in c2.args] == [fd] for r, c2 in pat.method_calls(n.ast, 'discard'))]
    unmap = [n for n in g.nodes if n.kind == 'stmt' and isinstance(n.ast, ast.Delete) and any(src(t).startswith('self._map[') for t in n.ast.targets)]
    unmap += [n for n in g.nodes if n.kind == 'stmt' and any(r == 'self._map' for r, _c in pat.method_calls(n.ast, 'pop'))]
    tests = [n for n in g.nodes if n.kind == 'test' and (src(n.ast) == mv or (isinstance(n.ast, ast.Compare) and src(n.ast.left) == mv))]
    need(tests, f'C10.b: {cname}._updateRegistration never tests the mask')
    for group, label, edge in ((reg, 'kernel-register', mask_T), (mapset, 'map-entry-added', mask_T), (disc, 'base-discard', mask_F),
                               (unmap, 'map-entry-removed', mask_F)):
        ok = bool(group)
        path = None
        for tn in tests:
            for e in tn.succ:
                if edge(e) and e.dst not in group:
                    # deleting inside suppress(KeyError) or a loop over matching keys still counts: look for the statement
                    q = Q.escapes(g, [e.dst], lambda n: n in group, avoid_edge=lambda e2: (e2.src.kind == 'for' and e2.kind == 'F' and
                                  any(('loop', e2.src.ast) in u.ctx for u in group)) or
                                  (label == 'map-entry-removed' and e2.src.kind == 'test' and e2.kind in ('T', 'F') and
                                   (lambda fc: fc is not None and fc[1] == 'not in' and fc[2] == 'self._map')(pat.compare_fact(e2.src.ast, e2.kind))))
                    if q is not None:
                        ok = False
                        path = q
        for n in group:
            q = pat.guarded_by(g, n, edge)
            if q is not None and label in ('kernel-register', 'map-entry-added', 'base-discard'):
                ok = False
                path = q
        side = 'non-empty' if edge is mask_T else 'empty'
        chk.ob('b', f.ref, f'{label.replace("-", " ")} happens exactly on the {side}-mask branch', ok, loc(f, (group[0].ast if group else f.node)),
               path=pat.path_lines(path) if path else None, discr=label)
    # the old kernel registration is dropped first (re-registering an fd raises otherwise)
    unr = [n for n in g.nodes if n.kind == 'stmt' and any(r == 'self._poller' for r, _c in pat.method_calls(n.ast, 'unregister'))]
    # … possibly in a loop over the numbers the object is known under: a loop over a non-empty display (`{fileno, *known}`) runs at least once
    loops_ok = []
    for lp in g.nodes:
        its = list(pat.deref(f, lp.ast.iter)) if lp.kind == 'for' and isinstance(lp.ast.iter, ast.Name) else [lp.ast.iter] if lp.kind == 'for' else []
        if its and all(isinstance(i_, (ast.Set, ast.Tuple, ast.List)) and any(not isinstance(x, ast.Starred) for x in i_.elts) for i_ in its):
            body = [e.dst for e in lp.succ if e.kind == 'T']
            if body and all(b_ in unr or Q.escapes(g, [b_], lambda n: n in unr, exits=('exit',), extra_exit=lambda n: n is lp) is None for b_ in body):
                loops_ok.append(lp)
    def dropped_before(r_):
        if Q.reachable_without(g, r_, avoid_node=lambda n: n in unr) is None:
            return True
        return bool(loops_ok) and Q.reachable_without(g, r_, avoid_node=lambda n: n in loops_ok) is None
    chk.ob('b', f.ref, 'the previous kernel registration is dropped before the new mask is applied', bool(unr) and all(dropped_before(r_) for r_ in reg), loc(f, f.node),
           discr='unregister-first')
    # a closed object no longer reports its number: on the no-interest branch its map entries are found by value (sibling rule: Poll and EPoll agree)
    byval = [n for n in walk_no_defs(f.node) if isinstance(n, (ast.ListComp, ast.SetComp, ast.GeneratorExp)) and 'self._map.items()' in src(n) and
             any(isinstance(c_, ast.Compare) and fd in (src(c_.left), src(c_.comparators[0])) for i_ in n.generators[0].ifs for c_ in ast.walk(i_))]
    dels = [n for n in g.nodes if n.kind == 'stmt' and isinstance(n.ast, ast.Delete) and any(src(t).startswith('self._map[') for t in n.ast.targets) and any(k == 'loop' for k, _a in n.ctx)]
    okv = bool(byval) and bool(dels) and any(pat.guarded_by(g, n, mask_F) is None for n in dels)
    chk.ob('b', f.ref, 'when no interest is left the map entries of the object are found by value (a closed object answers fileno() with -1 / an error)', okv, loc(f, f.node),
           discr='unmap-by-value')


def rule_c_d(chk, c, cname):
    f = c.methods.get('_process')
    need(f, f'C10.c: {cname}._process missing')
    chk.touch(f)
    g = f.cfg()
    fileno, ev = f.params[1], f.params[2]
    # fd looked up from the map; unknown ⇒ return
    look = [n for n in g.nodes if n.kind == 'stmt' and isinstance(n.ast, ast.Assign) and src(n.ast.value) == f'self._map[{fileno}]']
    need(look, f'C10.d: {cname}._process does not resolve the descriptor through the map')
    fd = src(look[0].ast.targets[0])
    q = pat.guarded_by(g, look[0], pat.test_edge(lambda tt, pol: pat.fact_matches(pat.compare_fact(tt, pol), fileno, ('in',), 'self._map')))
    chk.ob('d', f.ref, 'events for descriptors that are not (any longer) registered are ignored', q is None, loc(f, look[0].ast),
           path=pat.path_lines(q) if q else None, discr='unknown-ignored')
    fires = {}
    for n in g.nodes:
        if n.kind == 'stmt':
            for c2, _r, e in pat.fire_calls(n.ast):
                fires.setdefault(pat.event_ctor_name(e), []).append((n, c2, e))
    for name in ('_read', '_write', '_disconnect'):
        chk.ob('d', f.ref, f'{name} events are produced', name in fires, loc(f, f.node), discr=f'fires:{name}', nontrivial=False)
    for name, lst in fires.items():
        for n, c2, e in lst:
            args = [src(a) for a in e.args]
            tgt = [src(a) for a in c2.args[1:]]
            ok = bool(args) and args[0] == fd and tgt == [f'self.getTarget({fd})']
            chk.ob('d', f.ref, f'{name} carries the descriptor and is addressed to the channel registered for that descriptor', ok, loc(f, c2),
                   detail=f'`{src(c2)}`', discr=f'target:{name}:{"err" if any(k == "except" for k, _a in n.ctx) else "main"}')
    inb, outb = IN_ALIASES, OUT_ALIASES

    def bit_edge(bits):
        return pat.test_edge(lambda tt, pol: pol == 'T' and isinstance(tt, ast.BinOp) and isinstance(tt.op, ast.BitAnd) and
                             src(tt.left) == ev and src(tt.right) in bits)
    for name, bits in (('_read', inb), ('_write', outb)):
        for n, c2, e in fires.get(name, []):
            q = pat.guarded_by(g, n, bit_edge(bits))
            chk.ob('d', f.ref, f'{name} is fired only when the kernel reported the matching readiness bit', q is None, loc(f, c2),
                   path=pat.path_lines(q) if q else None, discr=f'bit:{name}')
    # c: hang-up path
    hang = [e for n in g.nodes if n.kind == 'test' for e in n.succ if e.kind == 'T' and 'self._disconnected_flag' in src(n.ast)]
    chk.ob('c', f.ref, 'the poller recognises hang-up/error conditions', bool(hang), loc(f, f.node), discr='hangup-test', nontrivial=False)
    dis_main = [n for n, c2, e in fires.get('_disconnect', []) if not any(k == 'except' for k, _a in n.ctx)]
    for e in hang:
        # the branch where the hang-up is acted upon: reach the disconnect fire
        targets = {
            'disconnect-fired': dis_main,
            'kernel-unregistered': [n for n in g.nodes if n.kind == 'stmt' and any(r == 'self._poller' and [src(a) for a in c3.args] == [fileno]
                                                                                 for r, c3 in pat.method_calls(n.ast, 'unregister'))],
            'bookkeeping-discarded': [n for n in g.nodes if n.kind == 'stmt' and any(r == 'super()' and [src(a) for a in c3.args] == [fd]
                                                                                   for r, c3 in pat.method_calls(n.ast, 'discard'))],
            'map-entry-deleted': [n for n in g.nodes if n.kind == 'stmt' and isinstance(n.ast, ast.Delete) and
                                  any(src(t) == f'self._map[{fileno}]' for t in n.ast.targets)],
        }
        for label, group in targets.items():
            grp = [n for n in group if not any(k == 'except' for k, _a in n.ctx)]
            for dn in dis_main:
                p = Q.escapes(g, [dn], lambda n: n in grp) if label != 'disconnect-fired' else None
                chk.ob('c', f.ref, f'on hang-up: {label.replace("-", " ")} on every path', bool(grp) and p is None, loc(f, dn.ast),
                       path=pat.path_lines(p, dn) if p else None, discr=f'hangup:{label}')
    # a descriptor with data still pending is not given up: the hang-up path is taken only without the readable bit
    stale_T = pat.test_edge(lambda tt, pol: pol == 'T' and isinstance(tt, ast.Name) and any(
        f'{fd}.fileno() != {fileno}' in src(v) or (isinstance(v, ast.Constant) and v.value is True) for v in pat.local_feeds(f, tt.id)) and
        any(f'{fd}.fileno()' in src(v) for v in pat.local_feeds(f, tt.id)))
    for dn in dis_main:
        q = pat.guarded_by(g, dn, lambda e: stale_T(e) or pat.test_edge(lambda tt, pol: pol == 'F' and isinstance(tt, ast.BinOp) and isinstance(tt.op, ast.BitAnd) and
                                                                         src(tt.left) == ev and src(tt.right) in IN_ALIASES)(e))
        chk.ob('c', f.ref, 'the descriptor is given up on hang-up only when the kernel reports nothing left to read (readable data is delivered '
                           'first, the hang-up is seen again afterwards)', q is None, loc(f, dn.ast), path=pat.path_lines(q) if q else None,
               discr='hangup-only-when-drained')
    # error clause releases too
    for h in pat.except_nodes(g):
        reg = pat.region(g, 'except', h.ast)
        # only the clauses that guard the reporting itself (a probe of the descriptor, e.g. `fd.fileno()`, has its own handler)
        tr = [a for k, a in h.ctx if k == 'try']
        body_fires = any(pat.fire_calls(x) for t_ in ([getattr(h.ast, '_parent', None)] if isinstance(getattr(h.ast, '_parent', None), ast.Try) else tr) if t_ is not None
                         for b_ in t_.body for x in [b_])
        if not body_fires:
            continue
        for label, pred in (('disconnect-fired', lambda n: n.kind == 'stmt' and pat.fires(n.ast, '_disconnect')),
                            ('kernel-unregistered', lambda n: n.kind == 'stmt' and any(r == 'self._poller' for r, _c in pat.method_calls(n.ast, 'unregister'))),
                            ('bookkeeping-discarded', lambda n: n.kind == 'stmt' and any(r == 'super()' for r, _c in pat.method_calls(n.ast, 'discard'))),
                            ('map-entry-deleted', lambda n: n.kind == 'stmt' and isinstance(n.ast, ast.Delete))):
            p = pat.escapes_region(g, h, reg, pred, exits=('exit',))
            chk.ob('c', f.ref, f'on a failure while reporting readiness: {label.replace("-", " ")}', p is None, loc(f, h.ast),
                   path=pat.path_lines(p, h) if p else None, discr=f'error:{label}')
    # _generate_events feeds every reported pair to _process
    ge = c.methods.get('_generate_events')
    need(ge, f'C10.d: {cname}._generate_events missing')
    chk.touch(ge)
    ok = False
    for n in walk_no_defs(ge.node):
        if isinstance(n, ast.For) and isinstance(n.target, ast.Tuple):
            tv = [src(x) for x in n.target.elts]
            for r, c2 in pat.method_calls(n, '_process'):
                if r == 'self' and [src(a) for a in c2.args] == tv and not any(isinstance(x, ast.If) for x in n.body):
                    ok = True
    chk.ob('d', ge.ref, 'every (descriptor, readiness) pair reported by the kernel is processed', ok, loc(ge, ge.node), discr='all-processed')


def rule_order(repo, chk):
    """Sibling rule: within one round every poller reports a descriptor's input before its output (a write handler may close the socket: the data that has
    arrived must have been handed over by then)."""
    chk.rule('C10.h', 'the three pollers agree on the order of one round: _read events are fired before _write events')
    for cname, meth in (('Select', '_generate_events'), ('Poll', '_process'), ('EPoll', '_process')):
        f = repo.func(POLLERS, f'{cname}.{meth}')
        chk.touch(f)
        g = f.cfg()
        rd = [n for n in g.nodes if n.kind == 'stmt' and any(pat.event_ctor_name(e) == '_read' for _c, _r, e in pat.fire_calls(n.ast))]
        wr = [n for n in g.nodes if n.kind == 'stmt' and any(pat.event_ctor_name(e) == '_write' for _c, _r, e in pat.fire_calls(n.ast))]
        need(rd and wr, f'C10.h: {cname}.{meth} does not fire _read and _write')
        ok = all(not Q.reaches(w_, r_) for w_ in wr for r_ in rd) and any(Q.reaches(r_, w_) for r_ in rd for w_ in wr)
        chk.ob('h', f.ref, 'input is reported before output: no _write fire can be followed by a _read fire in the same round', ok, loc(f, wr[0].ast), discr=f'read-before-write:{cname}')


def rule_stale(repo, chk):
    """select.poll keeps a number registered until it is unregistered; a closed object that was never discarded leaves its number behind, and the number may be
    handed to a new descriptor: Poll must not report that descriptor's readiness for the dead object."""
    f = repo.func(POLLERS, 'Poll._process')
    g = f.cfg()
    fileno = f.params[1]
    look = [n for n in g.nodes if n.kind == 'stmt' and isinstance(n.ast, ast.Assign) and src(n.ast.value) == f'self._map[{fileno}]']
    need(look, 'C10.c: Poll._process does not resolve the descriptor through the map')
    fd = src(look[0].ast.targets[0])
    flags = {n.ast.targets[0].id for n in g.nodes if n.kind == 'stmt' and isinstance(n.ast, ast.Assign) and isinstance(n.ast.targets[0], ast.Name)
             and f'{fd}.fileno()' in src(n.ast.value) and fileno in Q.names_used(n.ast.value)}
    fresh = pat.test_edge(lambda tt, pol: (pol == 'F' and isinstance(tt, ast.Name) and tt.id in flags) or
                          pat.fact_matches(pat.compare_fact(tt, pol), f'{fd}.fileno()', ('==',), fileno) or
                          (pol == 'T' and isinstance(tt, ast.Call) and call_name(tt) == 'isinstance' and src(tt.args[0]) == fd and src(tt.args[1]) == 'int'))
    for name in ('_read', '_write'):
        for n in g.nodes:
            if n.kind == 'stmt' and any(pat.event_ctor_name(e) == name for _c, _r, e in pat.fire_calls(n.ast)):
                q = pat.guarded_by(g, n, fresh)
                chk.ob('c', f.ref, f'{name} is reported only for an object that still owns the number the kernel reported (a closed object whose number was reused is dropped, '
                                   'not credited with the new descriptor\'s readiness)', q is None, loc(f, n.ast), path=pat.path_lines(q) if q else None, discr=f'not-stale:{name}')


def rule_closed_noticed(repo, chk):
    """A descriptor that was closed without being discarded: Select finds it when select() fails and preens its lists, Poll when the number is reported again.  The
    kernel drops a closed descriptor from an epoll set silently, so EPoll has to look for itself — or the owner never learns (no `_disconnect`), and the dead object
    stays in the tables."""
    chk.rule('C10.j', 'every poller notices a descriptor that was closed without discard (a staleness probe — the object\'s fileno() against the number it is known under, '
                      'or failing — on the way to its events) and reports one _disconnect for it')
    for cname in ('Poll', 'EPoll'):
        c = repo.cls(POLLERS, cname)
        probes = []
        for mname in ('_generate_events', '_process'):
            f = c.methods.get(mname)
            if f is None:
                continue
            chk.touch(f)
            probes += [n for n in walk_no_defs(f.node) if isinstance(n, ast.Compare) and any('.fileno()' in src(x) for x in [n.left] + n.comparators)]
        f = c.methods.get('_generate_events')
        chk.ob('j', f.ref if f is not None else c.ref, f'{cname} probes the objects it knows for having been closed behind its back', bool(probes),
               loc(f, f.node) if f is not None else POLLERS, discr='closed-without-discard-noticed')


def rule_select(repo, chk):
    f = repo.func(POLLERS, 'Select._generate_events')
    chk.touch(f)
    g = f.cfg()
    sel = [c for c in calls_in(f.node) if call_name(c) == 'select.select']
    need(sel, 'C10.d: Select never calls select.select')
    for c in sel:
        ok = [src(a) for a in c.args[:2]] == ['self._read', 'self._write']
        chk.ob('d', f.ref, 'select() is given exactly the current read and write interest lists', ok, loc(f, c), detail=f'`{src(c)}`', discr='select-args')
    # result variables
    rv = wv = None
    for n in walk_no_defs(f.node):
        if isinstance(n, ast.Assign) and isinstance(n.value, ast.Call) and call_name(n.value) == 'select.select' and isinstance(n.targets[0], ast.Tuple):
            rv, wv = src(n.targets[0].elts[0]), src(n.targets[0].elts[1])
    need(rv and wv, 'C10.d: select() result is not unpacked')
    for name, var, meth in (('_read', rv, 'isReading'), ('_write', wv, 'isWriting')):
        sites = [(n, c2, e) for n in g.nodes if n.kind == 'stmt' for c2, _r, e in pat.fire_calls(n.ast) if pat.event_ctor_name(e) == name]
        chk.ob('d', f.ref, f'{name} events are produced', bool(sites), loc(f, f.node), discr=f'fires:{name}', nontrivial=False)
        for n, c2, e in sites:
            loops = [a for k, a in n.ctx if k == 'loop']
            sv = src(loops[-1].target) if loops else None
            ok = loops and src(loops[-1].iter) == var and [src(a) for a in e.args] == [sv] and [src(a) for a in c2.args[1:]] == [f'self.getTarget({sv})']
            chk.ob('d', f.ref, f'{name} is fired for descriptors select() reported, addressed to their registered channel', bool(ok), loc(f, c2),
                   detail=f'`{src(c2)}`', discr=f'target:{name}')
            q = pat.guarded_by(g, n, pat.test_edge(lambda tt, pol: pol == 'T' and src(tt) == f'self.{meth}({sv})'))
            chk.ob('d', f.ref, f'{name} is fired only for descriptors that are still registered for it', q is None, loc(f, c2),
                   path=pat.path_lines(q) if q else None, discr=f'interest:{name}')


def rule_preen(repo, chk):
    chk.rule('C10.f', 'Select prunes dead descriptors from both interest lists (a dead write-only descriptor would make every later select() fail)')
    f = repo.func(POLLERS, 'Select._preenDescriptors')
    chk.touch(f)
    cover = set()
    for n in walk_no_defs(f.node):
        if isinstance(n, ast.For):
            for w in ast.walk(n.iter):
                if isinstance(w, ast.Attribute) and src(w) in ('self._read', 'self._write'):
                    cover.add(src(w))
    chk.ob('f', f.ref, 'the probe covers the read and the write interest list', cover == {'self._read', 'self._write'}, loc(f, f.node), detail=f'covers {sorted(cover)}',
           discr='preen-both-lists')
    g = f.cfg()
    disc = [n for n in g.nodes if n.kind == 'stmt' and any(r == 'self' for r, _c in pat.method_calls(n.ast, 'discard'))]
    ok = bool(disc) and all(any(k == 'except' for k, _a in n.ctx) for n in disc)
    chk.ob('f', f.ref, 'a descriptor whose probe fails is discarded', ok, loc(f, f.node), discr='preen-discards')
    # … and its owner is told first (it holds state for it and would never see a disconnect otherwise) — except the poller's own control descriptor
    lv = None
    for n in walk_no_defs(f.node):
        if isinstance(n, ast.For) and isinstance(n.target, ast.Name) and not isinstance(n.iter, (ast.Tuple, ast.List)):
            lv = n.target.id
    for dn in disc:
        told = [n for n in g.nodes if n.kind == 'stmt' and any(pat.event_ctor_name(e) == '_disconnect' and e.args and src(e.args[0]) == lv for _c, _r, e in pat.fire_calls(n.ast))]
        p = Q.reachable_without(g, dn, avoid_node=lambda n: n in told, avoid_edge=pat.test_edge(
            lambda tt, pol: pat.fact_matches(pat.compare_fact(tt, pol), lv, ('==', 'is'), 'self._ctrl_recv') or
            pat.fact_matches(pat.compare_fact(tt, pol), lv, ('not in',), 'self._targets')), start=[n for n in g.nodes if n.kind == 'except'][0] if any(n.kind == 'except' for n in g.nodes) else None)
        chk.ob('f', f.ref, 'the owner of a descriptor that is dropped is sent _disconnect first (as Poll/EPoll do on POLLNVAL/HUP)', bool(told) and p is None, loc(f, dn.ast),
               path=pat.path_lines(p) if p else None, discr='preen-notifies-owner')
    ge = repo.func(POLLERS, 'Select._generate_events')
    calls = [c for r, c in pat.method_calls(ge.node, '_preenDescriptors') if r == 'self']
    chk.ob('f', ge.ref, 'select() failures caused by bad descriptors lead to pruning', len(calls) >= 2, loc(ge, ge.node), discr='preen-called', nontrivial=False)


def _drops_target(n, fd):
    """statement removes the target entry of *fd*: `del self._targets[fd]` or `self._targets.pop(fd[, default])`"""
    if n.kind != 'stmt':
        return False
    if isinstance(n.ast, ast.Delete) and any(src(t) == f'self._targets[{fd}]' for t in n.ast.targets):
        return True
    return any(r == 'self._targets' and c.args and src(c.args[0]) == fd for r, c in pat.method_calls(n.ast, 'pop'))


def rule_e(chk, base):
    def m(name):
        f = base.methods.get(name)
        need(f, f'C10.e: BasePoller.{name} missing')
        chk.touch(f)
        return f
    for name, lst in (('addReader', 'self._read'), ('addWriter', 'self._write')):
        f = m(name)
        g = f.cfg()
        fd = f.params[2]
        app = [n for n in g.nodes if n.kind == 'stmt' and any(r == lst and [src(a) for a in c.args] == [fd] for r, c in pat.method_calls(n.ast, 'append'))]
        tg = [n for n in g.nodes if n.kind == 'stmt' and isinstance(n.ast, ast.Assign) and src(n.ast.targets[0]) == f'self._targets[{fd}]']
        present = pat.test_edge(lambda tt, pol: pat.fact_matches(pat.compare_fact(tt, pol), fd, ('in',), lst))
        p1 = Q.escapes(g, [g.entry], lambda n: n in app, avoid_edge=present)      # (already listed: nothing to add)
        p2 = Q.escapes(g, [g.entry], lambda n: n in tg)
        chk.ob('e', f.ref, 'the descriptor is added to the interest list (unless it is listed already) and its target channel recorded, on every path', bool(app) and bool(tg)
               and p1 is None and p2 is None, loc(f, f.node), discr='add')
        # the interest lists are sets in effect: remove*/discard take out one occurrence, so an add must never produce a second one
        absent = pat.test_edge(lambda tt, pol: pat.fact_matches(pat.compare_fact(tt, pol), fd, ('not in',), lst))
        oki = bool(app) and all(pat.guarded_by(g, n, absent) is None for n in app)
        chk.ob('e', f.ref, 'adding a descriptor that is registered for the role already does not list it a second time (one discard must unregister it)', oki,
               loc(f, (app or [g.entry])[0].ast) if app else loc(f, f.node), discr='add-idempotent')
        def from_source(n):
            v = n.ast.value
            if "getattr(" + f.params[1] in src(v):
                return True
            return isinstance(v, ast.Name) and any("getattr(" + f.params[1] in src(e) and "'channel'" in src(e) for e in pat.flows_from(f, v.id, depth=2))
        ok = bool(tg) and all(from_source(n) for n in tg)
        chk.ob('e', f.ref, 'the recorded target is the registering component\'s channel', ok, loc(f, f.node), discr='target-is-source-channel', nontrivial=False)
    for name, lst in (('removeReader', 'self._read'), ('removeWriter', 'self._write')):
        f = m(name)
        g = f.cfg()
        fd = f.params[1]
        rem = [n for n in g.nodes if n.kind == 'stmt' and any(r == lst and [src(a) for a in c.args] == [fd] for r, c in pat.method_calls(n.ast, 'remove'))]
        edges = [e for n in g.nodes if n.kind == 'test' for e in n.succ if pat.fact_matches(pat.compare_fact(n.ast, e.kind), fd, ('in',), lst)]
        ok = bool(rem) and bool(edges) and any(e.dst in rem or Q.escapes(g, [e.dst], lambda n: n in rem) is None for e in edges)
        chk.ob('e', f.ref, 'a registered descriptor is removed from the interest list', ok, loc(f, f.node), discr='remove')
        dl = [n for n in g.nodes if _drops_target(n, fd)]
        okd = bool(dl)
        for n in dl:
            q1 = pat.guarded_by(g, n, pat.test_edge(lambda tt, pol: pat.fact_matches(pat.compare_fact(tt, pol), fd, ('not in',), 'self._read')))
            q2 = pat.guarded_by(g, n, pat.test_edge(lambda tt, pol: pat.fact_matches(pat.compare_fact(tt, pol), fd, ('not in',), 'self._write')))
            if q1 is not None or q2 is not None:
                okd = False
        chk.ob('e', f.ref, 'the target entry is dropped only when no interest in the descriptor is left', okd, loc(f, f.node), discr='target-dropped')
    f = m('discard')
    g = f.cfg()
    fd = f.params[1]
    for lst, op in (('self._read', 'remove'), ('self._write', 'remove')):
        rem = [n for n in g.nodes if n.kind == 'stmt' and any(r == lst and [src(a) for a in c.args] == [fd] for r, c in pat.method_calls(n.ast, op))]
        edges = [e for n in g.nodes if n.kind == 'test' for e in n.succ if pat.fact_matches(pat.compare_fact(n.ast, e.kind), fd, ('in',), lst)]
        p = Q.escapes(g, [g.entry], lambda n: n in rem, avoid_edge=pat.test_edge(lambda tt, pol: pat.fact_matches(pat.compare_fact(tt, pol), fd, ('not in',), lst)))
        chk.ob('e', f.ref, f'discard removes the descriptor from {lst} on every path where it is present', bool(rem) and bool(edges) and p is None,
               loc(f, f.node), path=pat.path_lines(p) if p else None, discr=f'discard:{lst}')
    dl = [n for n in g.nodes if _drops_target(n, fd)]
    p = Q.escapes(g, [g.entry], lambda n: n in dl, avoid_edge=pat.test_edge(lambda tt, pol: pat.fact_matches(pat.compare_fact(tt, pol), fd, ('not in',), 'self._targets')))
    chk.ob('e', f.ref, 'discard drops the target entry on every path where it is present', bool(dl) and p is None, loc(f, f.node), discr='discard:targets')
    gt = m('getTarget')
    rets = [n for n in walk_no_defs(gt.node) if isinstance(n, ast.Return)]
    ok = bool(rets) and all(src(r.value).startswith(f'self._targets.get({gt.params[1]}') for r in rets)
    chk.ob('e', gt.ref, 'getTarget looks the descriptor up in the target map', ok, loc(gt, gt.node), discr='getTarget', nontrivial=False)
    for name, lst in (('isReading', 'self._read'), ('isWriting', 'self._write')):
        f = m(name)
        rets = [n for n in walk_no_defs(f.node) if isinstance(n, ast.Return)]
        ok = bool(rets) and all(src(r.value) == f'{f.params[1]} in {lst}' for r in rets)
        chk.ob('e', f.ref, f'{name} reports membership of the matching interest list', ok, loc(f, f.node), discr=name, nontrivial=False)


GONE_FLAGS = {
    # poll(2) keeps reporting a descriptor that was closed while registered as POLLNVAL; epoll forgets closed descriptors by itself
    'Poll': {'POLLHUP', 'POLLERR', 'POLLNVAL'},
    'EPoll': {'EPOLLHUP', 'EPOLLERR'},
}


def rule_g(repo, chk):
    chk.rule('C10.g', 'the "descriptor is gone" flag set of each poller covers every condition its system call reports for a dead descriptor '
                      '(poll: HUP, ERR and NVAL — a closed descriptor is reported as NVAL on every call; epoll: HUP and ERR) and is the set _process tests')
    for cname, want in GONE_FLAGS.items():
        c = repo.cls(POLLERS, cname)
        ini = need(c.methods.get('__init__'), f'C10.g: {cname}.__init__ missing')
        chk.touch(ini)
        got = None
        attr = None
        for n in walk_no_defs(ini.node):
            if isinstance(n, ast.Assign) and len(n.targets) == 1 and isinstance(n.targets[0], ast.Attribute) and src(n.targets[0].value) == 'self':
                names = {w.attr for w in ast.walk(n.value) if isinstance(w, ast.Attribute) and w.attr.isupper()}
                if names & {'POLLHUP', 'EPOLLHUP'}:
                    ors_only = all(isinstance(w, (ast.BinOp, ast.Attribute, ast.Name, ast.BitOr, ast.Load)) for w in ast.walk(n.value))
                    got = names if ors_only else set()
                    attr = n.targets[0].attr
        chk.ob('g', c.ref, f'{cname}: dead-descriptor conditions = {sorted(want)}', got is not None and want <= got, loc(ini, ini.node),
               detail=f'found {sorted(got) if got is not None else None}', discr=f'gone-flags:{cname}')
        pr = c.methods.get('_process')
        if pr is not None and attr:
            used = any(isinstance(w, ast.BinOp) and isinstance(w.op, ast.BitAnd) and f'self.{attr}' in (src(w.left), src(w.right)) for w in ast.walk(pr.node))
            chk.ob('g', pr.ref, f'_process tests the reported event against self.{attr}', used, loc(pr, pr.node), discr=f'gone-flags-tested:{cname}')
