"""C07 — the component tree stays a consistent forest under register/unregister.

a  parent pointer and children set change together (register ↔ registerChild/add, detach ↔ unregisterChild/remove)
b  every parent change is followed by _updateRoot(new root), which assigns the root and recurses over all children
c  registered / unregistered are fired exactly once per completed operation, registered after the links are made,
   unregistered before they are cut; unregister() is idempotent while pending and the flag is cleared on completion
d  registerChild drains the child's queue into the queue of the new root
"""

import ast

from sa import AnalysisError, pat
from sa import query as Q
from sa.model import call_name, calls_in, src, walk_no_defs

from .common import COMPONENTS, MANAGER, loc, need

MIN_OBLIGATIONS = 20


def run(repo, chk):
    chk.not_decided = [
        'tasks (suspended handlers) of a former root are not migrated to the new root',
        'register() of a component that is still attached elsewhere (excluded by the property\'s precondition)',
    ]
    chk.rule('C07.a', 'a component\'s parent pointer and its parent\'s children set are updated together on every path')
    chk.rule('C07.b', 'every change of parent is followed by _updateRoot(new root); _updateRoot assigns root and visits all children')
    chk.rule('C07.c', 'registered/unregistered are announced once per operation at the right point; unregister is idempotent while pending')
    chk.rule('C07.d', 'events queued on a component before registration are moved to the new root\'s queue')
    reg = repo.func(COMPONENTS, 'BaseComponent.register')
    unreg = repo.func(COMPONENTS, 'BaseComponent.unregister')
    done = repo.func(COMPONENTS, 'BaseComponent._do_prepare_unregister_complete')
    upd = repo.func(COMPONENTS, 'BaseComponent._updateRoot')
    rc = repo.func(MANAGER, 'Manager.registerChild')
    uc = repo.func(MANAGER, 'Manager.unregisterChild')
    for f in (reg, unreg, done, upd, rc, uc):
        chk.touch(f)
    self_reg_edge = pat.test_edge(lambda t, pol: pat.fact_matches(pat.compare_fact(t, pol), reg.params[1], ('is', '=='), 'self'))

    # ---- register ------------------------------------------------------------
    g = reg.cfg()
    par = reg.params[1]
    pstore = [n for n in g.nodes if n.kind == 'stmt' and 'self' in pat.stores_attr(n.ast, 'parent')]
    need(pstore, 'C07.a: register() does not set self.parent')
    addc = [n for n in g.nodes if n.kind == 'stmt' and any(r == par and [src(a) for a in c.args] == ['self']
                                                          for r, c in pat.method_calls(n.ast, 'registerChild'))]
    updr = [n for n in g.nodes if n.kind == 'stmt' and any(r == 'self' and [src(a) for a in c.args] == [f'{par}.root']
                                                          for r, c in pat.method_calls(n.ast, '_updateRoot'))]
    fires = [n for n in g.nodes if n.kind == 'stmt' and pat.fires(n.ast, 'registered')]
    for s in pstore:
        chk.ob('a', reg.ref, 'register() makes the given component the parent', src(s.ast.value) == par, loc(reg, s.ast), discr='register:parent-value')
        p = Q.escapes(g, [s], lambda n: n in addc, avoid_edge=self_reg_edge)
        before = Q.reachable_without(g, s, avoid_node=lambda n: n in addc, avoid_edge=self_reg_edge)
        chk.ob('a', reg.ref, 'setting the parent goes together, on every path, with adding the component to the parent\'s children', (p is None or before is None) and bool(addc),
               loc(reg, s.ast), path=pat.path_lines(p, s) if (p and before) else None, discr='register:child-added')
        # registerChild may refuse (UnregistrableError): nothing of the component may have been changed by then
        chk.ob('a', reg.ref, 'the component is linked (parent, root) only after the parent has accepted it: a refused registration leaves it untouched', before is None and bool(addc),
               loc(reg, s.ast), path=pat.path_lines(before) if before else None, discr='register:accepted-before-linking')
        p = Q.escapes(g, [s], lambda n: n in updr)
        chk.ob('b', reg.ref, 'setting the parent is followed on every path by _updateRoot(parent.root)', p is None and bool(updr), loc(reg, s.ast),
               path=pat.path_lines(p, s) if p else None, discr='register:root-updated')
    # a move — unregister() followed by register() before the unregistration has completed: the pending unregistration is completed first, so that its
    # completion (which cuts "the" parent link) cannot hit the new parent later
    comp_ = [n for n in g.nodes if n.kind == 'stmt' and any(r == 'self' for r, _c in pat.method_calls(n.ast, '_do_prepare_unregister_complete'))]
    not_pending = pat.test_edge(lambda t, pol: pol == 'F' and src(t) in ('self.unregister_pending', 'self._unregister_pending'))
    for a in addc + pstore:
        q = Q.reachable_without(g, a, avoid_node=lambda n: n in comp_, avoid_edge=not_pending)
        chk.ob('c', reg.ref, 'a component whose unregistration is still pending is not linked to a new parent before that unregistration has been completed', q is None,
               loc(reg, a.ast), path=pat.path_lines(q) if q else None, discr='register:pending-completed-first')
    for a in addc:
        p = Q.escapes(g, [a], lambda n: n in fires, avoid_edge=self_reg_edge)       # (registerChild only runs when parent is not self: the same test cannot turn out otherwise later)
        chk.ob('c', reg.ref, 'a completed registration is announced by a registered event', p is None and bool(fires), loc(reg, a.ast),
               path=pat.path_lines(p, a) if p else None, discr='register:announced')
    chk.ob('c', reg.ref, 'registered is fired from exactly one site', len(fires) == 1, loc(reg, reg.node), discr='register:once')
    for fn in fires:
        p = Q.reachable_without(g, fn, avoid_node=lambda n: n in addc, avoid_edge=self_reg_edge)
        p2 = Q.reachable_without(g, fn, avoid_node=lambda n: n in updr)
        chk.ob('c', reg.ref, 'registered is fired only after the child link and the roots are in place', p is None and p2 is None, loc(reg, fn.ast),
               path=pat.path_lines(p or p2) if (p or p2) else None, discr='register:after-links')
        c = pat.fires(fn.ast, 'registered')[0]
        args = [src(a) for a in c.args[0].args]
        chk.ob('c', reg.ref, 'registered names the component and its parent', args in (['self', 'self.parent'], ['self', par]), loc(reg, c),
               detail=f'args {args}', discr='register:args')
        inloop = any(k == 'loop' for k, _a in fn.ctx)
        chk.ob('c', reg.ref, 'registered is not fired in a loop', not inloop, loc(reg, fn.ast), discr='register:no-loop', nontrivial=False)
    # registerChild: add + drain
    g2 = rc.cfg()
    comp = rc.params[1]
    adds = [n for n in g2.nodes if n.kind == 'stmt' and any(r == 'self.components' and [src(a) for a in c.args] == [comp]
                                                           for r, c in pat.method_calls(n.ast, 'add'))]
    p = Q.escapes(g2, [g2.entry], lambda n: n in adds)
    chk.ob('a', rc.ref, 'registerChild adds the component to the children on every normal path', p is None and bool(adds), loc(rc, rc.node),
           path=pat.path_lines(p) if p else None, discr='registerChild:add')
    drains = [n for n in g2.nodes if n.kind == 'stmt' and any(pat.expand_alias(rc, n, r) == 'self.root._queue' and [src(a) for a in c.args] == [f'{comp}._queue']
                                                             for r, c in pat.method_calls(n.ast, 'drainFrom'))]
    p = Q.escapes(g2, [g2.entry], lambda n: n in drains)
    chk.ob('d', rc.ref, 'registerChild drains the child\'s queue into the root\'s queue on every normal path', p is None and bool(drains),
           loc(rc, rc.node), path=pat.path_lines(p) if p else None, discr='registerChild:drain')
    # an event the component dispatched on its own may still have suspended generator handlers: they are stepped by a root's tick() only, so they move too
    tmove = [n for n in g2.nodes if n.kind == 'stmt' and any(pat.expand_alias(rc, n, r) == 'self.root._tasks' and [src(a) for a in c.args] == [f'{comp}._tasks']
                                                            for r, c in pat.method_calls(n.ast, 'update'))] + \
            [n for n in g2.nodes if n.kind == 'stmt' and isinstance(n.ast, ast.AugAssign) and isinstance(n.ast.op, ast.BitOr) and pat.expand_alias(rc, n, src(n.ast.target)) == 'self.root._tasks'
             and src(n.ast.value) == f'{comp}._tasks']
    tclr = [n for n in g2.nodes if n.kind == 'stmt' and any(r == f'{comp}._tasks' for r, _c in pat.method_calls(n.ast, 'clear'))]
    p = Q.escapes(g2, [g2.entry], lambda n: n in tmove)
    chk.ob('d', rc.ref, 'registerChild hands the suspended generator handlers (tasks) of the component over to the root on every normal path, and takes them off the component',
           p is None and bool(tmove) and bool(tclr) and all(Q.reaches(a_, b_) for a_ in tmove for b_ in tclr), loc(rc, rc.node), path=pat.path_lines(p) if p else None,
           discr='registerChild:tasks-moved')
    q = repo.cls(MANAGER, '_EventQueue').methods.get('drainFrom')
    need(q, 'C07.d: _EventQueue.drainFrom missing')
    chk.touch(q)
    other = q.params[1]
    ext = [c for r, c in pat.method_calls(q.node, 'extend') if r == 'self._queue' and src(c.args[0]) == f'{other}._queue']
    clr = [c for r, c in pat.method_calls(q.node, 'clear') if r == f'{other}._queue']
    # or entry by entry: `while other._queue: … other._queue.popleft() … self._queue.append(…)`
    gq0 = q.cfg()
    heads0 = [n for n in gq0.nodes if n.kind == 'test' and src(n.ast) in (f'{other}._queue', f'len({other}._queue)')]
    pops0 = [n for n in gq0.nodes if n.kind == 'stmt' and any(r == f'{other}._queue' for r, _c in pat.method_calls(n.ast, 'popleft'))]
    apps0 = [n for n in gq0.nodes if n.kind == 'stmt' and any(r == 'self._queue' for r, _c in pat.method_calls(n.ast, 'append'))]
    one_by_one = bool(heads0) and bool(pops0) and all(Q.escapes(gq0, [p_], lambda n: n in apps0, exits=('exit',), extra_exit=lambda n: n in heads0) is None for p_ in pops0) and \
        all(any(e.kind == 'F' for e in h_.succ) for h_ in heads0)
    chk.ob('d', q.ref, 'drainFrom moves the other queue\'s pending events (all of them: extend + clear, or entry by entry until it is empty)', (bool(ext) and bool(clr)) or one_by_one,
           loc(q, q.node), discr='drainFrom')
    # the component may register from one of its own handlers, i.e. while its queue is being flushed: the rest of the batch (the heap) is handed over as well,
    # and nothing in the hand-over can fail half-way (the caller has linked the component already)
    qcls = repo.cls(MANAGER, '_EventQueue')
    heap = None
    for n in walk_no_defs(qcls.methods['__init__'].node):
        if isinstance(n, ast.Assign) and isinstance(n.value, ast.List) and not n.value.elts and isinstance(n.targets[0], ast.Attribute):
            heap = n.targets[0].attr
    need(heap, 'C07.d: the batch heap of _EventQueue was not found')
    gq = q.cfg()
    stops = [n for n in gq.nodes if n.kind in ('stmt', 'test') and n.ast is not None and any(isinstance(w, (ast.Assert, ast.Raise)) for w in [n.ast] + list(getattr(n.ast, '_parent', None) and [getattr(n.ast, '_parent')] or []))]
    chk.ob('d', q.ref, 'the hand-over cannot refuse or fail half-way (no assert / raise): when it runs the component is linked to its new parent already', not stops,
           loc(q, stops[0].ast) if stops and stops[0].ast is not None else loc(q, q.node), discr='drainFrom:total')
    moved = [n for n in gq.nodes if n.kind == 'stmt' and any(src(c.args[0]).replace(' ', '') in (f'heappop({other}.{heap})',) for r, c in pat.method_calls(n.ast, 'append')
                                                             if r == 'self._queue' and c.args)] + \
            [n for n in gq.nodes if n.kind == 'stmt' and any(r == 'self._queue' and c.args and f'{other}.{heap}' in src(c.args[0]) for r, c in pat.method_calls(n.ast, 'extend'))]
    # … or popped entry by entry and pushed / appended here
    hp_ = [n for n in gq.nodes if n.kind == 'stmt' and any(call_name(c) == 'heappop' and c.args and src(c.args[0]) == f'{other}.{heap}' for c in calls_in(n.ast))]
    put_ = [n for n in gq.nodes if n.kind == 'stmt' and (any(call_name(c) == 'heappush' and c.args and src(c.args[0]).startswith('self.') for c in calls_in(n.ast)) or
                                                         any(r == 'self._queue' for r, _c in pat.method_calls(n.ast, 'append')))]
    moved += [n for n in hp_ if any(Q.reaches(n, p_) for p_ in put_)]
    loops = [n for n in gq.nodes if n.kind == 'test' and src(n.ast) in (f'{other}.{heap}', f'len({other}.{heap})')]
    chk.ob('d', q.ref, 'the rest of a batch that the other queue is flushing right now moves too', bool(moved) and (bool(loops) or any('extend' in src(n.ast) for n in moved)),
           loc(q, q.node), discr='drainFrom:batch-moved')
    resets = [n for n in gq.nodes if n.kind == 'stmt' and any(r == other and a == '_flush_batch' and pat.is_const(v, 0) for r, a, v in pat.attr_store(n.ast))]
    p = Q.escapes(gq, [gq.entry], lambda n: n in resets)
    chk.ob('d', q.ref, 'the interrupted flush is told that nothing is left of its batch', p is None and bool(resets), loc(q, q.node), discr='drainFrom:batch-reset')

    # ---- unregister ----------------------------------------------------------
    g = unreg.cfg()
    pend = [n for n in g.nodes if n.kind == 'stmt' and 'self' in pat.stores_attr(n.ast, '_unregister_pending', True)]
    fires_pu = [n for n in g.nodes if n.kind == 'stmt' and pat.fire_calls(n.ast)]
    need(pend and fires_pu, 'C07.c: unregister() does not mark pending / fire')
    for fn in fires_pu:
        q1 = pat.guarded_by(g, fn, pat.test_edge(lambda t, pol: pol == 'F' and src(t) in ('self.unregister_pending', 'self._unregister_pending')))
        chk.ob('c', unreg.ref, 'unregister() does nothing while an unregistration is pending', q1 is None, loc(unreg, fn.ast),
               path=pat.path_lines(q1) if q1 else None, discr='unregister:pending-guard')
        q2 = pat.guarded_by(g, fn, pat.test_edge(lambda t, pol: pat.fact_matches(pat.compare_fact(t, pol), 'self.parent', ('is not', '!='), 'self')))
        chk.ob('c', unreg.ref, 'unregister() does nothing for a detached component', q2 is None, loc(unreg, fn.ast),
               path=pat.path_lines(q2) if q2 else None, discr='unregister:detached-guard')
        q3 = Q.reachable_without(g, fn, avoid_node=lambda n: n in pend)
        chk.ob('c', unreg.ref, 'the pending flag is set before prepare_unregister is fired', q3 is None, loc(unreg, fn.ast), discr='unregister:flag-first')
    up = repo.func(COMPONENTS, 'BaseComponent.unregister_pending')
    rets = [n for n in walk_no_defs(up.node) if isinstance(n, ast.Return)]
    ok = bool(rets) and all("'_unregister_pending'" in src(r.value) or '_unregister_pending' in src(r.value) for r in rets)
    chk.ob('c', up.ref, 'unregister_pending reads the flag unregister() sets', ok, loc(up, up.node), discr='unregister:property', nontrivial=False)

    # ---- completion of unregister -------------------------------------------
    g = done.cfg()
    cut = [n for n in g.nodes if n.kind == 'stmt' and 'self' in pat.stores_attr(n.ast, 'parent') and src(n.ast.value) == 'self']
    need(cut, 'C07.a: unregistration never makes the component its own parent')
    rem = [n for n in g.nodes if n.kind == 'stmt' and any(pat.expand_alias(done, n, r) == 'self.parent' and [src(a) for a in c.args] == ['self']
                                                         for r, c in pat.method_calls(n.ast, 'unregisterChild'))]      # also `parent = self.parent; parent.unregisterChild(self)`
    ann = [n for n in g.nodes if n.kind == 'stmt' and pat.fires(n.ast, 'unregistered')]
    upd_self = [n for n in g.nodes if n.kind == 'stmt' and any(r == 'self' and [src(a) for a in c.args] == ['self']
                                                              for r, c in pat.method_calls(n.ast, '_updateRoot'))]
    clr = [n for n in g.nodes if n.kind == 'stmt' and (
        any(call_name(c) == 'delattr' and len(c.args) == 2 and src(c.args[0]) == 'self' and pat.is_const(c.args[1], '_unregister_pending') for c in calls_in(n.ast))
        or 'self' in pat.stores_attr(n.ast, '_unregister_pending', False)
        or (isinstance(n.ast, ast.Delete) and any(src(t) == 'self._unregister_pending' for t in n.ast.targets)))]
    for c in cut:
        p = Q.reachable_without(g, c, avoid_node=lambda n: n in rem)
        chk.ob('a', done.ref, 'before the component becomes its own parent it is removed from the old parent\'s children', p is None and bool(rem),
               loc(done, c.ast), path=pat.path_lines(p) if p else None, discr='detach:child-removed')
        p = Q.escapes(g, [c], lambda n: n in upd_self)
        chk.ob('b', done.ref, 'after detaching, the subtree is re-rooted at the component', p is None and bool(upd_self), loc(done, c.ast),
               path=pat.path_lines(p, c) if p else None, discr='detach:root-updated')
        p = Q.reachable_without(g, c, avoid_node=lambda n: n in ann)
        chk.ob('c', done.ref, 'unregistered is fired before the links are cut (so it still reaches the old tree)', p is None and bool(ann),
               loc(done, c.ast), path=pat.path_lines(p) if p else None, discr='detach:announce-first')
    for r in rem:
        # removal and pointer update go together
        p = Q.escapes(g, [r], lambda n: n in cut)
        chk.ob('a', done.ref, 'removing the component from the old parent is followed by resetting its parent pointer', p is None, loc(done, r.ast),
               path=pat.path_lines(p, r) if p else None, discr='detach:pointer-reset')
    stale = pat.test_edge(lambda t, pol: pol == 'F' and src(t) in ('self.unregister_pending', 'self._unregister_pending'))  # nothing pending: nothing to complete
    p = Q.escapes(g, [g.entry], lambda n: n in ann, avoid_edge=stale)
    chk.ob('c', done.ref, 'every completed unregistration is announced', p is None and bool(ann), loc(done, done.node),
           path=pat.path_lines(p) if p else None, discr='detach:announced')
    chk.ob('c', done.ref, 'unregistered is fired from exactly one site', len(ann) == 1, loc(done, done.node), discr='detach:once')
    p = Q.escapes(g, [g.entry], lambda n: n in clr, avoid_edge=stale)
    chk.ob('c', done.ref, 'the pending flag is cleared when the unregistration completes', p is None and bool(clr), loc(done, done.node),
           path=pat.path_lines(p) if p else None, discr='detach:flag-cleared')
    par_names = ['self.parent'] + [src(n.ast.targets[0]) for n in g.nodes if n.kind == 'stmt' and isinstance(n.ast, ast.Assign) and src(n.ast.value) == 'self.parent'
                                   and isinstance(n.ast.targets[0], ast.Name)]
    p = Q.escapes(g, [g.entry], lambda n: n in cut, avoid_edge=lambda e: stale(e) or pat.test_edge(
        lambda t, pol: any(pat.fact_matches(pat.compare_fact(t, pol), pn, ('is', '=='), 'self') for pn in par_names))(e))
    chk.ob('a', done.ref, 'every completed unregistration of an attached component cuts the parent link', p is None, loc(done, done.node),
           path=pat.path_lines(p) if p else None, discr='detach:always-cut')
    # unregisterChild removes
    g3 = uc.cfg()
    comp = uc.params[1]
    rems = [n for n in g3.nodes if n.kind == 'stmt' and any(r == 'self.components' and [src(a) for a in c.args] == [comp]
                                                           for r, c in pat.method_calls(n.ast, 'remove') + pat.method_calls(n.ast, 'discard'))]
    p = Q.escapes(g3, [g3.entry], lambda n: n in rems)
    chk.ob('a', uc.ref, 'unregisterChild removes the component from the children on every path', p is None and bool(rems), loc(uc, uc.node),
           discr='unregisterChild:remove')

    # ---- f: pending unregistrations inside a subtree that is being detached are not stranded ----------------
    chk.rule('C07.f', 'before a component cuts its parent link, pending unregistrations of its descendants are completed (or queued events addressed to '
                      'the subtree are handed over); a stale completion for a finished unregistration is ignored')
    desc_loops = [n for n in g.nodes if n.kind in ('join', 'for') and isinstance(n.ast, (ast.While, ast.For))]
    finish = [n for n in g.nodes if n.kind == 'stmt' and any(r != 'self' and True for r, _c in pat.method_calls(n.ast, done.name)) and
              any(k == 'loop' for k, _a in n.ctx)]
    handover = [n for n in g.nodes if n.kind == 'stmt' and '_queue' in src(n.ast) and ('drainFrom' in src(n.ast) or 'extend' in src(n.ast))]
    okf = False
    path = None
    if finish:
        fn0 = finish[0]
        pend_guard = pat.guarded_by(g, fn0, pat.test_edge(lambda tt, pol: pol == 'T' and src(tt).endswith('.unregister_pending')))
        loops_ = [a for k, a in fn0.ctx if k == 'loop']
        walks_all = any('.components' in src(m.ast) for m in g.nodes if m.kind == 'stmt' and any(k == 'loop' and a is loops_[-1] for k, a in m.ctx)) if loops_ else False
        seeds = any(isinstance(m.ast, ast.Assign) and 'self.components' in src(m.ast.value) for m in g.nodes if m.kind == 'stmt')
        before_cut = all(Q.reachable_without(g, c_, avoid_node=lambda n: n.kind == 'join' and loops_ and n.ast is loops_[-1]) is None for c_ in cut) if loops_ else False
        okf = pend_guard is None and walks_all and seeds and before_cut
    chk.ob('f', done.ref, 'descendants whose unregistration is pending are completed (whole subtree walked) before the parent link is cut', okf or bool(handover),
           loc(done, done.node), discr='pending-descendants-finished')
    idem = [e for n in g.nodes if n.kind == 'test' and src(n.ast) in ('self.unregister_pending', 'self._unregister_pending') for e in n.succ if e.kind == 'F']
    ok_idem = bool(idem) and all(e.dst.kind == 'stmt' and isinstance(e.dst.ast, ast.Return) for e in idem)
    chk.ob('f', done.ref, 'a completion for an unregistration that is not pending (any more) does nothing', ok_idem, loc(done, done.node), discr='stale-completion-ignored')
    # ---- g: … also within one dispatch: a handler may tick()/flush() (stop() on a hand-driven loop does), which can complete an unregistration while the
    #         dispatcher still works through a handler list it computed before
    chk.rule('C07.g', 'the dispatcher does not hand an event to a handler whose component has left the tree since the handler list was computed (a nested tick()/flush() '
                      'inside an earlier handler of the same event may have completed its unregistration)')
    from .common import dispatcher_loop
    dsp = repo.func(MANAGER, 'Manager._dispatcher')
    lp_, hv_, sites_, _h = dispatcher_loop(repo, dsp)
    gd = dsp.cfg()
    checks = [n for n in gd.nodes if n.kind == 'test' and ('loop', lp_.ast) in n.ctx and hv_ in Q.names_used(n.ast) and ('.root' in src(n.ast) or 'unregister_pending' in src(n.ast)
                                                                                                                    or '_cache_needs_refresh' in src(n.ast))]
    okg = bool(checks) and all(Q.reachable_without(gd, s_, start=lp_, avoid_node=lambda n: n in checks, weak=True) is None for s_ in sites_)
    chk.ob('g', dsp.ref, 'before each handler is invoked the dispatcher makes sure that its component still belongs to this tree', okg, loc(dsp, lp_.ast),
           discr='handlers-still-in-tree')
    # ---- e: the tree a child joins / leaves forgets its memoised handler lists ------------------------------
    chk.rule('C07.e', 'adding or removing a child invalidates the dispatch memo of the tree it joins / leaves (a detached component receives '
                      'nothing further from its former tree)')
    from .c01 import Inval, find_cache_attr, find_flag
    inval = Inval(repo, find_flag(repo), find_cache_attr(repo))
    for fn, what in ((rc, 'joins'), (uc, 'leaves')):
        always = inval.always(fn)
        chk.ob('e', fn.ref, f'the memo of the root of the tree the child {what} is invalidated on every path', 'self.root' in always, loc(fn, fn.node),
               detail=f'always invalidated: {sorted(always)}', discr=f'memo-invalidated:{fn.name}')
    inv_nodes = {n for n in g.nodes if 'self' in inval.node_invalidates(n, func=done)}
    p = Q.escapes(g, [g.entry], lambda n: n in inv_nodes, avoid_edge=stale)
    chk.ob('e', done.ref, 'a component that completes its unregistration (and becomes a root again) invalidates its own memo: what it memoised in an earlier '
                          'life as root knows nothing of the children it gained or lost since', p is None and bool(inv_nodes), loc(done, done.node),
           path=pat.path_lines(p) if p else None, discr='own-memo-invalidated')
    # ---- _updateRoot ----------------------------------------------------------
    g = upd.cfg()
    rp = upd.params[1]
    st = [n for n in g.nodes if n.kind == 'stmt' and 'self' in pat.stores_attr(n.ast, 'root') and src(n.ast.value) == rp]
    p = Q.escapes(g, [g.entry], lambda n: n in st)
    # the same walk written with an explicit work list: `todo = [self]; while todo: c = todo.pop(); c.root = root; todo.extend(c.components)`
    wl_ok = False
    for w in walk_no_defs(upd.node):
        if isinstance(w, ast.While) and isinstance(w.test, ast.Name):
            L = w.test.id
            init = [n for n in walk_no_defs(upd.node) if isinstance(n, ast.Assign) and src(n.targets[0]) == L and src(n.value).replace(' ', '') in ('[self]', 'deque([self])', 'list((self,))')]
            pops = [n for n in w.body if isinstance(n, ast.Assign) and isinstance(n.value, ast.Call) and src(n.value.func) in (f'{L}.pop', f'{L}.popleft') and isinstance(n.targets[0], ast.Name)]
            if init and pops and all(isinstance(b, (ast.Assign, ast.Expr)) for b in w.body):
                cv = pops[0].targets[0].id
                sets_root = any(isinstance(b, ast.Assign) and src(b.targets[0]) == f'{cv}.root' and src(b.value) == rp for b in w.body)
                feeds = any(isinstance(b, ast.Expr) and isinstance(b.value, ast.Call) and src(b.value.func) == f'{L}.extend' and b.value.args
                            and src(b.value.args[0]) in (f'{cv}.components', f'{cv}.components.copy()', f'list({cv}.components)') for b in w.body)
                wl_ok = sets_root and feeds
    chk.ob('b', upd.ref, '_updateRoot assigns the new root on every path', (p is None and bool(st)) or wl_ok, loc(upd, upd.node), discr='updateRoot:assign')
    loops = [n for n in g.nodes if n.kind == 'for' and src(n.ast.iter) in ('self.components', 'self.components.copy()', 'list(self.components)')]
    rec_ok = False
    for lp in loops:
        cv = src(lp.ast.target)
        body = [n for n in g.nodes if ('loop', lp.ast) in n.ctx and n.kind == 'stmt' and
                any(r == cv and [src(a) for a in c.args] == [rp] for r, c in pat.method_calls(n.ast, upd.name))]
        if body:
            # no test inside the loop may skip a child
            tests = [n for n in g.nodes if ('loop', lp.ast) in n.ctx and n.kind == 'test']
            rec_ok = not tests
    p = Q.escapes(g, [g.entry], lambda n: n in loops)
    chk.ob('b', upd.ref, '_updateRoot recurses into every child with the same root', (rec_ok and p is None) or wl_ok, loc(upd, upd.node), discr='updateRoot:recurse')
