"""C09 — timers never fire early, fire as often as specified, and bound the idle sleep.

a  the timer event is fired only under `now >= expiry`, with `now` read from time() in the same invocation
b  after each fire every path calls reset() (persistent) or unregister() (one-shot); nothing is fired while the timer's
   unregistration is pending
c  reset() computes the expiry from a fresh time() plus the interval on every path
d  a pending timer lowers the idle budget to expiry − now; a firing timer lowers it to 0
e  every idle wait takes its timeout from time_left in the unit of its API and blocks only for a negative budget
"""

import ast

from sa import AnalysisError, pat
from sa import query as Q
from sa.model import call_name, calls_in, src, walk_no_defs

from .common import HELPERS, POLLERS, TIMERS, loc, need

MIN_OBLIGATIONS = 18


def run(repo, chk):
    _run(repo, chk)
    chk.rule('C09.f', 'a timer that is registered (or an event that is fired) from another thread while the loop sleeps on a later expiry takes effect at '
                      'once: reducing the budget to 0 wakes the idle handler whatever its previous budget was (obligations decided for C03.c)')
    n = chk.adopt('f', 'C03', repo, lambda o: o.rule == 'C03.c')
    need(n >= 3, f'C09.f: only {n} shared obligations found')


def _expiry_view(t):
    """`deadline = self.expiry` read once at the top is analysed as the attribute (common.snapshot_view: nothing that moves the expiry lies between)."""
    from .common import snapshot_view
    return snapshot_view(t)


def _run(repo, chk):
    chk.not_decided = ['numeric timing (datetime deadlines are rounded down to whole seconds)',
                       'that the OS wait does not return late']
    chk.rule('C09.a', 'the timer fires only under now >= expiry, where now = time() of the same handler invocation')
    chk.rule('C09.b', 'each fire is followed by reset() iff persistent else unregister(); no fire while unregistration is pending')
    chk.rule('C09.c', 'reset() sets expiry = time() + interval on every path')
    chk.rule('C09.d', 'the generate_events budget is reduced to expiry − now when not due, and to 0 after firing')
    chk.rule('C09.e', 'idle waits use event.time_left: select/epoll/kqueue/Event.wait in seconds, poll() in milliseconds; the '
                      'blocking form is chosen only for a negative budget')
    t = repo.func(TIMERS, 'Timer._on_generate_events')
    chk.touch(t)
    t = _expiry_view(t)
    chk.ob('a', t.ref, 'the timer runs in the generate_events pass of every loop iteration', t.handler is not None and
           'generate_events' in t.handler.names, loc(t, t.node), discr='is-generate-events-handler', nontrivial=False)
    g = t.cfg()
    ev = t.params[1]
    fires = [n for n in g.nodes if n.kind == 'stmt' and any(src(e) == 'self.event' for _c, _r, e in pat.fire_calls(n.ast))]
    need(fires, 'C09.a: the timer never fires its event')
    chk.ob('a', t.ref, 'the timer event is fired from exactly one site, outside loops', len(fires) == 1 and not any(k == 'loop' for k, _a in fires[0].ctx),
           loc(t, t.node), discr='fire-once')
    for f in fires:
        # the variable holding the current time: assigned from time() (or time() used directly)
        nowv = 'time()'
        for n in g.nodes:
            if n.kind == 'stmt' and isinstance(n.ast, ast.Assign) and src(n.ast.value) == 'time()' and isinstance(n.ast.targets[0], ast.Name):
                nowv = n.ast.targets[0].id
        due_tests = [n for n in g.nodes if n.kind == 'test' and isinstance(n.ast, ast.Compare) and
                     {nowv, 'self.expiry'} <= {src(n.ast.left), src(n.ast.comparators[0])}]
        due = (due_tests[0], 'T', nowv) if due_tests else (f, 'T', nowv)
        q = pat.guarded_by(g, f, pat.test_edge(lambda tt, pol: pat.fact_matches(pat.compare_fact(tt, pol), nowv, ('>=', '>'), 'self.expiry')))
        chk.ob('a', t.ref, 'the event is fired only when the current time has reached the expiry', q is None, loc(t, f.ast),
               path=pat.path_lines(q) if q else None, discr='due-guard')
        defs = Q.reaching_defs(g, due[0], nowv)
        ok = bool(defs) and all(d.kind == 'stmt' and isinstance(d.ast, ast.Assign) and src(d.ast.value) == 'time()' for d in defs)
        chk.ob('a', t.ref, 'the current time is read with time() in the same invocation', ok, loc(t, due[0].ast),
               detail=f'`{nowv}` defined by {[d.text for d in defs]}', discr='now-fresh')
        c = [c for c, _r, e in pat.fire_calls(f.ast) if src(e) == 'self.event'][0]
        chk.ob('a', t.ref, 'the timer fires its configured event on its configured channels', [src(a) for a in c.args[1:]] == ['*self.channels'],
               loc(t, c), discr='fire-channels', nontrivial=False)
        # b
        q = pat.guarded_by(g, f, pat.test_edge(lambda tt, pol: pol == 'F' and src(tt) in ('self.unregister_pending', 'self._unregister_pending')))
        chk.ob('b', t.ref, 'nothing is fired while the timer is being unregistered', q is None, loc(t, f.ast), path=pat.path_lines(q) if q else None,
               discr='pending-guard')
        resets = [n for n in g.nodes if n.kind == 'stmt' and any(r == 'self' and not c2.args for r, c2 in pat.method_calls(n.ast, 'reset'))]
        unregs = [n for n in g.nodes if n.kind == 'stmt' and any(r == 'self' for r, _c in pat.method_calls(n.ast, 'unregister'))]
        p = Q.escapes(g, [f], lambda n: n in resets or n in unregs)
        chk.ob('b', t.ref, 'after firing, the timer is re-armed or removes itself on every path', p is None, loc(t, f.ast),
               path=pat.path_lines(p, f) if p else None, discr='rearm-or-remove')
        persist_T = pat.test_edge(lambda tt, pol: pol == 'T' and src(tt) == 'self.persist')
        persist_F = pat.test_edge(lambda tt, pol: pol == 'F' and src(tt) == 'self.persist')
        for rn in resets:
            q = pat.guarded_by(g, rn, persist_T, start=f)
            chk.ob('b', t.ref, 'only a persistent timer is re-armed', q is None, loc(t, rn.ast), discr='reset-iff-persist')
        for un in unregs:
            q = pat.guarded_by(g, un, persist_F, start=f)
            chk.ob('b', t.ref, 'only a one-shot timer removes itself', q is None, loc(t, un.ast), discr='unregister-iff-oneshot')
        p = Q.escapes(g, [f], lambda n: n in unregs, avoid_edge=persist_T)
        chk.ob('b', t.ref, 'a one-shot timer removes itself after firing on every path', p is None and bool(unregs), loc(t, f.ast),
               path=pat.path_lines(p, f) if p else None, discr='oneshot-removed')
        # … and is disarmed: unregister() does nothing for a timer that is the root of its tree (and takes effect a flush later otherwise); what keeps a
        # fired one-shot from firing again is that it has no expiry any more
        disarm = [n for n in g.nodes if n.kind == 'stmt' and any(r == 'self' and a in ('expiry', '_expiry') and pat.is_const(v, None) for r, a, v in pat.attr_store(n.ast))]
        p = Q.escapes(g, [f], lambda n: n in disarm, avoid_edge=persist_T)
        chk.ob('b', t.ref, 'a one-shot timer that has fired has no expiry any more on every path (it cannot fire a second time, registered or not)', p is None and bool(disarm),
               loc(t, f.ast), path=pat.path_lines(p, f) if p else None, discr='oneshot-disarmed')
        # every beat of a persistent timer is an event of its own: an event object carries the state of its dispatch (stopped, cancelled, waiting handlers)
        fired = [e for _c, _r, e in pat.fire_calls(f.ast)]
        same = [e for e in fired if src(e) in ('self.event',)]
        chk.ob('b', t.ref, 'each firing dispatches a fresh event object (a stop() or cancel() of one beat must not silence the following beats)', not same, loc(t, f.ast),
               detail='fires the stored object `self.event` itself', discr='fresh-event-per-beat')
        p = Q.escapes(g, [f], lambda n: n in resets, avoid_edge=persist_F)
        chk.ob('b', t.ref, 'a persistent timer is re-armed after firing on every path', p is None and bool(resets), loc(t, f.ast),
               path=pat.path_lines(p, f) if p else None, discr='persistent-rearmed')
        # d: budget
        red0 = [n for n in g.nodes if n.kind == 'stmt' and any(r == ev and len(c2.args) == 1 and pat.is_const(c2.args[0], 0)
                                                              for r, c2 in pat.method_calls(n.ast, 'reduce_time_left'))]
        p = Q.escapes(g, [f], lambda n: n in red0)
        chk.ob('d', t.ref, 'after firing, the idle budget is reduced to 0 (the fired event must be dispatched at once)', p is None and bool(red0),
               loc(t, f.ast), path=pat.path_lines(p, f) if p else None, discr='budget-zero-after-fire')
        redx = [n for n in g.nodes if n.kind == 'stmt' and any(r == ev and len(c2.args) == 1 and src(c2.args[0]).replace(' ', '') == f'self.expiry-{nowv}'
                                                              for r, c2 in pat.method_calls(n.ast, 'reduce_time_left'))]
        not_due = [e for n in g.nodes if n.kind == 'test' for e in n.succ
                   if pat.fact_matches(pat.compare_fact(n.ast, e.kind), nowv, ('<',), 'self.expiry')]
        ok = bool(not_due) and bool(redx)
        path = None
        for e in not_due:
            if e.dst not in redx:
                path = Q.escapes(g, [e.dst], lambda n: n in redx)
                if path is not None:
                    ok = False
        chk.ob('d', t.ref, 'a timer that is not yet due reduces the idle budget to the time until its expiry', ok, loc(t, due[0].ast),
               path=pat.path_lines(path) if path else None, discr='budget-until-expiry')
    # c: reset
    r = repo.func(TIMERS, 'Timer.reset')
    chk.touch(r)
    gr = r.cfg()
    st = [n for n in gr.nodes if n.kind == 'stmt' and 'self' in pat.stores_attr(n.ast, 'expiry')]
    ok = bool(st) and all(src(n.ast.value).replace(' ', '') in ('time()+self.interval', 'self.interval+time()') for n in st)
    p = Q.escapes(gr, [gr.entry], lambda n: n in st)
    chk.ob('c', r.ref, 'reset() sets expiry = time() + interval on every path', ok and p is None, loc(r, r.node),
           detail='; '.join(n.text for n in st), path=pat.path_lines(p) if p else None, discr='reset-expiry')
    ip = r.params[1]
    ivs = [n for n in gr.nodes if n.kind == 'stmt' and 'self' in pat.stores_attr(n.ast, 'interval')]
    plain = [n for n in ivs if src(n.ast.value) == ip]
    dt = [n for n in ivs if n not in plain and 'time()' in src(n.ast.value) and isinstance(n.ast.value, ast.BinOp) and isinstance(n.ast.value.op, ast.Sub)]
    chk.ob('c', r.ref, 'a numeric interval is stored unchanged; a datetime deadline becomes deadline − now', bool(plain) and bool(dt), loc(r, r.node),
           discr='interval-forms')
    # the deadline is an instant: it is converted with the datetime's own timestamp() (which honours tzinfo and fold), not through its broken-down local
    # fields (timetuple() drops both)
    for n in dt:
        txt = src(n.ast.value.left).replace(' ', '')
        okd = f'{ip}.timestamp()' in txt and 'timetuple' not in txt
        chk.ob('c', r.ref, 'an absolute deadline is converted with timestamp() (time zone and fold honoured), rounded down to whole seconds', okd and
               any(call_name(c) in ('floor', 'math.floor', 'int') for c in calls_in(n.ast.value.left)), loc(r, n.ast), detail=f'`{src(n.ast.value)}`', discr='deadline-is-an-instant')
    for n in plain:
        q = pat.guarded_by(gr, n, pat.test_edge(lambda tt, pol: pat.fact_matches(pat.compare_fact(tt, pol), ip, ('is not', '!='), 'None')))
        chk.ob('c', r.ref, 'reset() without argument keeps the interval', q is None, loc(r, n.ast), discr='interval-kept')
    # the constructor arms the timer
    i = repo.func(TIMERS, 'Timer.__init__')
    chk.touch(i)
    ok = any(r_ == 'self' and c.args and src(c.args[0]) == i.params[1] for r_, c in pat.method_calls(i.node, 'reset'))
    chk.ob('c', i.ref, 'the constructor arms the timer through reset(interval)', ok, loc(i, i.node), discr='ctor-arms', nontrivial=False)
    rule_e(repo, chk)


UNITS = {  # poller class -> (callee suffix, expected timeout expression(s) in terms of the budget variable)
    'Select': ('select.select', lambda v: (v,)),
    'Poll': ('self._poller.poll', lambda v: (f'1000 * {v}', f'{v} * 1000')),
    'EPoll': ('self._poller.poll', lambda v: (v,)),
    'KQueue': ('self._poller.control', lambda v: (v,)),
}


def rule_e(repo, chk):
    for cname, (callee, forms) in UNITS.items():
        f = repo.try_func(POLLERS, f'{cname}._generate_events')
        if f is None:
            raise AnalysisError(f'C09.e: {cname}._generate_events missing')
        chk.touch(f)
        g = f.cfg()
        ev = f.params[1]
        tv = None
        for n in walk_no_defs(f.node):
            if isinstance(n, ast.Assign) and src(n.value) == f'{ev}.time_left':
                tv = src(n.targets[0])
        chk.ob('e', f.ref, 'the poller takes its timeout from event.time_left', tv is not None, loc(f, f.node), discr='budget-read')
        if tv is None:
            continue
        waits = [c for c in calls_in(f.node) if call_name(c) == callee]
        need(waits, f'C09.e: {cname} never calls {callee}')
        timed = [c for c in waits if any(src(a) in forms(tv) for a in c.args)]
        blocking = [c for c in waits if not any(tv in Q.names_used(a) for a in c.args)]
        wrong = [c for c in waits if c not in timed and c not in blocking]
        chk.ob('e', f.ref, f'the timed wait passes the budget in the unit of {callee}', bool(timed) and not wrong, loc(f, (wrong or waits)[0]),
               detail='; '.join(src(c) for c in waits), discr='unit')
        # blocking form only under budget < 0; timed form only otherwise
        for c in blocking:
            ok = _under_cond(c, f, lambda tt, pol: pat.fact_matches(pat.compare_fact(tt, pol), tv, ('<',), '0'))
            chk.ob('e', f.ref, 'the wait without timeout is chosen only for a negative (unlimited) budget', ok, loc(f, c), discr='blocking-iff-negative')
        for c in timed:
            ok = _under_cond(c, f, lambda tt, pol: pat.fact_matches(pat.compare_fact(tt, pol), tv, ('>=',), '0'))
            chk.ob('e', f.ref, 'the timed wait is chosen for a non-negative budget', ok, loc(f, c), discr='timed-iff-nonnegative')
    fb = repo.func(HELPERS, 'FallBackGenerator._on_generate_events')
    ev = fb.params[1]
    waits = [c for _r, c in pat.method_calls(fb.node, 'wait')]
    timed = [c for c in waits if c.args and src(c.args[0]) == f'{ev}.time_left']
    chk.ob('e', fb.ref, 'the fallback waits at most event.time_left seconds', bool(timed), loc(fb, fb.node), detail='; '.join(src(c) for c in waits),
           discr='fallback-unit')
    g = fb.cfg()
    for c in timed:
        for n in g.node_for(c):
            q = pat.guarded_by(g, n, pat.test_edge(lambda tt, pol: pat.fact_matches(pat.compare_fact(tt, pol), f'{ev}.time_left', ('>',), '0')))
            chk.ob('e', fb.ref, 'the bounded fallback wait runs only for a positive budget', q is None, loc(fb, c), discr='fallback-positive')
    # other waits are bounded by a constant and re-test the budget (C03.e checks the loop)
    for c in waits:
        if c not in timed:
            chk.ob('e', fb.ref, 'the unbounded-budget wait is re-tested periodically (constant bound)', bool(c.args) and isinstance(c.args[0], ast.Constant),
                   loc(fb, c), discr='fallback-unbounded')
    # reduce_time_left is what the timer relies on: accepted by the event (C03.c checks monotonicity)


def _under_cond(call, func, pred):
    """Is *call* in the branch of an IfExp / if-statement whose condition states pred?"""
    def holds(test, pol):
        # `not t` true ⇔ t false
        while isinstance(test, ast.UnaryOp) and isinstance(test.op, ast.Not):
            test, pol = test.operand, ('F' if pol == 'T' else 'T')
        return pred(test, pol)
    cur = call
    p = getattr(cur, '_parent', None)
    while p is not None and p is not func.node:
        if isinstance(p, ast.IfExp):
            if cur is p.body and holds(p.test, 'T'):
                return True
            if cur is p.orelse and holds(p.test, 'F'):
                return True
        if isinstance(p, ast.If):
            if cur in p.body and holds(p.test, 'T'):
                return True
            if cur in p.orelse and holds(p.test, 'F'):
                return True
        cur = p
        p = getattr(p, '_parent', None)
    return False
