"""C14 — any bytes on an HTTP connection: wait, one valid error response, or close; never a crash.

a  in HTTP._on_read no path passes both a reject (httperror / redirect / close fire) and the request fire; a reject is
   followed by return; every reject fires exactly one of them
b  per-connection state (_clients, _buffers) is released by the disconnect handler; parse-error rejects drop the parser
   before answering; the TLS-on-plain-port path releases both
c  the safety net exists: an `exception` handler that answers a failed read handler with a 500 httperror
d  rejects are decided from the parser's error channel only before the headers are complete, and every reject builds its
   response from a Request/Response pair for the same socket
"""

import ast

from sa import AnalysisError, pat
from sa import query as Q
from sa.model import call_name, calls_in, src, walk_no_defs

from .common import http_func, WEB_HTTP, loc, need

MIN_OBLIGATIONS = 14
REJECTS = ('httperror', 'redirect', 'close')


def run(repo, chk):
    _run(repo, chk)
    rule_g(repo, chk)
    rule_h(repo, chk)
    rule_rejected(repo, chk)
    rule_complete(repo, chk)


def rule_complete(repo, chk):
    """`_on_read` dispatches the request as soon as the parser says the message is complete and drops the parser: a parser that says so too early makes the rest of
    the message look like a new (malformed) request — a second response on a connection that was sent one well-formed message."""
    chk.rule('C14.j', 'the parser reports a chunked message complete only after its last chunk (the chunk step never returns the "last chunk" answer for a data chunk): the '
                      'accounting decided for C13.b')
    n = chk.adopt('j', 'C13', repo, lambda o: o.rule == 'C13.b' and o.discr.split(':')[0].startswith('chunk-'))
    need(n >= 1, f'C14.j: only {n} chunk-step obligations of the body parser found')


def _run(repo, chk):
    chk.not_decided = ['totality over arbitrary byte strings (exceptions inside the parser are caught by the dispatcher, C04.a, and '
                       'answered by the safety net, but which inputs raise is data)', 'syntactic validity of every error body',
                       'a parser-exception escape rule was dropped at design time: its only report lay on an infeasible path']
    chk.rule('C14.a', 'a rejected message never reaches the request fire; each reject path fires one reject event and returns')
    chk.rule('C14.b', 'disconnect releases the (request, response) entry and the parser; parse-error rejects and the TLS probe drop the parser first')
    chk.rule('C14.c', 'HTTP handles `exception` for failed read handlers by firing a 500 httperror for a fresh Request/Response of that socket')
    chk.rule('C14.d', 'the parser error channel is consulted on every path on which the headers are not complete')
    h = http_func(repo, 'HTTP._on_read')
    chk.touch(h)
    g = h.cfg()
    sock = h.params[1]
    reqv = None
    for n in g.nodes:
        if n.kind == 'stmt' and isinstance(n.ast, ast.Assign) and 'request(' in src(n.ast.value) and isinstance(n.ast.targets[0], ast.Name):
            reqv = n.ast.targets[0].id
    need(reqv, 'C14.a: _on_read never builds a request event')
    rf = [n for n in g.nodes if n.kind == 'stmt' and any(src(e) == reqv for _c, _r, e in pat.fire_calls(n.ast))]
    rejects = [(n, pat.event_ctor_name(e)) for n in g.nodes if n.kind == 'stmt' for _c, _r, e in pat.fire_calls(n.ast)
               if pat.event_ctor_name(e) in REJECTS]
    if len(rejects) < 4:
        raise AnalysisError(f'C14.a: only {len(rejects)} reject sites in _on_read, 5 confirmed by hand')
    for n, name in rejects:
        bad = None
        for r in rf:
            seen, par = Q.search([n], exc=())
            if r in seen:
                bad = Q.path_to(par, r)
        chk.ob('a', h.ref, f'after rejecting with `{name}` the request event is not fired', bad is None, loc(h, n.ast),
               path=pat.path_lines(bad, n) if bad else None, discr=f'reject-excludes-request:{name}:{_case(n)}')
        chk.ob('a', h.ref, f'the `{name}` reject leaves the handler at once', isinstance(n.ast, ast.Return), loc(h, n.ast), discr=f'reject-returns:{name}:{_case(n)}')
        # one reject per path
        others = [m for m, _nm in rejects if m is not n]
        seen, _ = Q.search([n], exc=())
        chk.ob('a', h.ref, 'no second reject event on the same path', not any(o in seen for o in others), loc(h, n.ast),
               discr=f'single-reject:{name}:{_case(n)}')
    # e: a Content-Length that is not a number is rejected (int() raises → safety net → 500) before anything is dispatched
    chk.rule('C14.e', 'the announced Content-Length is converted with int() on every path to the request fire (a malformed length never reaches a request handler)')
    conv = [n for n in g.nodes if n.kind in ('stmt', 'test') and n.ast is not None and any(
        call_name(c) == 'int' and c.args and 'Content-Length' in src(c.args[0]) for c in calls_in(n.ast))]
    for r in rf:
        q = Q.reachable_without(g, r, avoid_node=lambda n: n in conv)
        chk.ob('e', h.ref, 'every path to the request fire evaluates int(<Content-Length header>)', q is None and bool(conv), loc(h, r.ast),
               path=pat.path_lines(q) if q else None, discr='content-length-validated')
    # f: reject responses are built from constants: text taken from the rejected bytes must not decide whether the response can be produced
    chk.rule('C14.f', 'reject responses of _on_read carry no text taken from the rejected message (their body can always be produced); the response '
                      'handler closes a connection whose response announces it whether or not a (request, response) entry exists')
    for n, name in rejects:
        if name != 'httperror':
            continue
        c = [e for _c, _r, e in pat.fire_calls(n.ast) if pat.event_ctor_name(e) == name][0]
        dyn = [k for k in c.keywords if k.arg in ('description', 'error') and not isinstance(k.value, ast.Constant)]
        chk.ob('f', h.ref, 'the description of a reject response is a constant', not dyn, loc(h, n.ast), detail='; '.join(f'{k.arg}={src(k.value)[:50]}' for k in dyn),
               discr=f'constant-description:{_case(n)}')
    rs = http_func(repo, 'HTTP._on_response')
    chk.touch(rs)
    gr = rs.cfg()
    hw = [n for n in gr.nodes if n.kind == 'stmt' and 'bytes(res)' in src(n.ast) and pat.fire_calls(n.ast)]
    closes_ = [n for n in gr.nodes if n.kind == 'stmt' and any(pat.event_ctor_name(e) == 'close' for _c, _r, e in pat.fire_calls(n.ast))]
    streams_ = [n for n in gr.nodes if n.kind == 'stmt' and pat.fires(n.ast, 'stream')]
    need(hw, 'C14.f: _on_response does not write the header')
    p = Q.escapes(gr, [hw[0]], lambda n: n in closes_ or n in streams_, exc=('StopIteration',),
                  avoid_edge=pat.test_edge(lambda tt, pol: pol == 'F' and src(tt) == 'res.close'))
    chk.ob('f', rs.ref, 'after the header every exit closes the connection if the response announced it (error responses for messages that never became a '
                        'request have no entry in _clients)', p is None and bool(closes_), loc(rs, hw[0].ast), path=pat.path_lines(p, hw[0]) if p else None,
           discr='close-independent-of-entry')
    # b: parse-error rejects drop the parser first
    dels = [n for n in g.nodes if n.kind == 'stmt' and isinstance(n.ast, ast.Delete) and any(src(t) == f'self._buffers[{sock}]' for t in n.ast.targets)]
    for n, name in rejects:
        c = [e for _c, _r, e in pat.fire_calls(n.ast) if pat.event_ctor_name(e) == name][0]
        code = src(c.args[2]) if name == 'httperror' and len(c.args) > 2 else None
        if code == '400' or name == 'close':
            q = Q.reachable_without(g, n, avoid_node=lambda m: m in dels, avoid_edge=pat.test_edge(
                lambda tt, pol: pat.fact_matches(pat.compare_fact(tt, pol), sock, ('not in',), 'self._buffers')))
            chk.ob('b', h.ref, f'the {name}{" " + code if code else ""} reject drops the connection\'s parser before answering', q is None and bool(dels),
                   loc(h, n.ast), path=pat.path_lines(q) if q else None, discr=f'parser-dropped:{name}:{_case(n)}')
    # d: parser error consulted
    inc = [e for n in g.nodes if n.kind == 'test' and src(n.ast).endswith('.is_headers_complete()') for e in n.succ if e.kind == 'F']
    need(inc, 'C14.d: _on_read does not test is_headers_complete()')
    errt = [n for n in g.nodes if n.kind == 'test' and '.errno' in src(n.ast) and 'None' in src(n.ast)]
    for e in inc:
        p = Q.escapes(g, [e.dst], lambda n: n in errt, exc=()) if e.dst not in errt else None
        chk.ob('d', h.ref, 'with incomplete headers the parser\'s error channel is consulted on every path', p is None and bool(errt), loc(h, e.src.ast),
               path=pat.path_lines(p) if p else None, discr='errno-consulted')
    inc_guard = pat.test_edge(lambda tt, pol: pol == 'F' and src(tt).endswith('.is_headers_complete()'))
    body_errt = [t for t in errt if pat.guarded_by(g, t, inc_guard) is not None]
    # … and in the body phase too: a body that can never be completed (bad chunk size / terminator) must be answered, not waited for
    waits = [n for n in g.nodes if n.kind == 'stmt' and isinstance(n.ast, ast.Return) and (n.ast.value is None or pat.is_const(n.ast.value, None))
             and pat.guarded_by(g, n, pat.test_edge(lambda tt, pol: pol == 'T' and src(tt).endswith('.is_headers_complete()'))) is None
             and pat.guarded_by(g, n, pat.test_edge(lambda tt, pol: pol == 'F' and src(tt).endswith('.is_message_complete()'))) is None]
    no_err = pat.test_edge(lambda tt, pol: isinstance(tt, ast.Compare) and '.errno' in src(tt.left) and pat.fact_matches(pat.compare_fact(tt, pol), src(tt.left), ('is', '=='), 'None'))
    for n in waits:
        q = pat.guarded_by(g, n, no_err)
        chk.ob('d', h.ref, 'waiting for the rest of a body happens only when the parser has reported no error (an error in the body phase is final: the parser keeps its '
                           'error state for what more data cannot cure, see C13.b)', q is None and bool(body_errt), loc(h, n.ast), path=pat.path_lines(q) if q else None,
               discr='body-error-not-waited-for')
    for t in body_errt:
        for e in t.succ:
            if pat.fact_matches(pat.compare_fact(t.ast, e.kind), src(t.ast.left), ('is not', '!='), 'None'):
                bad400 = [n for n, nm in rejects if nm == 'httperror']
                p = Q.escapes(g, [e.dst], lambda n: n in bad400, exc=())
                chk.ob('d', h.ref, 'a parser error in the body phase is answered with an error response on every path', p is None, loc(h, t.ast),
                       path=pat.path_lines(p) if p else None, discr='body-errno-rejected')
    for t in [t_ for t_ in errt if t_ not in body_errt]:
        for e in t.succ:
            if pat.fact_matches(pat.compare_fact(t.ast, e.kind), src(t.ast.left), ('is not', '!='), 'None'):
                bad400 = [n for n, nm in rejects if nm == 'httperror']
                p = Q.escapes(g, [e.dst], lambda n: n in bad400, exc=())
                chk.ob('d', h.ref, 'a parser error before the headers are complete is answered with an error response on every path', p is None, loc(h, t.ast),
                       path=pat.path_lines(p) if p else None, discr='errno-rejected')
            else:
                # no error: wait (return without firing)
                fires = [n for n in g.nodes if n.kind == 'stmt' and pat.fire_calls(n.ast)]
                seen, _ = Q.search([e.dst], exc=())
                chk.ob('d', h.ref, 'without a parser error incomplete headers just wait for more data', not any(f in seen for f in fires), loc(h, t.ast),
                       discr='no-error-waits')
    # rejects build their response for the same socket
    for n, name in rejects:
        if name == 'close':
            c = [e for _c, _r, e in pat.fire_calls(n.ast) if pat.event_ctor_name(e) == name][0]
            chk.ob('d', h.ref, 'the TLS probe closes the socket it arrived on', [src(a) for a in c.args] == [sock], loc(h, n.ast), discr='close-same-socket')
    mk = [n for n in g.nodes if n.kind == 'stmt' and isinstance(n.ast, ast.Assign) and 'wrappers.Request(' in src(n.ast.value)]
    ok = bool(mk) and all(src(n.ast.value.args[0]) == sock for n in mk if isinstance(n.ast.value, ast.Call) and n.ast.value.args)
    chk.ob('d', h.ref, 'every Request built in _on_read is bound to the socket the data arrived on', ok, loc(h, h.node), discr='request-same-socket')
    # b: disconnect handler
    dh = http_func(repo, 'HTTP._on_disconnect')
    chk.touch(dh)
    chk.ob('b', dh.ref, 'the release handler listens to disconnect', dh.handler is not None and 'disconnect' in dh.handler.names, loc(dh, dh.node),
           discr='is-disconnect-handler', nontrivial=False)
    gd = dh.cfg()
    s2 = dh.params[1]
    conts = sorted({a.value.attr for m in repo.cls(WEB_HTTP, 'HTTP').methods.values() for a in walk_no_defs(m.node)
                    if isinstance(a, ast.Subscript) and isinstance(a.value, ast.Attribute) and src(a.value.value) == 'self' and src(a.slice) == 'sock'})
    need(len(conts) >= 2, f'C14.b: per-connection containers of HTTP: {conts}; 2 confirmed by hand')
    chk.info('per-connection containers of HTTP: ' + ', '.join(conts))
    for attr in conts:
        rel = [n for n in gd.nodes if n.kind == 'stmt' and ((isinstance(n.ast, ast.Delete) and any(src(t) == f'self.{attr}[{s2}]' for t in n.ast.targets))
                                                           or any(r == f'self.{attr}' and c.args and src(c.args[0]) == s2 for r, c in pat.method_calls(n.ast, 'pop')))]
        p = Q.escapes(gd, [gd.entry], lambda n: n in rel, avoid_edge=pat.test_edge(
            lambda tt, pol: pat.fact_matches(pat.compare_fact(tt, pol), s2, ('not in',), f'self.{attr}')))
        chk.ob('b', dh.ref, f'disconnect releases `self.{attr}[sock]` whenever it exists', p is None and bool(rel), loc(dh, dh.node),
               path=pat.path_lines(p) if p else None, discr=f'disconnect-releases:{attr}')
    # c: safety net
    ex = http_func(repo, 'HTTP._on_exception')
    chk.touch(ex)
    chk.ob('c', ex.ref, 'HTTP handles the exception event', ex.handler is not None and 'exception' in ex.handler.names, loc(ex, ex.node),
           discr='is-exception-handler', nontrivial=False)
    ge = ex.cfg()
    mk500 = [n for n in ge.nodes if n.kind == 'stmt' and isinstance(n.ast, ast.Assign) and 'wrappers.Response(' in src(n.ast.value) and '500' in src(n.ast.value)]
    fire = [n for n in ge.nodes if n.kind == 'stmt' and pat.fires(n.ast, 'httperror')]
    chk.ob('c', ex.ref, 'a failed read handler (event args = (socket, data)) gets a fresh 500 response', bool(mk500), loc(ex, ex.node), discr='builds-500')
    for m in mk500:
        q = pat.guarded_by(ge, m, pat.test_edge(lambda tt, pol: pol == 'T' and 'isinstance(fevent.args[0], socket)' in src(tt)))
        chk.ob('c', ex.ref, 'the 500 is built for events whose first argument is a socket', q is None, loc(ex, m.ast), discr='socket-branch')
        p = Q.escapes(ge, [m], lambda n: n in fire, avoid_edge=pat.test_edge(lambda tt, pol: pol == 'T' and src(tt).endswith('.handled')))
        chk.ob('c', ex.ref, 'the 500 response is sent through an httperror event on every path (unless the request was answered with an error before)', p is None and bool(fire), loc(ex, m.ast),
               path=pat.path_lines(p, m) if p else None, discr='500-fired')
    chk.ob('c', ex.ref, 'httperror is fired from one site of the safety net', len(fire) == 1, loc(ex, ex.node), discr='fired-once')
    # the net must hold whatever state the failed handler left behind: the branch for failed read handlers does not consult the
    # per-connection parse state (parser, pending request) on its way to the httperror
    sock_T = [e for n in ge.nodes if n.kind == 'test' and 'isinstance(fevent.args[0], socket)' in src(n.ast) for e in n.succ if e.kind == 'T']
    need(sock_T, 'C14.c: the socket branch of the safety net was not found')
    seen, par = Q.search([e.dst for e in sock_T], weak=True, stop=lambda n: n in fire)
    touching = [n for n in seen if n.ast is not None and n.kind in ('stmt', 'test') and n not in fire and
                any(f'self.{c_}' in src(n.ast if n.kind != 'with' else n.ast.context_expr) for c_ in conts)]
    chk.ob('c', ex.ref, 'the 500 for a failed read handler is built from the socket and the server alone, not from the parse state the failed handler left behind',
           not touching, loc(ex, (touching[0] if touching else mk500[0]).ast) if (touching or mk500) else loc(ex, ex.node),
           detail='; '.join(f'L{n.ast.lineno}: {src(n.ast)[:80]}' for n in touching[:3]), discr='net-independent-of-parse-state')


def rule_rejected(repo, chk):
    """A rejected message ends the connection, but the close takes a few loop iterations: what still arrives meanwhile belongs to the rejected message."""
    chk.rule('C14.i', 'a connection on which a message was rejected is recorded before the error response is fired, reads on a recorded connection are ignored, and the '
                      'record is dropped when the connection ends')
    h = http_func(repo, 'HTTP._on_read')
    g = h.cfg()
    sock = h.params[1]
    marks = [n for n in g.nodes if n.kind == 'stmt' and any(r.startswith('self._') and [src(a) for a in c.args] == [sock] for r, c in pat.method_calls(n.ast, 'add'))]
    sets_ = {r for n in marks for r, _c in pat.method_calls(n.ast, 'add')}
    rej = [n for n in g.nodes if n.kind == 'stmt' and pat.fires(n.ast, 'httperror')]
    need(rej, 'C14.i: _on_read rejects nothing')
    for n in rej:
        q = Q.reachable_without(g, n, avoid_node=lambda m: m in marks)
        chk.ob('i', h.ref, 'the connection is recorded as rejected before the error response is fired', q is None and bool(marks), loc(h, n.ast),
               path=pat.path_lines(q) if q else None, discr=f'recorded:{_case(n)}')
    parse = [n for n in g.nodes if n.kind == 'stmt' and any(True for _r, _c in pat.method_calls(n.ast, 'execute'))]
    for n in parse:
        q = pat.guarded_by(g, n, pat.test_edge(lambda tt, pol: any(pat.fact_matches(pat.compare_fact(tt, pol), sock, ('not in',), st) for st in sets_)))
        chk.ob('i', h.ref, 'nothing is parsed on a connection that has been rejected (the rest of the rejected message would start a new one)', q is None and bool(sets_),
               loc(h, n.ast), path=pat.path_lines(q) if q else None, discr='rejected-not-parsed')
    d = http_func(repo, 'HTTP._on_disconnect')
    gd = d.cfg()
    s2 = d.params[1]
    for st in sorted(sets_):
        drops = [n for n in gd.nodes if n.kind == 'stmt' and any(r == st and [src(a) for a in c.args][:1] == [s2] for r, c in pat.method_calls(n.ast, 'discard') + pat.method_calls(n.ast, 'remove'))]
        p = Q.escapes(gd, [gd.entry], lambda n: n in drops)
        chk.ob('i', d.ref, f'the record `{st}` is dropped when the connection ends (a descriptor number is reused by the next connection)', p is None and bool(drops),
               loc(d, d.node), discr=f'record-dropped:{st}')
    ex = http_func(repo, 'HTTP._on_exception')
    ge = ex.cfg()
    mk500 = [n for n in ge.nodes if n.kind == 'stmt' and isinstance(n.ast, ast.Assign) and 'wrappers.Response(' in src(n.ast.value) and '500' in src(n.ast.value)]
    fire = [n for n in ge.nodes if n.kind == 'stmt' and pat.fires(n.ast, 'httperror')]
    marks_e = [n for n in ge.nodes if n.kind == 'stmt' and any(r in sets_ for r, _c in pat.method_calls(n.ast, 'add'))]
    for m in mk500:
        p = Q.escapes(ge, [m], lambda n: n in marks_e, exits=('exit',)) if m not in marks_e else None
        before = all(Q.reachable_without(ge, f_, start=m, avoid_node=lambda n: n in marks_e) is None for f_ in fire)
        chk.ob('i', ex.ref, 'a read handler that failed in the middle of a message leaves the connection recorded as rejected', bool(marks_e) and (p is None or before),
               loc(ex, m.ast), discr='recorded:500')
    # the header fields the framing depends on are numbers of ASCII digits
    from .common import WEB_PARSER
    ph = repo.func(WEB_PARSER, 'HttpParser._parse_headers')
    chk.touch(ph)
    gp = ph.cfg()
    for n in gp.nodes:
        if n.ast is None or n.kind not in ('stmt', 'test'):
            continue
        for c in pat.node_calls(n):
            if call_name(c) == 'int' and len(c.args) == 1 and isinstance(c.args[0], ast.Name) and any('content-length' in src(v).lower() for v in pat.flows_from(ph, c.args[0].id)):
                x = c.args[0].id
                q1 = pat.guarded_by(gp, n, pat.test_edge(lambda tt, pol: pol == 'T' and src(tt) == f'{x}.isdigit()'))
                q2 = pat.guarded_by(gp, n, pat.test_edge(lambda tt, pol: pol == 'T' and src(tt) == f'{x}.isascii()'))
                chk.ob('i', ph.ref, 'Content-Length is converted only when it consists of ASCII digits (a sign makes the length negative, which the body reader takes for '
                                    '"complete"); anything else invalidates the header block', q1 is None and q2 is None, loc(ph, c), discr='content-length-digits')
    # TLS on a plain-text port is recognised by its record header: the constants compared with the received bytes are bytes
    u = repo.func('circuits/net/utils.py', 'is_ssl_handshake')
    chk.touch(u)
    bp = u.params[0]
    bad = []
    n_cmp = 0
    for n in walk_no_defs(u.node):
        if isinstance(n, ast.Compare) and len(n.ops) == 1 and isinstance(n.ops[0], (ast.In, ast.Eq)):
            left_bytes = any(isinstance(w, ast.Subscript) and src(w.value) == bp for v in ([n.left] + [e for e in pat.deref(u, n.left)]) for w in ast.walk(v))
            if left_bytes:
                for c_ in ast.walk(n.comparators[0]):
                    if isinstance(c_, ast.Constant) and isinstance(c_.value, (str, bytes)):
                        n_cmp += 1
                        if isinstance(c_.value, str):
                            bad.append(c_)
    chk.ob('i', u.ref, 'the record headers the received bytes are compared with are bytes (a str never equals bytes: the test would be dead)', n_cmp >= 1 and not bad,
           loc(u, bad[0]) if bad else loc(u, u.node), detail=f'{len(bad)} str constant(s) of {n_cmp}', discr='tls-header-bytes')


def _case(n):
    s = src(n.ast)
    for k in ('400', '505', '301', 'close('):
        if k in s:
            if k == '400' and 'No host' in s:
                return '400-host'
            return k.strip('(')
    return s[:20]


def rule_g(repo, chk):
    """The error event itself: what every reject response looks like."""
    chk.rule('C14.g', 'an httperror always marks its response close=True with the status of the error; the default httperror handler turns it '
                      'into exactly one response whose body is the rendered error; bodiless statuses render an empty body')
    ERR = 'circuits/web/errors.py'
    f = repo.func(ERR, 'httperror.__init__')
    chk.touch(f)
    g = f.cfg()
    for attr, want in (('close', 'True'), ('status', 'self.code')):
        st = [n for n in g.nodes if n.kind == 'stmt' and any(r in ('self.response', f.params[2]) and a == attr and src(v) == want for r, a, v in pat.attr_store(n.ast))]
        other = [n for n in g.nodes if n.kind == 'stmt' and any(r in ('self.response', f.params[2]) and a == attr and src(v) != want for r, a, v in pat.attr_store(n.ast))]
        p = Q.escapes(g, [g.entry], lambda n: n in st, exits=('exit',)) if st else ['none']
        late = any(o in Q.search([x], exc=())[0] for x in st for o in other)
        chk.ob('g', f.ref, f'every error response gets {attr} = {want}', bool(st) and p is None and not late, loc(f, f.node),
               path=pat.path_lines(p) if p and p != ['none'] else None, discr=f'error-response:{attr}')
    cs = [n for n in g.nodes if n.kind == 'stmt' and any(r == 'self' and a == 'code' for r, a, v in pat.attr_store(n.ast))]
    okc = bool(cs) and all(src(v) == f.params[3] for n in cs for r, a, v in pat.attr_store(n.ast) if a == 'code') and \
        all(pat.guarded_by(g, n, pat.test_edge(lambda tt, pol: pat.fact_matches(pat.compare_fact(tt, pol), f.params[3], ('is not',), 'None'))) is None for n in cs)
    chk.ob('g', f.ref, 'the status is the code given to the constructor when one is given (else the class default)', okc, loc(f, f.node), discr='code-from-argument')
    h = http_func(repo, 'HTTP._on_httperror')
    chk.touch(h)
    gh = h.cfg()
    ev, res = h.params[1], h.params[3]
    body = [n for n in gh.nodes if n.kind == 'stmt' and any(r == res and a == 'body' and src(v) == f'str({ev})' for r, a, v in pat.attr_store(n.ast))]
    fires = [n for n in gh.nodes if n.kind == 'stmt' and any(pat.event_ctor_name(e) == 'response' and [src(x) for x in e.args] == [res] for _c, _r, e in pat.fire_calls(n.ast))]
    p1 = Q.escapes(gh, [gh.entry], lambda n: n in body, exits=('exit',)) if body else ['none']
    p2 = Q.escapes(gh, body, lambda n: n in fires, exits=('exit',)) if fires and body else ['none']
    twice = any(o in Q.search([e.dst for e in x.succ], exc=())[0] for x in fires for o in fires)
    chk.ob('g', h.ref, 'the default error handler renders the error into the body and fires exactly one response for it', p1 is None and p2 is None and not twice,
           loc(h, h.node), discr='error-answered-once')
    st = repo.func(ERR, 'httperror.__str__')
    chk.touch(st)
    gs = st.cfg()
    empties = [n for n in gs.nodes if n.kind == 'stmt' and isinstance(n.ast, ast.Return) and src(n.ast.value) in ("''", '""')]
    atoms = [m for m in gs.nodes if m.kind == 'test' and isinstance(m.ast, ast.Compare) and 'self.code' in (src(m.ast.left), src(m.ast.comparators[0]))]
    lt = [m for m in atoms if pat.fact_matches(pat.compare_fact(m.ast, 'T'), 'self.code', ('<',), '200')]
    isin = [m for m in atoms if isinstance(m.ast.ops[0], ast.In) and isinstance(m.ast.comparators[0], (ast.Tuple, ast.Set, ast.List))
            and {'204', '304'} <= {src(x) for x in m.ast.comparators[0].elts}]

    def leads_to_empty(m):
        d = [e.dst for e in m.succ if e.kind == 'T']
        return bool(d) and all(x in empties or Q.escapes(gs, [x], lambda n: n in empties, exits=('exit',)) is None for x in d)
    ok = bool(lt) and bool(isin) and all(leads_to_empty(m) for m in lt + isin) and \
        all(Q.escapes(gs, [gs.entry], lambda n: n is m, exits=('exit',)) is None for m in lt[:1])
    chk.ob('g', st.ref, 'errors with a status below 200 or 204/304 render an empty body', ok, loc(st, st.node), discr='bodiless-status-empty')


def rule_h(repo, chk):
    """Across reads: the pending (request, response) entry lets later reads of the same message skip the header-phase decisions."""
    chk.rule('C14.h', 'a reject decided only on the first read of a message (inside the "no pending entry" branch) never leaves a pending entry or the parser '
                      'behind: later data for that message cannot skip the decision and reach the request fire')
    h = http_func(repo, 'HTTP._on_read')
    g = h.cfg()
    sock = h.params[1]
    first = [e for n in g.nodes if n.kind == 'test' for e in n.succ
             if pat.fact_matches(pat.compare_fact(n.ast, e.kind), sock, ('not in',), 'self._clients')]
    need(first, 'C14.h: _on_read has no "pending entry" test')
    stores = [n for n in g.nodes if n.kind == 'stmt' and isinstance(n.ast, ast.Assign) and any(src(t) == f'self._clients[{sock}]' for t in n.ast.targets)]
    need(stores, 'C14.h: _on_read never stores the pending entry')
    dels_c = [n for n in g.nodes if n.kind == 'stmt' and isinstance(n.ast, ast.Delete) and any(src(t) == f'self._clients[{sock}]' for t in n.ast.targets)]
    dels_b = [n for n in g.nodes if n.kind == 'stmt' and isinstance(n.ast, ast.Delete) and any(src(t) == f'self._buffers[{sock}]' for t in n.ast.targets)]
    rejects = [(n, pat.event_ctor_name(e)) for n in g.nodes if n.kind == 'stmt' for _c, _r, e in pat.fire_calls(n.ast) if pat.event_ctor_name(e) in REJECTS]
    n_first = 0
    for n, name in rejects:
        only_first = any(pat.guarded_by(g, n, lambda e, fe=fe: e is fe) is None for fe in first)
        if not only_first:
            continue      # decided again on every read: a pending entry cannot skip it
        n_first += 1
        left = None
        for s_ in stores:
            left = left or Q.reachable_without(g, n, start=s_, avoid_node=lambda m: m in dels_c)
        chk.ob('h', h.ref, f'the first-read-only `{name}` reject leaves no pending (request, response) entry', left is None, loc(h, n.ast),
               path=pat.path_lines(left) if left else None, discr=f'first-read-reject-no-entry:{name}:{_case(n)}')
        q = Q.reachable_without(g, n, avoid_node=lambda m: m in dels_b)
        chk.ob('h', h.ref, f'the first-read-only `{name}` reject drops the parser', q is None and bool(dels_b), loc(h, n.ast),
               path=pat.path_lines(q) if q else None, discr=f'first-read-reject-no-parser:{name}:{_case(n)}')
    need(n_first >= 1, 'C14.h: no first-read-only reject found (the 505 reject was confirmed by hand)')
