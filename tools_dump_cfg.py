"""Debug helper: python tools_dump_cfg.py <relpath> <qualname> [root]"""
import sys
sys.path.insert(0, '/verif')
from sa.model import Repo
root = sys.argv[3] if len(sys.argv) > 3 else '/repo'
r = Repo(root)
f = r.func(sys.argv[1], sys.argv[2])
g = f.cfg()
for n in g.nodes:
    print(n.id, n.kind, n.lineno, n.text[:70], '|', ' '.join(f'{e.kind}{":"+e.exc+("?" if e.weak else "") if e.kind=="x" else ""}->{e.dst.id}' for e in n.succ))
