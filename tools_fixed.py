"""Record a repo fix: tools_fixed.py <PROP> <commit> <mutant-id> <rule-prefix> <what failed ...>
Adds the `fixed` entry to known_findings.json, stores the patch for the revert-mutant and appends the mutant."""
import json, subprocess, sys
prop, c, mid, rule = sys.argv[1:5]
what = ' '.join(sys.argv[5:])
k = json.load(open('/verif/known_findings.json'))
if not any(f.get('commit') == c and f.get('property') == prop for f in k['findings']):
    k['findings'].append({'property': prop, 'status': 'fixed', 'commit': c, 'what': what, 'entry': f'fixed: property={prop} {c} {what}'})
    json.dump(k, open('/verif/known_findings.json', 'w'), indent=1)
d = subprocess.run(['git', '-C', '/repo', 'show', '--format=', c, '--', 'circuits'], capture_output=True, text=True).stdout
open(f'/verif/selftest/patches/{c}.diff', 'w').write(d)
p = '/verif/selftest/mutants.py'
s = open(p).read()
line = f"    ({prop!r}, {mid!r}, ('revert', {c!r}), {rule!r}),\n"
if line not in s:
    i = s.index("]\n\n# behaviour-preserving edits")
    s = s[:i] + line + s[i:]
    open(p, 'w').write(s)
print('recorded', prop, c)
