"""Re-evaluate every kept seeded change against the current rules and the current /repo HEAD.

Updates seeded/<id>/meta.json (checks_fired, caught_by_*; keeps the recorded test result) and prints a table.
Usage: tools_seed_refresh.py [--demo]   (--demo also re-runs the demonstrations)
"""

import json
import os
import re
import shutil
import subprocess
import sys
import tempfile
from concurrent.futures import ProcessPoolExecutor

VERIF = os.path.dirname(os.path.abspath(__file__))
PY = '/venv/bin/python'
PROPS = [f'C{i:02d}' for i in range(1, 21)]


def one(sid):
    d0 = os.path.join(VERIF, 'seeded', sid)
    meta = json.load(open(os.path.join(d0, 'meta.json')))
    prop = meta['property']
    d = tempfile.mkdtemp(prefix='verif-seedr-')
    try:
        subprocess.run(f'git -C /repo archive HEAD | tar -x -C {d}', shell=True, check=True)
        r = subprocess.run(['git', 'apply', '--whitespace=nowarn', os.path.join(d0, 'patch.diff')], cwd=d, capture_output=True, text=True)
        if r.returncode != 0:
            r = subprocess.run(['patch', '-p1', '-s', '-f', '-i', os.path.join(d0, 'patch.diff')], cwd=d, capture_output=True, text=True)
        if r.returncode != 0:
            meta['applies_to_current_head'] = False
            json.dump(meta, open(os.path.join(d0, 'meta.json'), 'w'), indent=1)
            return sid, prop, 'patch no longer applies', {}
        meta['applies_to_current_head'] = True
        if '--demo' in sys.argv:
            env = dict(os.environ, PYTHONPATH=d, PYTHONDONTWRITEBYTECODE='1')
            rr = subprocess.run(['timeout', '120', PY, '-B', os.path.join(d0, 'demo.py')], cwd=d, env=env, capture_output=True, text=True)
            meta['confirmed']['demo_fails_with_change'] = rr.returncode != 0
        fired = {}
        for p in PROPS:
            rr = subprocess.run([os.path.join(VERIF, 'check'), p, '--root', d, '--no-evidence'], capture_output=True, text=True)
            if rr.returncode != 0:
                keys = re.findall(r'replay=\S*/(C\d\d-[^\s]+)\.json', rr.stdout)
                rules = sorted(set(re.findall(r'^\s+rule (C\d\d\.\w+):', rr.stdout, re.M)))
                fired[p] = {'rc': rr.returncode, 'rules': rules, 'n': len(keys), 'first': keys[:3]}
                if rr.returncode == 2:
                    fired[p]['error'] = rr.stdout.strip().splitlines()[0][:200]
        meta['checks_fired'] = fired
        meta['caught_by_own_property'] = prop in fired and fired[prop]['rc'] == 1
        meta['caught_by_any_check'] = any(v['rc'] == 1 for v in fired.values())
        json.dump(meta, open(os.path.join(d0, 'meta.json'), 'w'), indent=1)
        return sid, prop, 'ok', fired
    finally:
        shutil.rmtree(d, ignore_errors=True)


def main():
    ids = sorted(x for x in os.listdir(os.path.join(VERIF, 'seeded')) if os.path.exists(os.path.join(VERIF, 'seeded', x, 'meta.json')))
    with ProcessPoolExecutor(max_workers=8) as ex:
        rows = list(ex.map(one, ids))
    own = 0
    for sid, prop, st, fired in rows:
        o = prop in fired and fired[prop]['rc'] == 1
        own += o
        others = {k: v['rc'] for k, v in fired.items() if k != prop}
        print(f'{sid:10s} {st:8s} own={"yes" if o else "NO ":3s} rules={fired.get(prop, {}).get("rules", [])} other={others}')
    print(f'{own}/{len(rows)} caught by the check of their own property')


if __name__ == '__main__':
    main()
