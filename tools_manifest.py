"""Regenerates MANIFEST.json from the table below (claimed = a rules/<id>.py module exists)."""

import json
import os

HERE = os.path.dirname(os.path.abspath(__file__))

TEXT = {
    'C01': ('cache coherence of the dispatch memo (all writers of handler/tree state invalidate the right root), flag '
            'consumption, memo key, finite truth table of the channel matcher, union of handler sources', '§4 C01'),
    'C02': ('queue discipline (FIFO→heap, entry shape, tie counter), batch protocol of a flush pass, fire never dispatches '
            '(call graph), descending-priority sort of every handler list reaching the loop, stopped test after every handler', '§4 C02'),
    'C03': ('lock discipline of the cross-thread fire path and of the dispatcher arming generate_events, reduce_time_left → '
            'resume under the event lock, clear-under-lock-before-wait in the fallback, control descriptor of every poller', '§4 C03'),
    'C04': ('per-handler catch-all isolation, failure/exception feedback on both error paths (dispatcher and task stepper), '
            'persistent failure record gating success, completion gate on waiting handlers, result flow to the value setter', '§4 C04'),
    'C05': ('effects accounting on every dispatcher path incl. cancelled events, currently-handled event published around every '
            'site that runs handler code, complete fired at zero and link removed, link pairing in _fire, prepare_unregister protocol', '§4 C05'),
    'C06': ('task retirement implies continuation or accounting in every clause of the stepper, identity guards of the wait '
            'protocol, temporary handlers released per terminal scenario, callEvent = fire + wait + CallValue', '§4 C06'),
    'C07': ('parent/children pairing, root propagation over all children, registered/unregistered announced once and before the '
            'links are cut, queue drained into the new root, pending guard', '§4 C07'),
    'C08': ('started once after flag and owner thread, loop condition, fade-out and final tick, stopped guarded by the running '
            'flag, KeyboardInterrupt/SystemExit mapped to stop() in dispatcher and stepper', '§4 C08'),
    'C09': ('timer fires only under now ≥ expiry with now read in the same invocation, reset or self-unregister after each fire, '
            'pending-unregister guard, idle budget lowered to the time to expiry, units of the idle waits', '§4 C09'),
    'C10': ('registration mutators of Poll/EPoll call base bookkeeping then _updateRegistration, sibling agreement of '
            '_updateRegistration (mask bits, map entry added/removed), hang-up path releases everything, events addressed to '
            'getTarget of the same descriptor and filtered by current interest', '§4 C10'),
    'C11': ('linear ownership of a popped payload on every path incl. the OSError paths and errno classes, requeue at the front '
            'of the same buffer, deferred close, writer interest', '§4 C11'),
    'C12': ('connect once after bookkeeping, _close guarded and releasing every per-socket container, poller discard before '
            'socket close, _read outcomes', '§4 C12'),
    'C13': ('framing searches range over carry + new data, phase flags monotone, request only when the message is complete, '
            'parser retained on wait exits and dropped on terminal exits', '§4 C13'),
    'C14': ('reject paths never reach the request fire, per-connection state released on disconnect and on reject paths, '
            'exception safety net present', '§4 C14'),
    'C15': ('three-valued header typestate at the exits of Response.prepare, chunk framing guarded by non-empty data and '
            'terminated exactly once, exchange finished on every exit of _on_response incl. HEAD', '§4 C15'),
    'C16': ('containment guard of the accepted idiom dominating every file-system sink, ValueError cannot escape get_ranges, '
            'ranges clamped to the entity before use', '§4 C16'),
    'C17': ('bounds before index in the frame decoder, carry-over of incomplete frames, writer/reader length tables agree, '
            'mask iff client, control frames do not touch the fragment buffer, close-state guards, list returned on every path', '§4 C17'),
    'C18': ('splitLines searches carry + data and keeps the tail, per-socket tail callbacks, CR and LF rejected in every field '
            'that reaches the serialised line, exactly one CRLF appended', '§4 C18'),
    'C19': ('META_EXCLUDE ⊇ attributes the dispatcher reads on events, setattr of peer keys dominated by the exclusion test, '
            'firewall dominates transmit/dispatch, decode errors do not escape, tail retention', '§4 C19'),
    'C20': ('truthy returns of check_auth dominated by a successful credential check, password nullness, digest realm/response '
            'equality, session id provenance and fingerprint, gateway configuration reaches the test that uses it', '§4 C20'),
}


def main():
    checks = []
    na = []
    for i in range(1, 21):
        pid = f'C{i:02d}'
        if os.path.exists(os.path.join(HERE, 'rules', f'{pid.lower()}.py')):
            text, ref = TEXT[pid]
            checks.append({
                'property_id': pid,
                'quick_cmd': f'./check {pid} --tier quick',
                'thorough_cmd': f'./check {pid} --tier thorough',
                'evidence_file': f'/verif/evidence/{pid}.json',
                'replay_cmd_template': './check ' + pid + ' --replay {path}',
                'engine': 'sa',
                'level_claimed': {
                    'category': 'other',
                    'text': 'Static discharge, on every run and on every path/site of the current /repo tree, of structural '
                            'obligations that are necessary conditions of the property: ' + text + '. A broken obligation is '
                            'reported with file:line, rule and offending path. The behavioural statement as a whole is not proven; '
                            'the clauses not decided are listed in DESIGN.md and in the evidence file.',
                    'design_ref': 'DESIGN.md ' + ref,
                },
                'level_note': 'Trusted: python ast; the CFG builder and raises oracle (sa/cfg.py); the idiom tables of the rule '
                              'module; absence of reflection on anchored attributes. User handlers are out of scope.',
                'technique': 'static analysis: custom AST/CFG/data-flow rules (must-pass-through, dominating guard, who-may-write, '
                             'table/sibling agreement) over /repo source; nothing is executed',
            })
        else:
            na.append({'property_id': pid, 'reason': 'check not built yet (static rules designed in DESIGN.md §4)'})
    m = {
        'version': 1,
        'setup_cmd': 'true',
        'hooks': {
            'guard': 'CIRCUITS_VERIF',
            'enable': 'none needed: the checks parse /repo sources and never execute them; no hook was added to /repo',
            'baseline_off_cmd': 'cd /repo && /venv/bin/python -m pytest -ra -q -p no:cacheprovider --timeout=900 '
                                '--continue-on-collection-errors',
            'source_commits': [],
            'add_only': True,
        },
        'engines': [{
            'name': 'sa',
            'path': '/verif/sa',
            'serves_properties': [c['property_id'] for c in checks],
            'kind_free_text': 'static analysis engine: program model (classes, MRO, handlers), statement CFG with typed '
                              'exception edges, path queries, reaching definitions, call graph; stdlib only',
        }],
        'checks': checks,
        'notes': 'All checks are static (family: static analysis). Genuine defects found are repaired by fix: commits in /repo '
                 'or listed in /verif/known_findings.json; see DESIGN.md §8.',
        'not_applicable': na,
    }
    with open(os.path.join(HERE, 'MANIFEST.json'), 'w') as f:
        json.dump(m, f, indent=1)
    print(f'{len(checks)} checks, {len(na)} not applicable')


if __name__ == '__main__':
    main()
