"""Print the analysed view (after helper inlining and normalisation) of one function: tools_view.py <root> <relpath> <Qual.name>"""
import ast
import sys
sys.path.insert(0, __import__('os').path.dirname(__import__('os').path.abspath(__file__)))
from sa.model import Repo
r = Repo(sys.argv[1])
f = r.func(sys.argv[2], sys.argv[3])
print(ast.unparse(f.node))
