"""Evaluate a behaviour-preserving refactoring ("twin"): tools_twin.py <dir with patch.diff> <PROP> [--tests] [--keep-as ID]

1. scratch copy of /repo HEAD (git archive) under a temp dir outside /repo and /verif; the patch must apply and compile
2. all 20 checks are run against the patched copy (--root): a VIOLATION is a false alarm of the checker, an
   ANALYSIS-ERROR (exit 2) means a rule could not find its anchors any more (not an alarm, but recorded)
3. --tests: the full pinned suite on the patched copy
4. --keep-as ID: copy patch, README and a meta.json to /verif/twins/ID/ (replayed by the self-test: must stay silent)
"""

import json
import os
import re
import shutil
import subprocess
import sys
import tempfile

VERIF = os.path.dirname(os.path.abspath(__file__))
PY = '/venv/bin/python'
PROPS = [f'C{i:02d}' for i in range(1, 21)]


def sh(cmd, cwd=None, env=None, timeout=1800):
    e = dict(os.environ)
    e.update(env or {})
    try:
        r = subprocess.run(cmd, cwd=cwd, env=e, capture_output=True, text=True, timeout=timeout)
        return r.returncode, r.stdout + r.stderr
    except subprocess.TimeoutExpired as x:
        return 124, f'TIMEOUT after {timeout}s\n{x.stdout or ""}'


def main():
    src_dir, prop = sys.argv[1], sys.argv[2]
    tests = '--tests' in sys.argv
    keep = sys.argv[sys.argv.index('--keep-as') + 1] if '--keep-as' in sys.argv else None
    patch = os.path.join(src_dir, 'patch.diff')
    out = {'source': src_dir, 'property': prop}
    d = tempfile.mkdtemp(prefix='verif-twin-')
    try:
        subprocess.run(f'git -C /repo archive HEAD | tar -x -C {d}', shell=True, check=True)
        rc, o = sh(['git', 'apply', '--whitespace=nowarn', patch], cwd=d)
        if rc != 0:
            rc, o = sh(['patch', '-p1', '-s', '-i', patch], cwd=d)
        out['patch_applies'] = rc == 0
        if rc != 0:
            out['patch_error'] = o[-500:]
            print(json.dumps(out, indent=1))
            return
        rc, o = sh([PY, '-B', '-m', 'compileall', '-q', 'circuits'], cwd=d)
        out['compiles'] = rc == 0
        fired = {}
        for p in PROPS:
            rc, o = sh([os.path.join(VERIF, 'check'), p, '--root', d, '--no-evidence'])
            if rc != 0:
                keys = re.findall(r'replay=\S*/(C\d\d-[^\s]+)\.json', o)
                rules = sorted(set(re.findall(r'^\s+rule (C\d\d\.\w+):', o, re.M)))
                fired[p] = {'rc': rc, 'rules': rules, 'first': keys[:4]}
                if rc == 2:
                    fired[p]['error'] = o.strip().splitlines()[0][:300]
                else:
                    fired[p]['report'] = '\n'.join(o.strip().splitlines()[:14])[:1500]
        out['checks_fired'] = fired
        out['false_alarms'] = sorted(p for p, v in fired.items() if v['rc'] == 1)
        out['analysis_errors'] = sorted(p for p, v in fired.items() if v['rc'] == 2)
        if tests:
            rc, o = sh(['timeout', '-k', '10', '1500', PY, '-m', 'pytest', '-q', '-p', 'no:cacheprovider', '--timeout=300',
                        '--deselect', 'tests/net/test_tcp.py::test_tcp_lookup_failure', 'tests', 'examples'], cwd=d,
                       env={'PYTHONPATH': d, 'PYTHONDONTWRITEBYTECODE': '1'}, timeout=1600)
            tail = o.strip().splitlines()[-1] if o.strip() else ''
            out['tests'] = {'rc': rc, 'summary': tail[-200:]}
        if keep:
            kd = os.path.join(VERIF, 'twins', keep)
            os.makedirs(kd, exist_ok=True)
            shutil.copy(patch, os.path.join(kd, 'patch.diff'))
            rd = os.path.join(src_dir, 'README.txt')
            if os.path.exists(rd):
                shutil.copy(rd, os.path.join(kd, 'README.txt'))
            head = subprocess.run(['git', '-C', '/repo', 'rev-parse', '--short', 'HEAD'], capture_output=True, text=True).stdout.strip()
            meta = {'property': prop, 'replay_for': PROPS, 'kind': 'behaviour-preserving refactoring from an independent sub-agent', 'repo_head': head,
                    'silent': not out['false_alarms'] and not out['analysis_errors'], 'checks_fired': fired, 'tests': out.get('tests')}
            json.dump(meta, open(os.path.join(kd, 'meta.json'), 'w'), indent=1)
        print(json.dumps(out, indent=1))
    finally:
        shutil.rmtree(d, ignore_errors=True)


if __name__ == '__main__':
    main()
