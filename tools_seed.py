"""Evaluate a seeded change: tools_seed.py <dir with patch.diff, demo.py> <PROP> [--tests] [--keep-as ID]

1. scratch copy of /repo HEAD (git archive) under a temp dir outside /repo and /verif
2. demo without the patch must pass (exit 0), with the patch must fail (exit != 0)
3. all 20 checks are run against the patched copy (--root); reports which rules fire
4. --tests: the full pinned suite is run on the patched copy (baseline: 295 passed, 3 known offline failures)
5. --keep-as ID: copy patch, demo and a meta.json to /verif/seeded/ID/
The scratch copy is removed at the end.
"""

import json
import os
import re
import shutil
import subprocess
import sys
import tempfile

VERIF = os.path.dirname(os.path.abspath(__file__))
PY = '/venv/bin/python'
PROPS = [f'C{i:02d}' for i in range(1, 21)]


def sh(cmd, cwd=None, env=None, timeout=1800):
    e = dict(os.environ)
    e.update(env or {})
    try:
        r = subprocess.run(cmd, cwd=cwd, env=e, capture_output=True, text=True, timeout=timeout)
        return r.returncode, r.stdout + r.stderr
    except subprocess.TimeoutExpired as x:
        return 124, f'TIMEOUT after {timeout}s\n{x.stdout or ""}'


def main():
    src_dir, prop = sys.argv[1], sys.argv[2]
    tests = '--tests' in sys.argv
    keep = sys.argv[sys.argv.index('--keep-as') + 1] if '--keep-as' in sys.argv else None
    patch = os.path.join(src_dir, 'patch.diff')
    demo = os.path.join(src_dir, 'demo.py')
    out = {'source': src_dir, 'property': prop}
    d = tempfile.mkdtemp(prefix='verif-seed-')
    try:
        subprocess.run(f'git -C /repo archive HEAD | tar -x -C {d}', shell=True, check=True)
        env = {'PYTHONPATH': d, 'PYTHONDONTWRITEBYTECODE': '1'}
        rc0, o0 = sh(['timeout', '120', PY, '-B', demo], cwd=d, env=env)
        out['demo_without_patch'] = {'rc': rc0, 'tail': o0[-300:]}
        rc, o = sh(['git', 'apply', '--whitespace=nowarn', patch], cwd=d)
        if rc != 0:
            rc, o = sh(['patch', '-p1', '-s', '-i', patch], cwd=d)
        out['patch_applies'] = rc == 0
        if rc != 0:
            out['patch_error'] = o[-500:]
            print(json.dumps(out, indent=1))
            return
        rc, o = sh([PY, '-B', '-m', 'compileall', '-q', 'circuits'], cwd=d)
        out['compiles'] = rc == 0
        rc1, o1 = sh(['timeout', '120', PY, '-B', demo], cwd=d, env=env)
        out['demo_with_patch'] = {'rc': rc1, 'tail': o1[-300:]}
        out['demo_discriminates'] = rc0 == 0 and rc1 != 0
        fired = {}
        for p in PROPS:
            rc, o = sh([os.path.join(VERIF, 'check'), p, '--root', d, '--no-evidence'])
            keys = re.findall(r'replay=\S*/(C\d\d-[^\s]+)\.json', o)
            rules = sorted(set(re.findall(r'^\s+rule (C\d\d\.\w+):', o, re.M)))
            if rc != 0:
                fired[p] = {'rc': rc, 'rules': rules, 'n': len(keys), 'first': keys[:3]}
                if rc == 2:
                    fired[p]['error'] = o.strip().splitlines()[0][:200]
        out['checks_fired'] = fired
        out['caught_by_own_property'] = prop in fired and fired[prop]['rc'] == 1
        out['caught_by_any'] = any(v['rc'] == 1 for v in fired.values())
        if tests:
            rc, o = sh([PY, '-m', 'pytest', '-q', '-p', 'no:cacheprovider', '--timeout=900', '-x', '--deselect',
                        'tests/net/test_tcp.py::test_tcp_lookup_failure', '-q'], cwd=d, env=env, timeout=1500)
            last = [ln for ln in o.strip().splitlines() if 'passed' in ln or 'failed' in ln][-1:] or [o[-200:]]
            out['tests'] = {'rc': rc, 'summary': last[0]}
        if keep and out.get('demo_discriminates'):
            dst = os.path.join(VERIF, 'seeded', keep)
            os.makedirs(dst, exist_ok=True)
            shutil.copy(patch, os.path.join(dst, 'patch.diff'))
            shutil.copy(demo, os.path.join(dst, 'demo.py'))
            readme = os.path.join(src_dir, 'README.txt')
            if os.path.exists(readme):
                shutil.copy(readme, os.path.join(dst, 'README.txt'))
            meta = {
                'property': prop,
                'origin': 'independent sub-agent given only the property text and a scratch worktree',
                'needs_to_manifest': open(readme).read()[:1500] if os.path.exists(readme) else '',
                'confirmed': {
                    'patch_applies_to_repo_head': out['patch_applies'], 'compiles': out.get('compiles'),
                    'demo_passes_without_change': rc0 == 0, 'demo_fails_with_change': rc1 != 0,
                    'existing_tests_with_change': out.get('tests'),
                },
                'what_i_ran': 'tools_seed.py: git archive of /repo HEAD into a temp dir; demo.py without and with patch.diff (PYTHONPATH=copy); '
                              'full pinned suite on the patched copy (lookup_failure tests deselected: they fail offline in the baseline); '
                              'all 20 ./check Cxx --root <copy>',
                'checks_fired': fired,
                'caught_by_own_property': out['caught_by_own_property'],
                'caught_by_any_check': out['caught_by_any'],
            }
            with open(os.path.join(dst, 'meta.json'), 'w') as f:
                json.dump(meta, f, indent=1)
        print(json.dumps(out, indent=1))
    finally:
        shutil.rmtree(d, ignore_errors=True)


if __name__ == '__main__':
    main()
