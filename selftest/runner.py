"""Self-test of the checkers: mutants must be reported, twins must stay silent.

Runs on scratch copies of /repo/circuits under a temporary directory (outside /repo and /verif, removed at once).
Results measure the checker; they never change the exit status of the check.
    python selftest/runner.py [PROP ...]     # stand-alone: prints a table
"""

import contextlib
import io
import os
import shutil
import subprocess
import sys
import tempfile
from concurrent.futures import ProcessPoolExecutor

HERE = os.path.dirname(os.path.abspath(__file__))
VERIF = os.path.dirname(HERE)
if VERIF not in sys.path:
    sys.path.insert(0, VERIF)

from selftest.mutants import MUTANTS, TWINS  # noqa: E402


def _apply(root, change):
    kind = change[0]
    if kind == 'revert':
        pf = os.path.join(HERE, 'patches', change[1] + '.diff')
        if not os.path.exists(pf):
            return 'patch file missing'
        r = subprocess.run(['patch', '-R', '-p1', '-s', '-f', '-d', root, '-i', pf], capture_output=True, text=True)
        if r.returncode != 0:
            return 'patch does not apply (the tree moved on)'
        return None
    if kind == 'twinpatch':
        pf = os.path.join(VERIF, 'twins', change[1], 'patch.diff')
        r = subprocess.run(['patch', '-p1', '-s', '-f', '-d', root, '-i', pf], capture_output=True, text=True)
        if r.returncode != 0:
            return 'twin patch does not apply (the tree moved on)'
        return None
    if kind == 'seeded':
        pf = os.path.join(VERIF, 'seeded', change[1], 'patch.diff')
        r = subprocess.run(['patch', '-p1', '-s', '-f', '-d', root, '-i', pf], capture_output=True, text=True)
        if r.returncode != 0:
            return 'seeded patch does not apply (the tree moved on)'
        return None
    _k, rel, old, new = change
    p = os.path.join(root, rel)
    if not os.path.exists(p):
        return 'file missing'
    s = open(p).read()
    if s.count(old) != 1:
        return f'anchor text matches {s.count(old)} times'
    s = s.replace(old, new)
    try:
        compile(s, p, 'exec')
    except SyntaxError as e:
        return f'does not compile: {e}'
    open(p, 'w').write(s)
    return None


def _one(args):
    prop, mid, change, expect, repo_root = args
    d = tempfile.mkdtemp(prefix='verif-selftest-')
    try:
        shutil.copytree(os.path.join(repo_root, 'circuits'), os.path.join(d, 'circuits'), ignore=shutil.ignore_patterns('__pycache__'))
        why = _apply(d, change)
        if why:
            return (prop, mid, 'skipped', why)
        import run_check
        from sa import AnalysisError
        from sa.model import Repo
        from sa.report import Check
        import importlib
        mod = importlib.import_module(f'rules.{prop.lower()}')
        try:
            chk = Check(prop, 'quick', d)
            with contextlib.redirect_stdout(io.StringIO()):
                mod.run(Repo(d), chk)
        except AnalysisError as e:
            return (prop, mid, 'analysis-error', str(e)[:200])
        from sa.report import load_known
        known = {k['key'] for k in load_known() if k.get('status') == 'open'}
        viol = sorted({o.key for o in chk.obligations if not o.ok and o.key not in known})
        if expect is None:
            return (prop, mid, 'silent' if not viol else 'NOISY', '; '.join(viol[:3]))
        hit = [k for k in viol if k.startswith(expect)]
        if hit:
            return (prop, mid, 'killed', hit[0])
        if viol:
            return (prop, mid, 'killed-by-other-rule', viol[0])
        return (prop, mid, 'SURVIVED', '')
    except Exception as e:  # pragma: no cover
        return (prop, mid, 'error', repr(e)[:200])
    finally:
        shutil.rmtree(d, ignore_errors=True)


def seeded_items():
    """Kept seeded changes (/verif/seeded/<id>/): each must be reported by the check of its own property."""
    import json
    out = []
    d = os.path.join(VERIF, 'seeded')
    if os.path.isdir(d):
        for sid in sorted(os.listdir(d)):
            mp = os.path.join(d, sid, 'meta.json')
            if os.path.exists(mp) and os.path.exists(os.path.join(d, sid, 'patch.diff')):
                prop = json.load(open(mp)).get('property')
                out.append((prop, 'seeded:' + sid, ('seeded', sid), prop))
    return out


def twin_items():
    """Kept refactorings from sub-agents (/verif/twins/<id>/): every check whose rules read a file the patch touches must stay silent."""
    import json
    out = []
    d = os.path.join(VERIF, 'twins')
    if os.path.isdir(d):
        for tid in sorted(os.listdir(d)):
            mp = os.path.join(d, tid, 'meta.json')
            if os.path.exists(mp) and os.path.exists(os.path.join(d, tid, 'patch.diff')):
                for prop in json.load(open(mp)).get('replay_for', []):
                    out.append((prop, f'twin:{tid}', ('twinpatch', tid), None))
    return out


def run_all(props=None, repo_root='/repo', jobs=None):
    items = [(p, i, c, e, repo_root) for (p, i, c, e) in MUTANTS + TWINS + seeded_items() + twin_items() if props is None or p in props]
    jobs = jobs or min(16, os.cpu_count() or 4)
    if len(items) <= 2 or jobs == 1:
        return [_one(x) for x in items]
    with ProcessPoolExecutor(max_workers=jobs) as ex:
        return list(ex.map(_one, items))


def run_for(prop, repo_root='/repo'):
    res = run_all({prop}, repo_root)
    muts = [r for r in res if any(r[1] == m[1] and m[0] == prop for m in MUTANTS) or r[1].startswith('seeded:')]
    twins = [r for r in res if any(r[1] == t[1] and t[0] == prop for t in TWINS) or r[1].startswith('twin:')]
    return {
        'mutants': len(muts),
        'killed': sum(1 for r in muts if r[2].startswith('killed')),
        'killed_by_expected_rule': sum(1 for r in muts if r[2] == 'killed'),
        'survivors': [r[1] for r in muts if r[2] == 'SURVIVED'],
        'skipped': [f'{r[1]}: {r[3]}' for r in muts + twins if r[2] in ('skipped', 'analysis-error', 'error')],
        'twins': len(twins),
        'twins_silent': sum(1 for r in twins if r[2] == 'silent'),
        'noisy_twins': [f'{r[1]}: {r[3]}' for r in twins if r[2] == 'NOISY'],
        'details': [f'{r[1]}: {r[2]} {r[3]}'.strip() for r in res],
    }


if __name__ == '__main__':
    props = set(sys.argv[1:]) or None
    rows = run_all(props)
    bad = 0
    for r in rows:
        flag = '' if r[2] in ('killed', 'silent', 'killed-by-other-rule') else '   <<<<'
        if flag:
            bad += 1
        print(f'{r[0]} {r[1]:32s} {r[2]:22s} {r[3][:110]}{flag}')
    print(f'{len(rows)} variants, {bad} need attention')
